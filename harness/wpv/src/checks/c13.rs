//! C13 — a dynamic tick array behaves exactly like a fixed one (DESIGN §C13): explicit-state search on the codec.
//!
//! Four implementations are driven with the same operation sequences, all through the overlay casts the program
//! itself uses (`DynamicTickArrayLoader::load_mut(&mut data[8..])`, `&mut *(data.as_mut_ptr() as *mut
//! MemoryMappedDynamicTickArray)`, `bytemuck::from_bytes_mut::<FixedTickArray>(&mut data[8..])`,
//! `... as *mut MemoryMappedFixedTickArray`; every overlay type has alignment 1 — asserted):
//!   A  = dynamic array, Anchor accessor        P  = dynamic array, Pinocchio accessor (own copy of the bytes)
//!   F  = fixed array, Anchor accessor          PF = fixed array, Pinocchio accessor (own copy)
//! next to an abstract map slot -> {empty, content v1(slot), content v2(slot)}.
//!
//! On-chain buffer discipline (read from instructions/*/increase_liquidity.rs, decrease_liquidity.rs and
//! manager/tick_array_manager.rs + pinocchio/ported/manager_tick_array_manager.rs): the handler reads the tick,
//! grows the account by 112 zeroed bytes BEFORE an initialising `update_tick` and shrinks it by 112 AFTER a
//! de-initialising one. The harness tracks that *used length* itself (148 + 112 per initialised tick) and keeps
//! each dynamic image in a buffer that covers the whole MAX_LEN overlay (the on-chain overlay reaches into the
//! 10 KiB realloc padding) plus a sentinel area that must never be written.
//! Only bytes [0, used) persist on chain; the check therefore constrains exactly that prefix (byte-for-byte equal to
//! the canonical encoding of the abstract map, in both dynamic copies) and never the scratch bytes behind it. The
//! bytes behind the used length are driven three ways: zero (fresh instruction), 0xFF poison (as the repo's own
//! test does) and naturally carried along a trace (left-overs of earlier rotations inside one instruction).
//!
//! Search: (a) the complete transition system over a boundary slot set (3^8 states x 24 ops, BFS from the empty
//! array, every state expanded), (b) all op sequences of length <= 2 (quick) / <= 3 (thorough) over all 88 slots x
//! {de-init, v1, v2}, (c) long carried walks: a ternary Gray walk through all 3^8 boundary states and
//! fill/modify/drain walks over all 88 slots in four orders (the only place the 10 004-byte full array occurs).
//! Queries (get_tick on all 88 slots x 4 accessors, get_next_init_tick_index from every slot tick, inside-slot
//! offsets around the edges and the bitmap word boundary, +-1 around and outside the shifted/unshifted search range,
//! both directions, dynamic vs fixed vs reference, invalid indexes for get/update on all four, the harness decoder
//! as a third opinion, and the same reads again with 0xFF behind the used length) are deterministic functions of
//! the image. The complete sweep therefore runs once per distinct abstract state — every state of (a), every state
//! of (b) on its canonical path, every step of (c) — while after EVERY op the four update results, the image
//! equalities and the touched-slot queries are checked; all-slot queries additionally run after every op in (b) up
//! to depth 2 and, in the thorough tier, after every op of (a).
use crate::decode;
use crate::report::{Ctx, Report};
use rayon::prelude::*;
use serde_json::{json, Value};
use std::panic::{catch_unwind, AssertUnwindSafe};
use std::sync::atomic::{AtomicBool, AtomicU64, Ordering};

use whirlpool::pinocchio::verif_export::errors::UnifiedError;
use whirlpool::pinocchio::verif_export::state::whirlpool::tick_array::dynamic_tick_array::MemoryMappedDynamicTickArray as PDyn;
use whirlpool::pinocchio::verif_export::state::whirlpool::tick_array::fixed_tick_array::MemoryMappedFixedTickArray as PFix;
use whirlpool::pinocchio::verif_export::state::whirlpool::tick_array::tick::MemoryMappedTick as PTick;
use whirlpool::pinocchio::verif_export::state::whirlpool::tick_array::{TickArray as PTickArray, TickUpdate as PTickUpdate};
use whirlpool::state::{DynamicTickArray, DynamicTickArrayLoader, FixedTickArray, Tick as ATick, TickArrayType, TickUpdate as ATickUpdate, MAX_TICK_INDEX, MIN_TICK_INDEX};

const N: usize = 88;
const HDR: usize = 60; // 8 discriminator + 4 start + 32 whirlpool + 16 bitmap
pub(super) const DYN_MIN: usize = 148;
pub(super) const FIX_LEN: usize = 9988;
/// end of the Anchor overlay: the loader struct is MAX_LEN (10 004, discriminator included) bytes laid over data[8..]
const A_END: usize = 8 + DynamicTickArray::MAX_LEN;
/// end of the Pinocchio overlay (struct laid over data[0..])
const P_END: usize = std::mem::size_of::<PDyn>();
pub(super) const BUF: usize = 10048;
const SENTINEL: u8 = 0x5A;
const E_TICK_NOT_FOUND: i64 = 6009;
const E_INVALID_SEQUENCE: i64 = 6023;
const E_PANIC: i64 = -999;

const _: () = assert!(std::mem::align_of::<DynamicTickArrayLoader>() == 1);
const _: () = assert!(std::mem::align_of::<PDyn>() == 1);
const _: () = assert!(std::mem::align_of::<FixedTickArray>() == 1);
const _: () = assert!(std::mem::align_of::<PFix>() == 1);
const _: () = assert!(std::mem::size_of::<FixedTickArray>() + 8 == FIX_LEN);
const _: () = assert!(std::mem::size_of::<PFix>() == FIX_LEN);
const _: () = assert!(std::mem::size_of::<PDyn>() == 10004);
const _: () = assert!(std::mem::size_of::<DynamicTickArrayLoader>() == 10004);
const _: () = assert!(std::mem::size_of::<PTick>() == 113);

fn wp_key() -> [u8; 32] {
    let mut k = [0u8; 32];
    for (i, b) in k.iter_mut().enumerate() {
        *b = (i as u8).wrapping_mul(7).wrapping_add(0x81);
    }
    k
}

#[derive(Clone, Copy, Debug, PartialEq, Eq)]
struct Cfg {
    ts: u16,
    start: i32,
}
impl Cfg {
    fn tick(&self, k: usize) -> i32 {
        self.start + k as i32 * self.ts as i32
    }
    fn usable(&self, k: usize) -> bool {
        let t = self.tick(k);
        (MIN_TICK_INDEX..=MAX_TICK_INDEX).contains(&t)
    }
    fn name(&self) -> String {
        format!("ts{}@{}", self.ts, self.start)
    }
}

/// tick spacings {1, 64, 32768} (+ 3, 96, 32896: not powers of two) x start indexes {0, a negative multiple, the array straddling MIN_TICK_INDEX, the last
/// array before MAX_TICK_INDEX}; for spacing 32768 only two arrays exist at all (0 = last, and the straddling one).
fn configs() -> Vec<Cfg> {
    let mut v: Vec<Cfg> = vec![];
    for ts in [1u16, 64, 32768] {
        let tia = 88 * ts as i32;
        let min_start = MIN_TICK_INDEX - (MIN_TICK_INDEX % tia + tia);
        let last = MAX_TICK_INDEX / tia * tia;
        let neg = -tia * 3;
        for s in [0, neg, min_start, last] {
            if s < min_start {
                continue;
            }
            let c = Cfg { ts, start: s };
            if !v.contains(&c) {
                v.push(c);
            }
        }
    }
    // spacings that are not powers of two (any u16 can be a fee tier's spacing; 32896 is the deployed full-range-only tier):
    // arithmetic that treats the spacing as a mask or a shift is only right for powers of two
    for (ts, starts) in [(3u16, vec![0i32, -1]), (96, vec![-3]), (32896, vec![0, -1])] {
        let tia = 88 * ts as i32;
        let min_start = MIN_TICK_INDEX - (MIN_TICK_INDEX % tia + tia);
        for k in starts {
            let s = if k == -1 { min_start } else { k * tia };
            if s >= min_start {
                v.push(Cfg { ts, start: s });
            }
        }
    }
    v
}

// ---------------------------------------------------------------------------------------------------------------
// abstract model + canonical encodings (independent of the program's serializers)
// ---------------------------------------------------------------------------------------------------------------
type St = [u8; N]; // 0 = uninitialised, 1 = content v1(slot), 2 = content v2(slot), 3 = initialised with all-zero fields (walks only)

fn content(slot: usize, v: u8) -> decode::Tick {
    let s = slot as u128;
    match v {
        1 => decode::Tick {
            initialized: true,
            liquidity_net: -(0x11002233445566778899aabbccddeeffi128) - slot as i128,
            liquidity_gross: 0xff00eeddccbbaa998877665544332211u128 + s,
            fee_growth_outside_a: 0x11220033445566778899aabbccddeeffu128 + s,
            fee_growth_outside_b: 0xffee00ddccbbaa998877665544332211u128 + s,
            reward_growths_outside: [0x11223300445566778899aabbccddeeffu128 + s, 0x0100000000000000000000000000u128 + s, 0x11223344550066778899aabbccddee01u128 + s],
        },
        2 => decode::Tick {
            initialized: true,
            liquidity_net: if slot % 2 == 0 { i128::MAX - slot as i128 } else { i128::MIN + slot as i128 },
            liquidity_gross: u128::MAX - s,
            fee_growth_outside_a: u128::MAX,
            fee_growth_outside_b: s,
            reward_growths_outside: [u128::MAX - s, 0, (1u128 << 127) + s],
        },
        // an initialised tick whose fields are all zero: only the tag byte / bitmap bit tell it from an empty slot
        3 => decode::Tick { initialized: true, ..decode::Tick::default() },
        _ => decode::Tick::default(),
    }
}

fn put_tick_body(out: &mut Vec<u8>, t: &decode::Tick) {
    out.extend_from_slice(&t.liquidity_net.to_le_bytes());
    out.extend_from_slice(&t.liquidity_gross.to_le_bytes());
    out.extend_from_slice(&t.fee_growth_outside_a.to_le_bytes());
    out.extend_from_slice(&t.fee_growth_outside_b.to_le_bytes());
    for r in t.reward_growths_outside {
        out.extend_from_slice(&r.to_le_bytes());
    }
}

fn bitmap_of(st: &St) -> u128 {
    let mut b = 0u128;
    for (k, v) in st.iter().enumerate() {
        if *v != 0 {
            b |= 1u128 << k;
        }
    }
    b
}
fn popcount(st: &St) -> usize {
    st.iter().filter(|v| **v != 0).count()
}

/// discriminator, start index, whirlpool key, bitmap = set of initialised slots, then per slot 0x00 or 0x01 + 112 bytes
fn canon_dyn(cfg: &Cfg, st: &St, out: &mut Vec<u8>) {
    out.clear();
    out.extend_from_slice(&decode::DYN_TA_DISC);
    out.extend_from_slice(&cfg.start.to_le_bytes());
    out.extend_from_slice(&wp_key());
    out.extend_from_slice(&bitmap_of(st).to_le_bytes());
    for (k, v) in st.iter().enumerate() {
        if *v == 0 {
            out.push(0);
        } else {
            out.push(1);
            put_tick_body(out, &content(k, *v));
        }
    }
}

fn canon_fixed(cfg: &Cfg, st: &St, out: &mut Vec<u8>) {
    out.clear();
    out.extend_from_slice(&decode::FIXED_TA_DISC);
    out.extend_from_slice(&cfg.start.to_le_bytes());
    for (k, v) in st.iter().enumerate() {
        if *v == 0 {
            out.extend_from_slice(&[0u8; 113]);
        } else {
            out.push(1);
            put_tick_body(out, &content(k, *v));
        }
    }
    out.extend_from_slice(&wp_key());
}

fn a_update(t: &decode::Tick) -> ATickUpdate {
    ATickUpdate {
        initialized: t.initialized,
        liquidity_net: t.liquidity_net,
        liquidity_gross: t.liquidity_gross,
        fee_growth_outside_a: t.fee_growth_outside_a,
        fee_growth_outside_b: t.fee_growth_outside_b,
        reward_growths_outside: t.reward_growths_outside,
    }
}
fn p_update(t: &decode::Tick) -> PTickUpdate {
    PTickUpdate {
        initialized: t.initialized,
        liquidity_net: t.liquidity_net,
        liquidity_gross: t.liquidity_gross,
        fee_growth_outside_a: t.fee_growth_outside_a,
        fee_growth_outside_b: t.fee_growth_outside_b,
        reward_growths_outside: t.reward_growths_outside,
    }
}
pub(super) fn from_atick(t: ATick) -> decode::Tick {
    decode::Tick {
        initialized: t.initialized,
        liquidity_net: t.liquidity_net,
        liquidity_gross: t.liquidity_gross,
        fee_growth_outside_a: t.fee_growth_outside_a,
        fee_growth_outside_b: t.fee_growth_outside_b,
        reward_growths_outside: t.reward_growths_outside,
    }
}
pub(super) fn from_ptick(t: &PTick) -> decode::Tick {
    decode::Tick {
        initialized: t.initialized(),
        liquidity_net: t.liquidity_net(),
        liquidity_gross: t.liquidity_gross(),
        fee_growth_outside_a: t.fee_growth_outside_a(),
        fee_growth_outside_b: t.fee_growth_outside_b(),
        reward_growths_outside: t.reward_growths_outside(),
    }
}
pub(super) fn a_code(e: anchor_lang::error::Error) -> i64 {
    match e {
        anchor_lang::error::Error::AnchorError(a) => a.error_code_number as i64,
        anchor_lang::error::Error::ProgramError(_) => -3,
    }
}
pub(super) fn p_code(e: UnifiedError) -> i64 {
    match e {
        UnifiedError::Anchor(a) => a_code(a),
        UnifiedError::Pinocchio(_) => -2,
    }
}

// reference answers -------------------------------------------------------------------------------------------------
fn ref_get(cfg: &Cfg, st: &St, t: i32, ts: u16) -> Result<decode::Tick, i64> {
    let (s, w, t64) = (cfg.start as i64, ts as i64, t as i64);
    if w == 0 || t64 < s || t64 >= s + 88 * w || t < MIN_TICK_INDEX || t > MAX_TICK_INDEX || (t64 - s) % w != 0 {
        return Err(E_TICK_NOT_FOUND);
    }
    let k = ((t64 - s) / w) as usize;
    Ok(content(k, st[k]))
}

fn ref_next(cfg: &Cfg, st: &St, t: i32, ts: u16, a_to_b: bool) -> Result<Option<i32>, i64> {
    let (s, w, t64) = (cfg.start as i64, ts as i64, t as i64);
    let (lo, hi) = if a_to_b { (s, s + 88 * w) } else { (s - w, s + 87 * w) };
    if t64 < lo || t64 >= hi {
        return Err(E_INVALID_SEQUENCE);
    }
    let o = (t64 - s).div_euclid(w);
    let hit = if a_to_b { (0..=o).rev().find(|k| st[*k as usize] != 0) } else { ((o + 1)..88).find(|k| st[*k as usize] != 0) };
    Ok(hit.map(|k| (s + k * w) as i32))
}

// ---------------------------------------------------------------------------------------------------------------
// the four real implementations over byte buffers
// ---------------------------------------------------------------------------------------------------------------
#[derive(Clone, Copy, PartialEq, Eq, Debug)]
enum Tail {
    Zero,
    Poison,
}

#[derive(Clone)]
struct World {
    st: St,
    a: Vec<u8>,
    p: Vec<u8>,
    used_a: usize,
    used_p: usize,
    f: Vec<u8>,
    pf: Vec<u8>,
}

pub(super) fn a_dyn(b: &[u8]) -> &DynamicTickArrayLoader {
    DynamicTickArrayLoader::load(&b[8..])
}
fn a_dyn_mut(b: &mut [u8]) -> &mut DynamicTickArrayLoader {
    DynamicTickArrayLoader::load_mut(&mut b[8..])
}
// same casts as pinocchio/state/whirlpool/tick_array/loader.rs (no public constructor exists)
pub(super) fn p_dyn(b: &[u8]) -> &PDyn {
    assert!(b.len() >= P_END);
    unsafe { &*(b.as_ptr() as *const PDyn) }
}
fn p_dyn_mut(b: &mut [u8]) -> &mut PDyn {
    assert!(b.len() >= P_END);
    unsafe { &mut *(b.as_mut_ptr() as *mut PDyn) }
}
// same as state/tick_array.rs: bytemuck::from_bytes(&data[8..]) on the packed, align-1 zero-copy struct
pub(super) fn a_fix(b: &[u8]) -> &FixedTickArray {
    assert!(b.len() == FIX_LEN);
    unsafe { &*(b[8..].as_ptr() as *const FixedTickArray) }
}
fn a_fix_mut(b: &mut [u8]) -> &mut FixedTickArray {
    assert!(b.len() == FIX_LEN);
    unsafe { &mut *(b[8..].as_mut_ptr() as *mut FixedTickArray) }
}
pub(super) fn p_fix(b: &[u8]) -> &PFix {
    assert!(b.len() == FIX_LEN);
    unsafe { &*(b.as_ptr() as *const PFix) }
}
fn p_fix_mut(b: &mut [u8]) -> &mut PFix {
    assert!(b.len() == FIX_LEN);
    unsafe { &mut *(b.as_mut_ptr() as *mut PFix) }
}

pub(super) fn guarded<T>(f: impl FnOnce() -> Result<T, i64>) -> Result<T, i64> {
    match catch_unwind(AssertUnwindSafe(f)) {
        Ok(r) => r,
        Err(_) => Err(E_PANIC),
    }
}

impl World {
    fn new(cfg: &Cfg, st: &St, tail: Tail) -> World {
        let mut canon = Vec::with_capacity(BUF);
        canon_dyn(cfg, st, &mut canon);
        let used = canon.len();
        let fill = if tail == Tail::Poison { 0xFF } else { 0 };
        let mut a = vec![fill; BUF];
        a[..used].copy_from_slice(&canon);
        let mut p = a.clone();
        a[A_END..].fill(SENTINEL);
        p[P_END..].fill(SENTINEL);
        let mut f = Vec::with_capacity(FIX_LEN);
        canon_fixed(cfg, st, &mut f);
        let pf = f.clone();
        World { st: *st, a, p, used_a: used, used_p: used, f, pf }
    }
    fn copy_from(&mut self, o: &World) {
        self.st = o.st;
        self.a.copy_from_slice(&o.a);
        self.p.copy_from_slice(&o.p);
        self.used_a = o.used_a;
        self.used_p = o.used_p;
        self.f.copy_from_slice(&o.f);
        self.pf.copy_from_slice(&o.pf);
    }
    /// fill everything behind the used length (inside the overlays) with 0xFF
    fn poison_tail(&mut self) {
        self.a[self.used_a..A_END].fill(0xFF);
        self.p[self.used_p..P_END].fill(0xFF);
    }

    /// `update_tick` with an arbitrary index on all four, no account resizing (used for indexes the handler would
    /// already have rejected in `get_tick`)
    fn raw_update(&mut self, t: i32, ts: u16, upd: &decode::Tick) -> [Result<(), i64>; 4] {
        let au = a_update(upd);
        let pu = p_update(upd);
        let ra = guarded(|| a_dyn_mut(&mut self.a).update_tick(t, ts, &au).map_err(a_code));
        let rp = guarded(|| p_dyn_mut(&mut self.p).update_tick(t, ts, &pu).map_err(p_code));
        let rf = guarded(|| a_fix_mut(&mut self.f).update_tick(t, ts, &au).map_err(a_code));
        let rpf = guarded(|| p_fix_mut(&mut self.pf).update_tick(t, ts, &pu).map_err(p_code));
        [ra, rp, rf, rpf]
    }

    /// One handler-shaped update of slot `k` to `kind` (0 de-init, 1 v1, 2 v2): grow before an initialising update,
    /// shrink after a de-initialising one. Returns the four results and the expected one; updates the abstract map.
    fn apply(&mut self, cfg: &Cfg, k: usize, kind: u8) -> ([Result<(), i64>; 4], Result<(), i64>) {
        let t = cfg.tick(k);
        // the de-initialising update is TickUpdate::default(), as next_tick_modify_liquidity_update produces it
        let upd = content(k, kind);
        if !cfg.usable(k) {
            return (self.raw_update(t, cfg.ts, &upd), Err(E_TICK_NOT_FOUND));
        }
        let was = self.st[k] != 0;
        let will = kind != 0;
        if !was && will {
            // AccountInfo::resize zero-fills the grown region
            self.a[self.used_a..self.used_a + 112].fill(0);
            self.p[self.used_p..self.used_p + 112].fill(0);
            self.used_a += 112;
            self.used_p += 112;
        }
        let res = self.raw_update(t, cfg.ts, &upd);
        if was && !will {
            self.used_a -= 112;
            self.used_p -= 112;
        }
        self.st[k] = kind;
        (res, Ok(()))
    }
}

#[derive(Default, Clone, Copy)]
struct Stats {
    inits: u64,
    modifies: u64,
    deinits: u64,
    noop_deinits: u64,
    rejected_updates: u64,
    transitions: u64,
    sweeps: u64,
    get_cmp: u64,
    next_cmp: u64,
    err_cmp: u64,
    both_words: u64,
    full_arrays: u64,
    straddle_rejects: u64,
    /// distinct abstract states swept on their canonical path in (b) that are not states of the (a) system
    seq_states: u64,
}
impl Stats {
    fn merge(mut self, o: Stats) -> Stats {
        self.inits += o.inits;
        self.modifies += o.modifies;
        self.deinits += o.deinits;
        self.noop_deinits += o.noop_deinits;
        self.rejected_updates += o.rejected_updates;
        self.transitions += o.transitions;
        self.sweeps += o.sweeps;
        self.get_cmp += o.get_cmp;
        self.next_cmp += o.next_cmp;
        self.err_cmp += o.err_cmp;
        self.both_words += o.both_words;
        self.full_arrays += o.full_arrays;
        self.straddle_rejects += o.straddle_rejects;
        self.seq_states += o.seq_states;
        self
    }
}

struct Scratch {
    cd: Vec<u8>,
    cf: Vec<u8>,
    w: Option<World>,
    nq: Vec<i32>,
    odd: Vec<(i32, u16)>,
}
impl Scratch {
    fn new(cfg: &Cfg) -> Scratch {
        Scratch { cd: Vec::with_capacity(BUF), cf: Vec::with_capacity(FIX_LEN), w: None, nq: next_queries(cfg), odd: odd_indexes(cfg) }
    }
}

fn first_diff(a: &[u8], b: &[u8]) -> usize {
    a.iter().zip(b.iter()).position(|(x, y)| x != y).unwrap_or(a.len().min(b.len()))
}

/// The persistent images after an op: both dynamic copies == canonical encoding of the abstract map (hence equal to
/// each other, bitmap = set of initialised slots, 113/1 bytes in slot order, used length 148 + 112 n), both fixed
/// copies == canonical fixed encoding, nothing written outside the overlays.
fn check_images(cfg: &Cfg, w: &World, sc: &mut Scratch) -> Result<(), String> {
    canon_dyn(cfg, &w.st, &mut sc.cd);
    let n = popcount(&w.st);
    if sc.cd.len() != DYN_MIN + 112 * n {
        return Err(format!("harness: canonical length {} for {} ticks", sc.cd.len(), n));
    }
    if w.used_a != sc.cd.len() || w.used_p != sc.cd.len() {
        return Err(format!("used length: anchor copy {}, pinocchio copy {}, expected 148 + 112 x {} = {}", w.used_a, w.used_p, n, sc.cd.len()));
    }
    if w.a[..w.used_a] != sc.cd[..] {
        let d = first_diff(&w.a[..w.used_a], &sc.cd);
        return Err(format!("dynamic image (Anchor accessor) differs from the canonical encoding at byte {d}: has {:#04x}, canonical {:#04x} (bitmap {:#x}, used {})", w.a[d], sc.cd[d], bitmap_of(&w.st), w.used_a));
    }
    if w.p[..w.used_p] != sc.cd[..] {
        let d = first_diff(&w.p[..w.used_p], &sc.cd);
        return Err(format!("dynamic image (Pinocchio accessor) differs from the canonical encoding / the Anchor copy at byte {d}: has {:#04x}, canonical {:#04x} (bitmap {:#x}, used {})", w.p[d], sc.cd[d], bitmap_of(&w.st), w.used_p));
    }
    if w.a[A_END..].iter().any(|b| *b != SENTINEL) || w.p[P_END..].iter().any(|b| *b != SENTINEL) {
        return Err("a dynamic accessor wrote outside its MAX_LEN overlay".into());
    }
    canon_fixed(cfg, &w.st, &mut sc.cf);
    if w.f[..] != sc.cf[..] {
        let d = first_diff(&w.f, &sc.cf);
        return Err(format!("fixed image (Anchor accessor) differs from the abstract map at byte {d}"));
    }
    if w.pf[..] != sc.cf[..] {
        let d = first_diff(&w.pf, &sc.cf);
        return Err(format!("fixed image (Pinocchio accessor) differs from the abstract map at byte {d}"));
    }
    Ok(())
}

fn get4(w: &World, t: i32, ts: u16) -> [Result<decode::Tick, i64>; 4] {
    [
        guarded(|| a_dyn(&w.a).get_tick(t, ts).map(from_atick).map_err(a_code)),
        guarded(|| p_dyn(&w.p).get_tick(t, ts).map(from_ptick).map_err(p_code)),
        guarded(|| a_fix(&w.f).get_tick(t, ts).map(from_atick).map_err(a_code)),
        guarded(|| p_fix(&w.pf).get_tick(t, ts).map(from_ptick).map_err(p_code)),
    ]
}
const IMPL: [&str; 4] = ["dynamic/Anchor", "dynamic/Pinocchio", "fixed/Anchor", "fixed/Pinocchio"];

fn check_get(cfg: &Cfg, w: &World, t: i32, ts: u16, s: &mut Stats) -> Result<(), String> {
    let exp = ref_get(cfg, &w.st, t, ts);
    let got = get4(w, t, ts);
    s.get_cmp += 4;
    if exp.is_err() {
        s.err_cmp += 4;
    }
    for i in 0..4 {
        if got[i] != exp {
            return Err(format!("get_tick({t}, spacing {ts}) on {}: {:?}; fixed/Anchor: {:?}; abstract: {:?}", IMPL[i], got[i], got[2], exp));
        }
    }
    Ok(())
}

fn check_next(cfg: &Cfg, w: &World, t: i32, ts: u16, a_to_b: bool, s: &mut Stats) -> Result<(), String> {
    let exp = ref_next(cfg, &w.st, t, ts, a_to_b);
    let d = guarded(|| a_dyn(&w.a).get_next_init_tick_index(t, ts, a_to_b).map_err(a_code));
    let f = guarded(|| a_fix(&w.f).get_next_init_tick_index(t, ts, a_to_b).map_err(a_code));
    s.next_cmp += 2;
    if exp.is_err() {
        s.err_cmp += 2;
    }
    if d != f || d != exp {
        return Err(format!("get_next_init_tick_index({t}, spacing {ts}, a_to_b={a_to_b}): dynamic {:?}, fixed {:?}, abstract {:?} (bitmap {:#x})", d, f, exp, bitmap_of(&w.st)));
    }
    Ok(())
}

/// tick indexes from which next-initialised-tick searches are started
fn next_queries(cfg: &Cfg) -> Vec<i32> {
    let ts = cfg.ts as i32;
    let mut q = vec![];
    for k in -2i32..=89 {
        let base = cfg.start + k * ts;
        q.push(base);
        // inside-slot offsets (floor division of the offset) around the array edges and the bitmap word boundary
        if ts > 1 && (k <= 1 || (62..=65).contains(&k) || k >= 86) {
            q.push(base + 1);
            q.push(base + ts - 1);
        }
    }
    q
}

/// (tick index, spacing) pairs that are mostly invalid: outside the array, not a multiple, beyond the tick bounds,
/// i32 extremes. (Spacing 0 is deliberately not queried through get_tick / update_tick: no pool can have it (C19) and the
/// Pinocchio shift-subtract division does not terminate for it once the bounds test lets a tick through.)
fn odd_indexes(cfg: &Cfg) -> Vec<(i32, u16)> {
    let ts = cfg.ts as i32;
    let end = cfg.start + 88 * ts;
    let mut v = vec![(cfg.start - 1, cfg.ts), (cfg.start - ts, cfg.ts), (end, cfg.ts), (end - 1, cfg.ts), (end + ts, cfg.ts), (MIN_TICK_INDEX - 1, cfg.ts), (MAX_TICK_INDEX + 1, cfg.ts), (MIN_TICK_INDEX, cfg.ts), (MAX_TICK_INDEX, cfg.ts), (i32::MIN, cfg.ts), (i32::MAX, cfg.ts)];
    if ts > 1 {
        for k in [0usize, 1, 63, 64, 87] {
            v.push((cfg.tick(k) + 1, cfg.ts));
            v.push((cfg.tick(k) + ts - 1, cfg.ts));
            v.push((cfg.tick(k) + ts / 2, cfg.ts));
        }
    }
    v
}

/// third opinion on the bytes: the harness's own decoder (wpv/src/decode.rs)
fn check_decode(cfg: &Cfg, w: &World) -> Result<(), String> {
    for (nm, img) in [("Anchor", &w.a[..w.used_a]), ("Pinocchio", &w.p[..w.used_p])] {
        let d = decode::tick_array(img).map_err(|e| format!("dynamic image ({nm} copy) is not well formed: {e}"))?;
        if !d.dynamic || d.start_tick_index != cfg.start || d.whirlpool.to_bytes() != wp_key() || d.bitmap != bitmap_of(&w.st) {
            return Err(format!("dynamic image ({nm} copy): header decodes to start {} bitmap {:#x}, expected start {} bitmap {:#x}", d.start_tick_index, d.bitmap, cfg.start, bitmap_of(&w.st)));
        }
        for k in 0..N {
            if d.ticks[k] != content(k, w.st[k]) || d.raw_flags[k] != (w.st[k] != 0) as u8 {
                return Err(format!("dynamic image ({nm} copy): slot {k} decodes to {:?}, abstract {:?}", d.ticks[k], content(k, w.st[k])));
            }
        }
    }
    for (nm, img) in [("Anchor", &w.f), ("Pinocchio", &w.pf)] {
        let d = decode::tick_array(img).map_err(|e| format!("fixed image ({nm} copy) is not well formed: {e}"))?;
        for k in 0..N {
            if d.ticks[k] != content(k, w.st[k]) {
                return Err(format!("fixed image ({nm} copy): slot {k} decodes to {:?}, abstract {:?}", d.ticks[k], content(k, w.st[k])));
            }
        }
    }
    Ok(())
}

/// All queries on one state: get_tick on the 88 slots (4 accessors), next-initialised-tick searches (dynamic vs fixed
/// vs reference) in both directions from every slot tick, inside-slot offsets, and outside both search ranges,
/// get_tick on invalid indexes.
fn check_queries(cfg: &Cfg, w: &World, nq: &[i32], odd: &[(i32, u16)], s: &mut Stats) -> Result<(), String> {
    for k in 0..N {
        check_get(cfg, w, cfg.tick(k), cfg.ts, s)?;
    }
    for t in nq {
        check_next(cfg, w, *t, cfg.ts, true, s)?;
        check_next(cfg, w, *t, cfg.ts, false, s)?;
    }
    check_next(cfg, w, cfg.start, 0, true, s)?;
    check_next(cfg, w, cfg.start, 0, false, s)?;
    for (t, ts) in odd {
        check_get(cfg, w, *t, *ts, s)?;
    }
    Ok(())
}

/// `update_tick` with invalid indexes must fail identically on all four and leave every byte alone.
fn check_invalid_updates(cfg: &Cfg, w: &World, sc: &mut Scratch, s: &mut Stats) -> Result<(), String> {
    let mut tmp = sc.w.take().unwrap_or_else(|| w.clone());
    tmp.copy_from(w);
    let mut out = Ok(());
    'outer: for &(t, ts) in sc.odd.iter() {
        if ref_get(cfg, &w.st, t, ts).is_ok() {
            continue;
        }
        for upd in [content(0, 1), decode::Tick::default()] {
            let res = tmp.raw_update(t, ts, &upd);
            s.err_cmp += 4;
            s.rejected_updates += 1;
            for i in 0..4 {
                if res[i] != Err(E_TICK_NOT_FOUND) {
                    out = Err(format!("update_tick({t}, spacing {ts}, initialized={}) on {}: {:?}, expected TickNotFound on all four (results {:?})", upd.initialized, IMPL[i], res[i], res));
                    break 'outer;
                }
            }
        }
    }
    if out.is_ok() && (tmp.a != w.a || tmp.p != w.p || tmp.f != w.f || tmp.pf != w.pf) {
        out = Err("a rejected update_tick (invalid tick index) modified an image".to_string());
    }
    sc.w = Some(tmp);
    out
}

fn full_check(cfg: &Cfg, w: &World, sc: &mut Scratch, s: &mut Stats) -> Result<(), String> {
    check_images(cfg, w, sc)?;
    check_decode(cfg, w)?;
    check_queries(cfg, w, &sc.nq, &sc.odd, s)?;
    check_invalid_updates(cfg, w, sc, s)?;
    // reads must not depend on what lies behind the used length
    let mut tmp = sc.w.take().unwrap_or_else(|| w.clone());
    tmp.copy_from(w);
    tmp.poison_tail();
    let r = check_queries(cfg, &tmp, &sc.nq, &sc.odd, s);
    sc.w = Some(tmp);
    r.map_err(|e| format!("with 0xFF behind the used length: {e}"))?;
    s.sweeps += 1;
    let b = bitmap_of(&w.st);
    if b & ((1u128 << 64) - 1) != 0 && b >> 64 != 0 {
        s.both_words += 1;
    }
    if popcount(&w.st) == N {
        s.full_arrays += 1;
    }
    Ok(())
}

/// images + all queries (no invalid updates, no poisoned re-read)
fn mid_check(cfg: &Cfg, w: &World, sc: &mut Scratch, s: &mut Stats) -> Result<(), String> {
    check_images(cfg, w, sc)?;
    check_queries(cfg, w, &sc.nq, &sc.odd, s)
}

#[derive(Clone, Copy, PartialEq, Eq)]
enum Level {
    Light,
    Mid,
    Full,
}
fn check_at(level: Level, cfg: &Cfg, w: &World, k: usize, sc: &mut Scratch, s: &mut Stats) -> Result<(), String> {
    match level {
        Level::Light => light_check(cfg, w, k, sc, s),
        Level::Mid => mid_check(cfg, w, sc, s),
        Level::Full => full_check(cfg, w, sc, s),
    }
}

/// queries that involve the touched slot only
fn light_check(cfg: &Cfg, w: &World, k: usize, sc: &mut Scratch, s: &mut Stats) -> Result<(), String> {
    check_images(cfg, w, sc)?;
    let t = cfg.tick(k);
    check_get(cfg, w, t, cfg.ts, s)?;
    check_next(cfg, w, t, cfg.ts, true, s)?;
    check_next(cfg, w, t, cfg.ts, false, s)?;
    Ok(())
}

/// apply one op and compare the four results with the expectation
fn step(cfg: &Cfg, w: &mut World, k: usize, kind: u8, s: &mut Stats) -> Result<(), String> {
    let was = w.st[k] != 0;
    let (res, exp) = w.apply(cfg, k, kind);
    s.transitions += 1;
    match (exp.is_ok(), was, kind != 0) {
        (false, _, _) => {
            s.err_cmp += 4;
            s.straddle_rejects += 1;
        }
        (true, false, true) => s.inits += 1,
        (true, true, true) => s.modifies += 1,
        (true, true, false) => s.deinits += 1,
        (true, false, false) => s.noop_deinits += 1,
    }
    for i in 0..4 {
        if res[i] != exp {
            return Err(format!("update_tick(slot {k} = tick {}, {}) on {}: {:?}, expected {:?} (results {:?})", cfg.tick(k), ["de-initialize", "content v1", "content v2", "content v3 (all-zero fields)"][kind as usize], IMPL[i], res[i], exp, res));
        }
    }
    Ok(())
}

// ---------------------------------------------------------------------------------------------------------------
// cases / replay
// ---------------------------------------------------------------------------------------------------------------
fn st_string(st: &St) -> String {
    st.iter().map(|v| (b'0' + v) as char).collect()
}
fn bitmap_key(st: &St) -> String {
    if popcount(st) == 0 {
        "empty".into()
    } else {
        st_string(st)
    }
}
fn case_json(cfg: &Cfg, base: &St, tail: Tail, ops: &[(u8, u8)]) -> Value {
    json!({
        "ts": cfg.ts, "start": cfg.start, "base": st_string(base),
        "tail": if tail == Tail::Poison { "poison" } else { "zero" },
        "ops": ops.iter().map(|(k, v)| json!([k, v])).collect::<Vec<_>>(),
    })
}
fn case_key(cfg: &Cfg, base: &St, tail: Tail, ops: &[(u8, u8)]) -> String {
    let o: Vec<String> = ops.iter().map(|(k, v)| format!("{k}:{v}")).collect();
    let o = o.join(",");
    if ops.len() > 8 {
        let mut h: u64 = 0xcbf29ce484222325;
        for b in o.bytes() {
            h = (h ^ b as u64).wrapping_mul(0x100000001b3);
        }
        return format!("{}/walk/{} ops/{:016x}", cfg.name(), ops.len(), h);
    }
    format!("{}/{}/{:?}/{}", cfg.name(), bitmap_key(base), tail, o)
}

pub fn replay(case: &Value) -> Result<(), String> {
    if case["kind"].as_str() == Some("live") {
        return super::c13_live::replay(case);
    }
    let cfg = Cfg { ts: case["ts"].as_u64().ok_or("bad case")? as u16, start: case["start"].as_i64().ok_or("bad case")? as i32 };
    let mut base: St = [0; N];
    let b = case["base"].as_str().ok_or("bad case")?.as_bytes();
    if b.len() != N {
        return Err("bad case".into());
    }
    for k in 0..N {
        base[k] = b[k].wrapping_sub(b'0').min(3);
    }
    let tail = if case["tail"].as_str() == Some("poison") { Tail::Poison } else { Tail::Zero };
    let mut w = World::new(&cfg, &base, tail);
    let mut sc = Scratch::new(&cfg);
    let mut s = Stats::default();
    full_check(&cfg, &w, &mut sc, &mut s).map_err(|e| format!("[{} base state] {e}", cfg.name()))?;
    for (i, op) in case["ops"].as_array().ok_or("bad case")?.iter().enumerate() {
        let (k, kind) = (op[0].as_u64().ok_or("bad case")? as usize, op[1].as_u64().ok_or("bad case")? as u8);
        if k >= N || kind > 3 {
            return Err("bad case".into());
        }
        step(&cfg, &mut w, k, kind, &mut s).map_err(|e| format!("[{} op #{i}] {e}", cfg.name()))?;
        full_check(&cfg, &w, &mut sc, &mut s).map_err(|e| format!("[{} after op #{i} (slot {k}, kind {kind})] {e}", cfg.name()))?;
    }
    Ok(())
}

// ---------------------------------------------------------------------------------------------------------------
// the searches
// ---------------------------------------------------------------------------------------------------------------
struct Found {
    key: String,
    detail: String,
    case: Value,
}
struct Shared {
    stop: AtomicBool,
    found: std::sync::Mutex<Vec<Found>>,
    capped: AtomicU64,
}
impl Shared {
    fn report(&self, cfg: &Cfg, base: &St, tail: Tail, ops: &[(u8, u8)], detail: String) {
        let mut f = self.found.lock().unwrap();
        if f.len() < 6 {
            f.push(Found { key: case_key(cfg, base, tail, ops), detail: format!("[{}] {}", cfg.name(), detail), case: case_json(cfg, base, tail, ops) });
        }
        if f.len() >= 6 {
            self.stop.store(true, Ordering::Relaxed);
        }
    }
    fn stopped(&self) -> bool {
        self.stop.load(Ordering::Relaxed)
    }
}

/// boundary-representative slot set of a configuration: the design's {0,1,62,63,64,65,86,87} where usable, completed
/// with the first/last usable slots and the middle ones when the array straddles a tick bound
fn slot_set(cfg: &Cfg) -> Vec<usize> {
    let usable: Vec<usize> = (0..N).filter(|k| cfg.usable(*k)).collect();
    let (f, l) = (usable[0], *usable.last().unwrap());
    let mid = (f + l) / 2;
    let mut out: Vec<usize> = vec![];
    for c in [0, 1, 62, 63, 64, 65, 86, 87, f, f + 1, l, l.saturating_sub(1), mid, mid + 1, f + 2, l.saturating_sub(2), f + 3, l.saturating_sub(3)] {
        if out.len() < 8 && c < N && cfg.usable(c) && !out.contains(&c) {
            out.push(c);
        }
    }
    out.sort();
    out
}

fn decode_state(idx: usize, slots: &[usize]) -> St {
    let mut st = [0u8; N];
    let mut i = idx;
    for s in slots {
        st[*s] = (i % 3) as u8;
        i /= 3;
    }
    st
}
fn encode_state(st: &St, slots: &[usize]) -> usize {
    let mut idx = 0;
    for s in slots.iter().rev() {
        idx = idx * 3 + st[*s] as usize;
    }
    idx
}

/// (a) the complete transition system over the slot set: BFS from the empty array, every state expanded with every op,
/// twice (zero / 0xFF behind the used length). Returns (states, edges, depth).
fn bfs(cfg: &Cfg, sh: &Shared, per_op: Level) -> (u64, u64, u64, Stats) {
    let slots = slot_set(cfg);
    // ops also include one unusable slot (if any) so that rejected updates appear in the transition system
    let mut op_slots = slots.clone();
    if let Some(u) = (0..N).find(|k| !cfg.usable(*k)) {
        op_slots.push(u);
    }
    let n_states = 3usize.pow(slots.len() as u32);
    let mut seen = vec![false; n_states];
    seen[0] = true;
    let mut frontier = vec![0usize];
    let (mut states, mut edges, mut depth) = (0u64, 0u64, 0u64);
    let mut stats = Stats::default();
    while !frontier.is_empty() && !sh.stopped() {
        let res: Vec<(Vec<usize>, u64, Stats)> = frontier
            .par_iter()
            .map(|idx| {
                let st = decode_state(*idx, &slots);
                let mut s = Stats::default();
                let mut sc = Scratch::new(cfg);
                let mut succ = vec![];
                let mut e = 0u64;
                for tail in [Tail::Zero, Tail::Poison] {
                    let w0 = World::new(cfg, &st, tail);
                    if tail == Tail::Zero {
                        if let Err(d) = full_check(cfg, &w0, &mut sc, &mut s) {
                            sh.report(cfg, &st, tail, &[], d);
                            return (succ, e, s);
                        }
                    }
                    let mut w = w0.clone();
                    for k in &op_slots {
                        for kind in 0..3u8 {
                            if sh.stopped() {
                                return (succ, e, s);
                            }
                            w.copy_from(&w0);
                            let r = step(cfg, &mut w, *k, kind, &mut s).and_then(|_| check_at(if tail == Tail::Zero { per_op } else { Level::Light }, cfg, &w, *k, &mut sc, &mut s));
                            e += 1;
                            if let Err(d) = r {
                                sh.report(cfg, &st, tail, &[(*k as u8, kind)], d);
                                return (succ, e, s);
                            }
                            if tail == Tail::Zero {
                                succ.push(encode_state(&w.st, &slots));
                            }
                        }
                    }
                }
                (succ, e, s)
            })
            .collect();
        states += frontier.len() as u64;
        let mut next = vec![];
        for (succ, e, s) in res {
            edges += e;
            stats = stats.merge(s);
            for i in succ {
                if !seen[i] {
                    seen[i] = true;
                    next.push(i);
                }
            }
        }
        if !next.is_empty() {
            depth += 1;
        }
        frontier = next;
    }
    (states, edges, depth, stats)
}

/// (b) all sequences of length <= depth over all 88 slots x {de-init, v1, v2}, bytes carried from the empty array.
/// Returns (sequences executed, distinct states swept, Stats).
fn sequences(cfg: &Cfg, ctx: &Ctx, sh: &Shared, depth: usize) -> (u64, Stats) {
    let empty: St = [0; N];
    let root = World::new(cfg, &empty, Tail::Zero);
    let bset = slot_set(cfg);
    let ops: Vec<(usize, u8)> = (0..N).flat_map(|k| (0..3u8).map(move |v| (k, v))).collect();
    let res: Vec<(u64, Stats)> = ops
        .par_iter()
        .map(|(k1, v1)| {
            let mut s = Stats::default();
            let mut seqs = 0u64;
            if sh.stopped() {
                return (seqs, s);
            }
            if ctx.left() < 0.0 {
                sh.capped.fetch_add(1, Ordering::Relaxed);
                return (seqs, s);
            }
            let mut sc = Scratch::new(cfg);
            let mut w1 = root.clone();
            seqs += 1;
            let r = step(cfg, &mut w1, *k1, *v1, &mut s).and_then(|_| full_check(cfg, &w1, &mut sc, &mut s));
            if let Err(d) = r {
                sh.report(cfg, &empty, Tail::Zero, &[(*k1 as u8, *v1)], d);
                return (seqs, s);
            }
            if *v1 != 0 && cfg.usable(*k1) && !bset.contains(k1) {
                s.seq_states += 1;
            }
            if depth < 2 || !cfg.usable(*k1) {
                return (seqs, s); // a rejected update leaves the state where it was: its continuations are the shorter sequences
            }
            let mut w2 = w1.clone();
            let mut w3 = w1.clone();
            for (k2, v2) in &ops {
                w2.copy_from(&w1);
                seqs += 1;
                // every distinct abstract state has exactly one canonical path (initialisations of increasing slots):
                // the complete sweep (incl. invalid updates and poisoned re-read) runs there, all queries elsewhere
                let canon2 = *v1 != 0 && *v2 != 0 && k1 < k2 && cfg.usable(*k2);
                let r = step(cfg, &mut w2, *k2, *v2, &mut s).and_then(|_| check_at(if canon2 { Level::Full } else { Level::Mid }, cfg, &w2, *k2, &mut sc, &mut s));
                if let Err(d) = r {
                    sh.report(cfg, &empty, Tail::Zero, &[(*k1 as u8, *v1), (*k2 as u8, *v2)], d);
                    return (seqs, s);
                }
                if canon2 && !(bset.contains(k1) && bset.contains(k2)) {
                    s.seq_states += 1;
                }
                if depth < 3 || !cfg.usable(*k2) {
                    continue;
                }
                if sh.stopped() {
                    return (seqs, s);
                }
                for (k3, v3) in &ops {
                    w3.copy_from(&w2);
                    seqs += 1;
                    // distinct abstract states at depth 3 = three initialisations of increasing slots: swept in full there
                    let canon3 = canon2 && *v3 != 0 && k2 < k3 && cfg.usable(*k3);
                    let r = step(cfg, &mut w3, *k3, *v3, &mut s).and_then(|_| check_at(if canon3 { Level::Full } else { Level::Light }, cfg, &w3, *k3, &mut sc, &mut s));
                    if let Err(d) = r {
                        sh.report(cfg, &empty, Tail::Zero, &[(*k1 as u8, *v1), (*k2 as u8, *v2), (*k3 as u8, *v3)], d);
                        return (seqs, s);
                    }
                    if canon3 && !(bset.contains(k1) && bset.contains(k2) && bset.contains(k3)) {
                        s.seq_states += 1;
                    }
                }
            }
            (seqs, s)
        })
        .collect();
    res.into_iter().fold((0, Stats::default()), |(a, sa), (b, sb)| (a + b, sa.merge(sb)))
}

/// reflected ternary Gray code: digit j of the i-th word
fn gray3(i: usize, n: usize) -> Vec<u8> {
    let mut d = vec![0u8; n];
    let mut x = i;
    for j in 0..n {
        d[j] = (x % 3) as u8;
        x /= 3;
    }
    // digit j is reflected when the sum of the higher (already reflected) digits is odd
    let mut g = vec![0u8; n];
    let mut parity = 0u8;
    for j in (0..n).rev() {
        g[j] = if parity % 2 == 0 { d[j] } else { 2 - d[j] };
        parity = (parity + g[j]) % 2;
    }
    g
}

/// (c) carried walks: every step executed on the bytes the previous step left (including the scratch bytes behind the
/// used length), full checks after every step. Returns (walks, steps, gray_ok).
fn walks(cfg: &Cfg, sh: &Shared) -> (u64, u64, bool, Stats) {
    let empty: St = [0; N];
    let mut plans: Vec<Vec<(u8, u8)>> = vec![];
    // Gray walk through all states of the boundary slot set
    let slots = slot_set(cfg);
    let n = slots.len();
    let total = 3usize.pow(n as u32);
    let mut gray_ok = true;
    let mut plan = vec![];
    let mut prev = gray3(0, n);
    let mut seen = std::collections::HashSet::new();
    seen.insert(prev.clone());
    for i in 1..total {
        let g = gray3(i, n);
        let diff: Vec<usize> = (0..n).filter(|j| g[*j] != prev[*j]).collect();
        if diff.len() != 1 || (g[diff[0]] as i32 - prev[diff[0]] as i32).abs() != 1 || !seen.insert(g.clone()) {
            gray_ok = false;
            break;
        }
        plan.push((slots[diff[0]] as u8, g[diff[0]]));
        prev = g;
    }
    plans.push(plan);
    // fill / modify / drain over all usable slots in four orders
    let usable: Vec<usize> = (0..N).filter(|k| cfg.usable(*k)).collect();
    let m = usable.len();
    let asc: Vec<usize> = usable.clone();
    let desc: Vec<usize> = usable.iter().rev().cloned().collect();
    let ping: Vec<usize> = (0..m).map(|i| if i % 2 == 0 { usable[i / 2] } else { usable[m - 1 - i / 2] }).collect();
    let pong: Vec<usize> = ping.iter().rev().cloned().collect();
    let orders = [asc, desc, ping, pong];
    for i in 0..4 {
        let mut plan = vec![];
        for k in &orders[i] {
            plan.push((*k as u8, 1 + (*k % 2) as u8));
        }
        for k in &orders[(i + 1) % 4] {
            plan.push((*k as u8, 2 - (*k % 2) as u8));
        }
        for k in &orders[(i + 2) % 4] {
            plan.push((*k as u8, 0));
        }
        // a second, partial round on the left-overs of the first
        for k in orders[(i + 3) % 4].iter().step_by(3) {
            plan.push((*k as u8, 3));
        }
        for k in orders[(i + 1) % 4].iter().step_by(2) {
            plan.push((*k as u8, 1));
        }
        for k in orders[i].iter() {
            plan.push((*k as u8, 0));
        }
        plans.push(plan);
    }
    let res: Vec<(u64, Stats)> = plans
        .par_iter()
        .map(|plan| {
            let mut s = Stats::default();
            let mut sc = Scratch::new(cfg);
            let mut w = World::new(cfg, &empty, Tail::Zero);
            let mut steps = 0u64;
            for (i, (k, kind)) in plan.iter().enumerate() {
                if sh.stopped() {
                    break;
                }
                steps += 1;
                let r = step(cfg, &mut w, *k as usize, *kind, &mut s).and_then(|_| full_check(cfg, &w, &mut sc, &mut s));
                if let Err(d) = r {
                    sh.report(cfg, &empty, Tail::Zero, &plan[..=i], d);
                    break;
                }
            }
            (steps, s)
        })
        .collect();
    let (steps, stats) = res.into_iter().fold((0, Stats::default()), |(a, sa), (b, sb)| (a + b, sa.merge(sb)));
    (plans.len() as u64, steps, gray_ok, stats)
}

pub fn run(ctx: &Ctx) -> Report {
    let mut r = Report::new("C13", "model_checking");
    let depth = ctx.pick(2usize, 3usize);
    let sh = Shared { stop: AtomicBool::new(false), found: std::sync::Mutex::new(vec![]), capped: AtomicU64::new(0) };
    let cfgs = configs();
    let mut stats = Stats::default();
    let (mut bfs_states, mut bfs_edges, mut seqs, mut walk_steps, mut n_walks) = (0u64, 0u64, 0u64, 0u64, 0u64);
    let mut bfs_complete = true;
    let mut gray_ok = true;
    let mut per_cfg = vec![];
    for cfg in &cfgs {
        assert!(ATick::check_is_valid_start_tick(cfg.start, cfg.ts), "harness: invalid start index");
        assert!(cfg.start % cfg.ts as i32 == 0);
    }
    // the walks and the transition systems first (cheap, exhaustive), then the sequences; configurations in parallel
    let per_op = ctx.pick(Level::Light, Level::Mid);
    let part1: Vec<_> = cfgs
        .par_iter()
        .map(|cfg| {
            let (ws, steps, g, s1) = walks(cfg, &sh);
            let (st, ed, dp, s2) = bfs(cfg, &sh, per_op);
            (ws, steps, g, st, ed, dp, s1.merge(s2))
        })
        .collect();
    for (cfg, (ws, steps, g, st, ed, dp, s12)) in cfgs.iter().zip(part1) {
        let slots = slot_set(cfg);
        gray_ok &= g;
        n_walks += ws;
        walk_steps += steps;
        bfs_states += st;
        bfs_edges += ed;
        if st != 3u64.pow(slots.len() as u32) {
            bfs_complete = false;
        }
        stats = stats.merge(s12);
        per_cfg.push(json!({"config": cfg.name(), "slot_set": slots, "usable_slots": (0..N).filter(|k| cfg.usable(*k)).count(), "bfs_states": st, "bfs_edges": ed, "bfs_depth": dp}));
    }
    let part2: Vec<(u64, Stats)> = cfgs.par_iter().map(|cfg| if sh.stopped() { (0, Stats::default()) } else { sequences(cfg, ctx, &sh, depth) }).collect();
    for (q, s3) in part2 {
        seqs += q;
        stats = stats.merge(s3);
    }
    let capped = sh.capped.load(Ordering::Relaxed);
    for f in sh.found.lock().unwrap().drain(..) {
        r.violation(f.key, f.detail, f.case);
    }
    let clean = r.violations.is_empty();

    r.set("states", bfs_states + stats.seq_states);
    r.set("states_rule", "distinct (configuration, abstract state) pairs given the complete query sweep: all states of the boundary-set transition systems + the states of the sequence search outside them (counted on their canonical path)");
    r.set("state_sweeps", stats.sweeps);
    r.set("transitions", stats.transitions);
    r.set("traces_validated_against_impl", seqs + n_walks + bfs_edges);
    r.set("configurations", per_cfg.len() as u64);
    r.set("per_configuration", Value::Array(per_cfg));
    r.set("bfs_states", bfs_states);
    r.set("bfs_edges", bfs_edges);
    r.set("sequences", seqs);
    r.set("sequence_ops", 264u64);
    r.set("depth_completed", if capped == 0 && clean { depth as u64 } else { (depth - 1) as u64 });
    r.set("walks", n_walks);
    r.set("walk_steps", walk_steps);
    r.set("get_tick_comparisons", stats.get_cmp);
    r.set("next_init_comparisons", stats.next_cmp);
    r.set("error_answers_compared", stats.err_cmp);
    r.set("budget_capped_subtrees", capped);
    r.set("exhaustive", clean && bfs_complete && capped == 0);
    r.set(
        "exhaustive_scope",
        format!("per configuration: the complete transition system over the boundary slot set (every state x every op, zero and 0xFF scratch bytes) and every op sequence of length <= {depth} over all 88 slots x 3 kinds from the empty array"),
    );
    // samples: a few concrete traces with the resulting image facts
    {
        let cfg = cfgs[1];
        let mut w = World::new(&cfg, &[0; N], Tail::Zero);
        let mut s = Stats::default();
        let mut trace = vec![];
        for (k, kind) in [(63usize, 1u8), (64, 2), (0, 1), (63, 0), (87, 2)] {
            let _ = step(&cfg, &mut w, k, kind, &mut s);
            trace.push(json!({"op": [k, kind], "used_len": w.used_a, "bitmap": format!("{:#x}", bitmap_of(&w.st)),
                "next_init_a_to_b_from_last_tick": format!("{:?}", a_dyn(&w.a).get_next_init_tick_index(cfg.tick(87), cfg.ts, true).map_err(a_code)),
                "next_init_b_to_a_from_before_first": format!("{:?}", a_dyn(&w.a).get_next_init_tick_index(cfg.start - cfg.ts as i32, cfg.ts, false).map_err(a_code))}));
        }
        r.sample(json!({"config": cfg.name(), "trace": trace}));
        let c2 = cfgs.iter().find(|c| c.ts == 1 && c.start < MIN_TICK_INDEX).cloned().unwrap_or(cfg);
        r.sample(json!({"config": c2.name(), "note": "array straddling MIN_TICK_INDEX", "usable_slots": (0..N).filter(|k| c2.usable(*k)).collect::<Vec<_>>(), "slot_set": slot_set(&c2)}));
    }
    let cut_short = !clean;
    for (name, n) in [
        ("initialize_ops", stats.inits),
        ("modify_ops", stats.modifies),
        ("deinitialize_ops", stats.deinits),
        ("states_with_ticks_on_both_sides_of_bit_64", stats.both_words),
        ("full_88_tick_arrays_checked", stats.full_arrays),
        ("error_answers_compared", stats.err_cmp),
        ("rejected_updates_on_invalid_indexes", stats.rejected_updates),
        ("updates_on_slots_beyond_tick_bounds", stats.straddle_rejects),
        ("gray_walk_wellformed", gray_ok as u64),
    ] {
        // a run stopped at the first violations has not reached every branch: its zero counters are not vacuity
        if n > 0 || !cut_short {
            r.guard(name, n);
        }
    }
    r.assume("a de-initialising update is TickUpdate::default() (what next_tick_modify_liquidity_update produces); a non-default update with initialized=false would be stored by the fixed array and dropped by the dynamic one");
    r.assume("account resizing follows the handlers: +112 zeroed bytes before an initialising update, -112 after a de-initialising one (rent/realloc at handler level is C12/C05)");
    r.assume("queries are deterministic functions of the account image; at sequence depth 3 the full query sweep runs once per distinct abstract state, image equality and touched-slot queries after every op");
    // the live part: the same comparison through the instructions that decide the account length (c13_live.rs)
    if clean {
        super::c13_live::run_part(ctx, &mut r, ctx.pick(60.0, 700.0));
    }
    r
}
