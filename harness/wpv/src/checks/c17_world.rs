//! W-3pool (DESIGN §2.6): one config, mints M1 < M2 < M3, pools P12 = (M1,M2), P23 = (M2,M3), P13 = (M1,M3) — every ordered
//! pair of distinct pools shares exactly one mint, which yields all four (a_to_b_one, a_to_b_two) combinations of a two-hop.
//! Each pool is exposed as a single-pool `StdWorld` *view* (same ledger, per-mint trader / LP accounts) so that the shared
//! op alphabet (`ops::Op`, `ops::apply`) can drive it. Builders for the two-hop instructions (v1 / v2) live here too.
#![allow(dead_code, clippy::too_many_arguments)]
use crate::ops::{self, Lim, Op};
use crate::world::{self, Config, PoolRef, StdWorld, T22Ext, Wallet, MEMO, RICH, TOKEN};
use anchor_lang::{InstructionData, ToAccountMetas};
use solana_program::{instruction::AccountMeta, instruction::Instruction, pubkey::Pubkey, system_program, sysvar};
use svm::{keys::key, Ledger};
use whirlpool::accounts as wa;
use whirlpool::instruction as wi;

#[derive(Clone, Copy, Debug, PartialEq, Eq)]
pub enum Kind {
    /// three plain SPL mints: two_hop_swap (v1) and two_hop_swap_v2
    Spl,
    /// M1 SPL Token, M2 / M3 Token-2022 without extensions (mixed token programs; v2 only)
    T22,
    /// like T22 but M2 carries a transfer fee: it is the intermediate mint of two routes and the input / output mint of four
    TFee,
}

pub const FEE_BPS: u16 = 100;
pub const FEE_MAX: u64 = 50_000;

#[derive(Clone)]
pub struct W3 {
    pub name: String,
    pub kind: Kind,
    pub cfg: Config,
    pub funder: Pubkey,
    pub mints: [Pubkey; 3],
    /// transfer fee (bps, max) of each mint
    pub fee: [Option<(u16, u64)>; 3],
    /// P12, P23, P13 as single-pool views
    pub pools: Vec<StdWorld>,
    pub adaptive: [bool; 3],
    pub trader: Pubkey,
    pub trader_accts: [Pubkey; 3],
}

impl W3 {
    pub fn v1_capable(&self) -> bool {
        self.kind == Kind::Spl
    }
    pub fn mint_index(&self, m: &Pubkey) -> usize {
        self.mints.iter().position(|x| x == m).expect("mint of the world")
    }
    pub fn trader_acct(&self, m: &Pubkey) -> Pubkey {
        self.trader_accts[self.mint_index(m)]
    }
    /// Token-2022 transfer fee charged on a transfer of `x` units of mint `m` (0 for fee-less mints).
    pub fn transfer_fee(&self, m: &Pubkey, x: u64) -> u64 {
        match self.fee[self.mint_index(m)] {
            None => 0,
            Some((bps, max)) => {
                if x == 0 || bps == 0 {
                    return 0;
                }
                let raw = (x as u128 * bps as u128).div_ceil(10_000);
                (raw.min(max as u128)) as u64
            }
        }
    }
    pub fn pool(&self, i: usize) -> &PoolRef {
        &self.pools[i].pool
    }
}

pub fn in_mint(p: &PoolRef, a_to_b: bool) -> Pubkey {
    if a_to_b {
        p.mint_a
    } else {
        p.mint_b
    }
}
pub fn out_mint(p: &PoolRef, a_to_b: bool) -> Pubkey {
    if a_to_b {
        p.mint_b
    } else {
        p.mint_a
    }
}
pub fn in_vault(p: &PoolRef, a_to_b: bool) -> Pubkey {
    if a_to_b {
        p.vault_a
    } else {
        p.vault_b
    }
}
pub fn out_vault(p: &PoolRef, a_to_b: bool) -> Pubkey {
    if a_to_b {
        p.vault_b
    } else {
        p.vault_a
    }
}
pub fn prog_of(l: &Ledger, mint: &Pubkey) -> Pubkey {
    l.get(mint).map(|a| a.owner).unwrap_or(TOKEN)
}

pub const ADAPTIVE_TIER_INDEX: u16 = 1024 + 64;

fn ix_init_adaptive_fee_tier(cfg: &Config, funder: Pubkey, fee_tier_index: u16, tick_spacing: u16, base_fee: u16, initialize_pool_authority: Pubkey) -> Instruction {
    world::ix(
        wa::InitializeAdaptiveFeeTier {
            whirlpools_config: cfg.addr,
            adaptive_fee_tier: world::fee_tier_addr(&cfg.addr, fee_tier_index),
            funder,
            fee_authority: cfg.fee_authority,
            system_program: system_program::ID,
        }
        .to_account_metas(None),
        wi::InitializeAdaptiveFeeTier {
            fee_tier_index,
            tick_spacing,
            initialize_pool_authority,
            delegated_fee_authority: Pubkey::default(),
            default_base_fee_rate: base_fee,
            filter_period: 30,
            decay_period: 600,
            reduction_factor: 5_000,
            adaptive_fee_control_factor: 4_000,
            max_volatility_accumulator: 350_000,
            tick_group_size: tick_spacing,
            major_swap_threshold_ticks: tick_spacing,
        }
        .data(),
    )
}

fn ix_init_pool_adaptive(p: &PoolRef, funder: Pubkey, sqrt_price: u128, trade_enable_timestamp: Option<u64>) -> Instruction {
    world::ix(
        wa::InitializePoolWithAdaptiveFee {
            whirlpools_config: p.cfg,
            token_mint_a: p.mint_a,
            token_mint_b: p.mint_b,
            token_badge_a: world::token_badge_addr(&p.cfg, &p.mint_a),
            token_badge_b: world::token_badge_addr(&p.cfg, &p.mint_b),
            funder,
            initialize_pool_authority: funder,
            whirlpool: p.addr,
            oracle: p.oracle,
            token_vault_a: p.vault_a,
            token_vault_b: p.vault_b,
            adaptive_fee_tier: world::fee_tier_addr(&p.cfg, p.fee_tier_index),
            token_program_a: p.prog_a,
            token_program_b: p.prog_b,
            system_program: system_program::ID,
            rent: sysvar::rent::ID,
        }
        .to_account_metas(None),
        wi::InitializePoolWithAdaptiveFee { initial_sqrt_price: sqrt_price, trade_enable_timestamp }.data(),
    )
}

/// (tick spacing, fee rate, tick-array encodings of arrays -1/0/1 (true = dynamic), narrow range, wide range)
struct PoolGeom {
    ts: u16,
    fee: u16,
    dynamic: [bool; 3],
    narrow: (i32, i32),
    wide: (i32, i32),
    protocol_fee_rate: u16,
    reward_emissions: u128,
}

/// `trade_enable_in`: Some(dt) = the adaptive-fee pools come from a permissioned tier (the funder is its initialize-pool
/// authority) and open for trading `dt` seconds after the ledger's start time; None = permission-less tier, tradable at once.
pub fn build(kind: Kind, label: &str, adaptive: [bool; 3], trade_enable_in: Option<i64>) -> (Ledger, W3) {
    let mut l = world::base_ledger();
    let cfg = world::init_config(&mut l, label, 300);
    let funder = key(&format!("{label}/funder"));
    l.put_system(funder, RICH);
    let geoms = [
        PoolGeom { ts: 64, fee: 3000, dynamic: [true, false, true], narrow: (-128, 128), wide: (-1280, 1280), protocol_fee_rate: 300, reward_emissions: 5u128 << 64 },
        PoolGeom { ts: 8, fee: 500, dynamic: [false, true, false], narrow: (-64, 64), wide: (-640, 640), protocol_fee_rate: 2500, reward_emissions: 11u128 << 64 },
        PoolGeom { ts: 128, fee: 10000, dynamic: [true, true, false], narrow: (-256, 256), wide: (-2560, 2560), protocol_fee_rate: 1300, reward_emissions: 0 },
    ];
    // world "...-fro": the third pool is a full-range-only pool (tick spacing 32768): its two arrays span every price, so a swap
    // can run to the protocol price bound inside the supplied arrays (an exact-out request beyond the reserves ends there)
    let fro = label.ends_with("-fro");
    let mut geoms = geoms;
    if fro {
        geoms[0] = PoolGeom { ts: 32768, fee: 3000, dynamic: [false, true, false], narrow: (-425984, 425984), wide: (-425984, 425984), protocol_fee_rate: 300, reward_emissions: 0 };
        geoms[2] = PoolGeom { ts: 32768, fee: 10000, dynamic: [true, true, false], narrow: (-425984, 425984), wide: (-425984, 425984), protocol_fee_rate: 1300, reward_emissions: 0 };
    }
    let mut tiers_done: Vec<u16> = vec![];
    for g in &geoms {
        if tiers_done.contains(&g.ts) {
            continue; // (world "-fro": two pools share the full-range-only tier)
        }
        tiers_done.push(g.ts);
        world::must("init_fee_tier", svm::process(&mut l, &world::ix_init_fee_tier(&cfg, funder, g.ts, g.fee)));
    }
    if adaptive.iter().any(|x| *x) {
        world::must("init_adaptive_fee_tier", svm::process(&mut l, &ix_init_adaptive_fee_tier(&cfg, funder, ADAPTIVE_TIER_INDEX, 64, 2000, if trade_enable_in.is_some() { funder } else { Pubkey::default() })));
    }
    // mints, sorted so that M1 < M2 < M3
    let mut mints = [key(&format!("{label}/mintX")), key(&format!("{label}/mintY")), key(&format!("{label}/mintZ"))];
    mints.sort();
    let mut fee = [None, None, None];
    for (i, m) in mints.iter().enumerate() {
        match (kind, i) {
            (Kind::Spl, _) | (Kind::T22, 0) | (Kind::TFee, 0) => world::create_spl_mint(&mut l, *m, 6, None),
            (Kind::TFee, 1) => {
                world::create_t22_mint(&mut l, *m, 6, None, &[T22Ext::TransferFee { bps: FEE_BPS, max: FEE_MAX }]);
                fee[i] = Some((FEE_BPS, FEE_MAX));
            }
            _ => world::create_t22_mint(&mut l, *m, 6, None, &[]),
        }
    }
    // per-mint accounts of the LP and the trader
    let lp_owner = key(&format!("{label}/lp/owner"));
    let trader = key(&format!("{label}/trader/owner"));
    l.put_system(lp_owner, RICH);
    l.put_system(trader, RICH);
    let mut lp_accts = [Pubkey::default(); 3];
    let mut trader_accts = [Pubkey::default(); 3];
    for i in 0..3 {
        lp_accts[i] = key(&format!("{label}/lp/acct{i}"));
        trader_accts[i] = key(&format!("{label}/trader/acct{i}"));
        world::create_token_account(&mut l, lp_accts[i], mints[i], lp_owner, 1 << 61);
        world::create_token_account(&mut l, trader_accts[i], mints[i], trader, 1 << 61);
    }
    // reward mint (plain SPL)
    let reward_mint = key(&format!("{label}/reward_mint"));
    world::create_spl_mint(&mut l, reward_mint, 6, None);

    let pairs = [(0usize, 1usize), (1, 2), (0, 2)];
    let mut pools = vec![];
    for (pi, (ia, ib)) in pairs.iter().enumerate() {
        let g = &geoms[pi];
        let plabel = format!("{label}/p{pi}");
        let (ts, tier) = if adaptive[pi] { (64u16, ADAPTIVE_TIER_INDEX) } else { (g.ts, g.ts) };
        let pool = world::pool_ref(&l, &cfg.addr, &plabel, mints[*ia], mints[*ib], ts, tier);
        // adaptive pools use the ts-64 adaptive tier whatever the geometry row says
        let (narrow, wide) = if adaptive[pi] { ((-128, 128), (-1280, 1280)) } else { (g.narrow, g.wide) };
        let init = if adaptive[pi] {
            // world "...-te2": two adaptive-fee pools, only the LAST one has a trade-enable time in the future (the other is open)
            let te_here = if label.ends_with("-te2") && pi != 2 { None } else { trade_enable_in };
            ix_init_pool_adaptive(&pool, funder, 1u128 << 64, te_here.map(|dt| (l.unix_ts + dt) as u64))
        } else if pool.is_v1_capable() {
            world::ix_init_pool_v1(&pool, funder, 1u128 << 64)
        } else {
            world::ix_init_pool_v2(&pool, funder, 1u128 << 64)
        };
        world::must("init_pool", svm::process(&mut l, &init));
        world::must("set_protocol_fee_rate", svm::process(&mut l, &world::ix_set_protocol_fee_rate(&pool, cfg.fee_authority, g.protocol_fee_rate)));
        for (k, off) in [-1i32, 0, 1].into_iter().enumerate() {
            if off * pool.ticks_in_array() > crate::refmodel::MAX_TICK {
                continue; // (full-range-only pool: no array above the one starting at 0)
            }
            world::must("init_tick_array", svm::process(&mut l, &world::ix_init_tick_array(&pool, funder, off * pool.ticks_in_array(), g.dynamic[k])));
        }
        if g.reward_emissions > 0 {
            world::must(
                "init_reward",
                svm::process(&mut l, &world::ix_init_reward(&pool, cfg.reward_emissions_super_authority, funder, reward_mint, TOKEN, 0, false)),
            );
            let vault = world::reward_vault_key(&pool, 0);
            let i = spl_token::instruction::mint_to(&TOKEN, &reward_mint, &vault, &world::mint_authority(), &[], 1 << 50).unwrap();
            svm::process_builtin(&mut l, &i).unwrap_or_else(|m| panic!("reward mint_to: {m}"));
            world::must(
                "set_reward_emissions",
                svm::process(&mut l, &world::ix_set_reward_emissions(&pool, cfg.reward_emissions_super_authority, vault, 0, g.reward_emissions, false)),
            );
        }
        let lp = Wallet { owner: lp_owner, acct_a: lp_accts[*ia], acct_b: lp_accts[*ib] };
        let tw = Wallet { owner: trader, acct_a: trader_accts[*ia], acct_b: trader_accts[*ib] };
        let mut positions = vec![];
        for (j, (lo, hi)) in [narrow, wide].into_iter().enumerate() {
            let p = world::pos_ref(&pool, &format!("{plabel}/pos{j}"), lp_owner, lo, hi, (pi + j) % 2 == 1);
            world::must("open_position", svm::process(&mut l, &world::ix_open_position(&p, funder)));
            positions.push(p);
        }
        pools.push(StdWorld { cfg: cfg.clone(), pool, lp, trader: tw.clone(), fee_dest: tw, positions, funder });
    }
    (l, W3 { name: label.to_string(), kind, cfg, funder, mints, fee, pools, adaptive, trader, trader_accts })
}

// ------------------------------------------------------------------------------------------------
// operations on the three pools
// ------------------------------------------------------------------------------------------------
#[derive(Clone, Debug, PartialEq, Eq, Hash, serde::Serialize, serde::Deserialize, PartialOrd, Ord)]
pub struct Op3 {
    pub pool: u8,
    pub op: Op,
}

pub fn apply3(l: &Ledger, w: &W3, o: &Op3) -> ops::Stepped {
    ops::apply(l, &w.pools[o.pool as usize], &o.op)
}

pub fn apply_all3(l: &Ledger, w: &W3, seq: &[Op3]) -> Ledger {
    let mut cur = l.clone();
    for o in seq {
        let s = apply3(&cur, w, o);
        if !s.outcome.ok() {
            panic!("W-3pool root builder: op {o:?} failed: {}", s.outcome.short());
        }
        cur = s.ledger;
    }
    cur
}

/// Liquidity of the (narrow, wide) positions per pool: different depths so that one amount crosses a tick in one leg only.
pub const LIQ: [(u128, u128); 3] = [(1_000_000_000, 300_000_000), (200_000_000, 100_000_000), (5_000_000_000, 700_000_000)];

pub fn roots(w: &W3) -> Vec<(&'static str, Vec<Op3>)> {
    let mut fund = vec![];
    if w.name.ends_with("-fro") {
        // pool 0: deep full-range liquidity (it can deliver whatever draining pool 2 costs); pool 2: next to nothing, so an
        // exact-out request runs it to the price bound for an affordable input
        let liq: [(u128, u128); 3] = [(10_000_000_000_000, 1_000_000_000_000), LIQ[1], (100, 50)];
        for p in 0..3u8 {
            fund.push(Op3 { pool: p, op: Op::Inc { pos: 0, liq: liq[p as usize].0, v2: p == 1 } });
            fund.push(Op3 { pool: p, op: Op::Inc { pos: 1, liq: liq[p as usize].1, v2: true } });
        }
        return vec![("funded", fund)];
    }
    for p in 0..3u8 {
        let v2 = !w.v1_capable() || p == 1;
        fund.push(Op3 { pool: p, op: Op::Inc { pos: 0, liq: LIQ[p as usize].0, v2 } });
        fund.push(Op3 { pool: p, op: Op::Inc { pos: 1, liq: LIQ[p as usize].1, v2: true } });
    }
    let mut aged = fund.clone();
    for p in 0..3u8 {
        aged.push(Op3 { pool: p, op: Op::Swap { a_to_b: p != 1, exact_in: true, amount: 700_000, lim: Lim::None, v2: true } });
    }
    aged.push(Op3 { pool: 0, op: Op::Clock(777) });
    aged.push(Op3 { pool: 1, op: Op::Swap { a_to_b: true, exact_in: true, amount: u64::MAX >> 8, lim: Lim::NextTick, v2: true } });
    if w.name.ends_with("-te") || w.name.ends_with("-te2") {
        // an adaptive-fee pool that is not yet open for trading: no swap can be part of a root
        return vec![("funded", fund)];
    }
    vec![("funded", fund), ("aged", aged)]
}

/// Accounts whose bytes make up the property-relevant state of the three pools.
pub fn core_keys3(l: &Ledger, w: &W3) -> Vec<Pubkey> {
    let mut k = vec![];
    for sw in &w.pools {
        k.extend([sw.pool.addr, sw.pool.vault_a, sw.pool.vault_b, sw.pool.oracle]);
        for p in &sw.positions {
            k.push(p.addr);
        }
    }
    for (key, a) in l.accts.iter() {
        if a.owner == world::WP && a.data.len() >= 8 && (a.data[..8] == crate::decode::FIXED_TA_DISC || a.data[..8] == crate::decode::DYN_TA_DISC) {
            k.push(*key);
        }
    }
    k
}

// ------------------------------------------------------------------------------------------------
// two-hop instruction builders
// ------------------------------------------------------------------------------------------------
#[derive(Clone, Copy, Debug, PartialEq, Eq)]
pub struct HopArgs {
    pub amount: u64,
    pub other_amount_threshold: u64,
    pub exact_in: bool,
    pub a_to_b_one: bool,
    pub a_to_b_two: bool,
    pub limit_one: u128,
    pub limit_two: u128,
}

/// Build a two-hop over pools `one` and `two` (indices; may be equal for the duplicate-pool variant). The accounts are
/// chosen consistently with the direction flags, so that the account constraints pass and the handler's own checks decide.
pub fn ix_two_hop(l: &Ledger, w: &W3, one: usize, two: usize, a: HopArgs, v2: bool) -> Instruction {
    let p1 = w.pool(one);
    let p2 = w.pool(two);
    let tas1 = world::swap_tick_arrays(p1, p1.state(l).tick_current_index, a.a_to_b_one);
    let tas2 = world::swap_tick_arrays(p2, p2.state(l).tick_current_index, a.a_to_b_two);
    ix_two_hop_packaged(l, w, one, two, a, v2, tas1, tas2, &[], &[])
}

/// The same two-hop with an explicit packaging of the tick arrays: the three static slots of each leg as given, plus (v2 only)
/// supplemental tick arrays for leg one / leg two passed as remaining accounts.
#[allow(clippy::too_many_arguments)]
pub fn ix_two_hop_packaged(l: &Ledger, w: &W3, one: usize, two: usize, a: HopArgs, v2: bool, tas1: [Pubkey; 3], tas2: [Pubkey; 3], sup1: &[Pubkey], sup2: &[Pubkey]) -> Instruction {
    let p1 = w.pool(one);
    let p2 = w.pool(two);
    if v2 {
        let m_in = in_mint(p1, a.a_to_b_one);
        let m_mid = out_mint(p1, a.a_to_b_one);
        let m_out = out_mint(p2, a.a_to_b_two);
        let metas = wa::TwoHopSwapV2 {
            whirlpool_one: p1.addr,
            whirlpool_two: p2.addr,
            token_mint_input: m_in,
            token_mint_intermediate: m_mid,
            token_mint_output: m_out,
            token_program_input: prog_of(l, &m_in),
            token_program_intermediate: prog_of(l, &m_mid),
            token_program_output: prog_of(l, &m_out),
            token_owner_account_input: w.trader_acct(&m_in),
            token_vault_one_input: in_vault(p1, a.a_to_b_one),
            token_vault_one_intermediate: out_vault(p1, a.a_to_b_one),
            token_vault_two_intermediate: in_vault(p2, a.a_to_b_two),
            token_vault_two_output: out_vault(p2, a.a_to_b_two),
            token_owner_account_output: w.trader_acct(&m_out),
            token_authority: w.trader,
            tick_array_one_0: tas1[0],
            tick_array_one_1: tas1[1],
            tick_array_one_2: tas1[2],
            tick_array_two_0: tas2[0],
            tick_array_two_1: tas2[1],
            tick_array_two_2: tas2[2],
            oracle_one: p1.oracle,
            oracle_two: p2.oracle,
            memo_program: MEMO,
        }
        .to_account_metas(None);
        let mut metas = metas;
        let mut slices = vec![];
        if !sup1.is_empty() {
            for k in sup1 {
                metas.push(AccountMeta::new(*k, false));
            }
            slices.push(whirlpool::util::RemainingAccountsSlice { accounts_type: whirlpool::util::AccountsType::SupplementalTickArraysOne, length: sup1.len() as u8 });
        }
        if !sup2.is_empty() {
            for k in sup2 {
                metas.push(AccountMeta::new(*k, false));
            }
            slices.push(whirlpool::util::RemainingAccountsSlice { accounts_type: whirlpool::util::AccountsType::SupplementalTickArraysTwo, length: sup2.len() as u8 });
        }
        let rai = if slices.is_empty() { None } else { Some(whirlpool::util::RemainingAccountsInfo { slices }) };
        world::ix(
            metas,
            wi::TwoHopSwapV2 {
                amount: a.amount,
                other_amount_threshold: a.other_amount_threshold,
                amount_specified_is_input: a.exact_in,
                a_to_b_one: a.a_to_b_one,
                a_to_b_two: a.a_to_b_two,
                sqrt_price_limit_one: a.limit_one,
                sqrt_price_limit_two: a.limit_two,
                remaining_accounts_info: rai,
            }
            .data(),
        )
    } else {
        let mut metas = wa::TwoHopSwap {
            token_program: TOKEN,
            token_authority: w.trader,
            whirlpool_one: p1.addr,
            whirlpool_two: p2.addr,
            token_owner_account_one_a: w.trader_acct(&p1.mint_a),
            token_vault_one_a: p1.vault_a,
            token_owner_account_one_b: w.trader_acct(&p1.mint_b),
            token_vault_one_b: p1.vault_b,
            token_owner_account_two_a: w.trader_acct(&p2.mint_a),
            token_vault_two_a: p2.vault_a,
            token_owner_account_two_b: w.trader_acct(&p2.mint_b),
            token_vault_two_b: p2.vault_b,
            tick_array_one_0: tas1[0],
            tick_array_one_1: tas1[1],
            tick_array_one_2: tas1[2],
            tick_array_two_0: tas2[0],
            tick_array_two_1: tas2[1],
            tick_array_two_2: tas2[2],
            oracle_one: p1.oracle,
            oracle_two: p2.oracle,
        }
        .to_account_metas(None);
        // adaptive-fee pools: v1 takes the writable oracles as remaining accounts
        if w.adaptive[one] || w.adaptive[two] {
            metas.push(AccountMeta::new(p1.oracle, false));
            metas.push(AccountMeta::new(p2.oracle, false));
        }
        world::ix(
            metas,
            wi::TwoHopSwap {
                amount: a.amount,
                other_amount_threshold: a.other_amount_threshold,
                amount_specified_is_input: a.exact_in,
                a_to_b_one: a.a_to_b_one,
                a_to_b_two: a.a_to_b_two,
                sqrt_price_limit_one: a.limit_one,
                sqrt_price_limit_two: a.limit_two,
            }
            .data(),
        )
    }
}

/// A single swap by the same trader with the same per-mint accounts (the reference execution of one leg).
pub fn ix_single(l: &Ledger, w: &W3, pool: usize, a_to_b: bool, exact_in: bool, amount: u64, limit: u128, threshold: u64, v2: bool) -> Instruction {
    let sw = &w.pools[pool];
    let st = sw.pool.state(l);
    let tas = world::swap_tick_arrays(&sw.pool, st.tick_current_index, a_to_b);
    let args = world::SwapArgs { amount, other_amount_threshold: threshold, sqrt_price_limit: limit, amount_specified_is_input: exact_in, a_to_b };
    let sup: Vec<Pubkey> = if !v2 && w.adaptive[pool] { vec![sw.pool.oracle] } else { vec![] };
    world::ix_swap(&sw.pool, &sw.trader, args, tas, v2, &sup)
}
