//! C19, token-badge provenance part (Engine A): "... a freeze authority, permanent delegate, transfer hook, close authority,
//! non-default account state or pausability accepted only if THAT CONFIG'S BADGE AUTHORITY ISSUED a token badge for the mint".
//!
//! `c19_fn` decides, for a given badge ACCOUNT, whether a mint is admitted; it cannot tell who made the account. Here the whole
//! administration of badges is part of the alphabet: `initialize_config_extension`, `set_config_extension_authority`,
//! `set_token_badge_authority` (so the two authorities of a config diverge from each other and from the fee authority),
//! `initialize_token_badge` / `delete_token_badge` signed by every candidate (fee authority, rotated extension authority,
//! rotated badge authority, an outsider, the authority of ANOTHER config, the extension of another config), and pool
//! (`initialize_pool_v2`, `initialize_pool_with_adaptive_fee`) / reward (`initialize_reward_v2`) creation over badge-gated
//! Token-2022 mints in two configs.
//!
//! Model state = ledger + ghost: the set of (config, mint) whose standing badge account appeared in an instruction signed by
//! the key that the config's extension account RECORDED as `token_badge_authority` at that moment (decoded by the harness).
//! Oracle (exactly the "only if" of the statement): whenever an instruction makes a pool, or a pool's reward, over a
//! badge-gated mint appear, the ghost must hold (pool's config, mint). Nothing is demanded in the other direction: a refusal
//! of the rightful badge authority is not a violation of C19 (it is counted, and the vacuity guards need it to succeed).
//! A deleted badge no longer counts (the ghost bit is cleared when the account disappears), whoever deleted it.
//!
//! quick: 2 gated mints (freeze authority; permanent delegate), depth 6 from 3 roots (no extension / extensions initialised /
//! the three roles of config 0 held by three different keys); thorough: 3 gated mints, depth 9.
use crate::decode;
use crate::explore::{self, Limits, Model};
use crate::report::{Ctx, Report};
use crate::world::{self, Config, PoolRef, RICH, T22Ext, WP};
use anchor_lang::{InstructionData, ToAccountMetas};
use serde::{Deserialize, Serialize};
use serde_json::{json, Value};
use sha2::{Digest, Sha256};
use solana_program::{instruction::Instruction, pubkey::Pubkey, system_program, sysvar};
use std::collections::{BTreeMap, HashSet};
use std::sync::Mutex;
use svm::{keys::key, Ledger};
use whirlpool::accounts as wa;
use whirlpool::instruction as wi;

use super::c19_fn::{config_extension_addr, ix_set_token_badge_feature};

const TS: u16 = 64;
const ADAPTIVE_INDEX: u16 = 1024;
const D_POOL: [u8; 8] = [63, 149, 209, 12, 225, 128, 99, 9];

fn disc(name: &str) -> [u8; 8] {
    Sha256::digest(format!("account:{name}").as_bytes())[..8].try_into().unwrap()
}

/// The candidates for signing an administrative instruction.
#[derive(Clone, Copy, Debug, PartialEq, Eq, PartialOrd, Ord, Serialize, Deserialize)]
pub enum Who {
    /// fee authority of config 0 (both authorities of its extension right after initialize_config_extension)
    Fee,
    /// the key the extension authority of config 0 can be rotated to
    Ext,
    /// the key the badge authority of config 0 can be rotated to
    Bdg,
    /// never given any role
    Out,
    /// fee authority (= both extension authorities, never rotated) of config 1
    FeeB,
}

#[derive(Clone, Debug, PartialEq, Eq, Serialize, Deserialize)]
pub enum B {
    InitExt { cfg: u8 },
    SetExtAuth { signer: Who, new: Who },
    SetBadgeAuth { signer: Who, new: Who },
    /// `ext`: whose WhirlpoolsConfigExtension account is passed (== cfg in honest use)
    InitBadge { cfg: u8, ext: u8, mint: u8, signer: Who },
    DeleteBadge { cfg: u8, mint: u8, signer: Who },
    /// pool over (gated mint, plain SPL mint); `gated_is_a`: which side the gated mint takes; `badge_cfg`: the config whose
    /// badge PDA is passed for the gated mint (== cfg in honest use)
    InitPool { cfg: u8, mint: u8, gated_is_a: bool, adaptive: bool, badge_cfg: u8 },
    /// pool over the first two gated mints (both need a badge)
    InitPoolTwoGated { cfg: u8 },
    /// next free reward slot of the SPL/SPL pool of config 0
    InitReward { mint: u8 },
}

pub struct Gated {
    pub key: Pubkey,
    pub what: &'static str,
}

pub struct W {
    pub cfgs: [Config; 2],
    pub funder: Pubkey,
    pub gated: Vec<Gated>,
    /// plain SPL mints below / above every gated mint in the canonical order
    pub lo: Pubkey,
    pub hi: Pubkey,
    pub pool0: PoolRef,
    /// (name, ledger): all built with the real instructions
    pub roots: Vec<(&'static str, Ledger)>,
}

fn who_key(cfgs: &[Config; 2], w: Who) -> Pubkey {
    match w {
        Who::Fee => cfgs[0].fee_authority,
        Who::Ext => key("c19b/new_extension_authority"),
        Who::Bdg => key("c19b/new_badge_authority"),
        Who::Out => key("c19b/outsider"),
        Who::FeeB => cfgs[1].fee_authority,
    }
}
impl W {
    fn who(&self, w: Who) -> Pubkey {
        who_key(&self.cfgs, w)
    }
    fn who_name(&self, k: &Pubkey) -> String {
        for w in [Who::Fee, Who::Ext, Who::Bdg, Who::Out, Who::FeeB] {
            if self.who(w) == *k {
                return format!("{w:?}");
            }
        }
        if *k == self.funder {
            return "funder".into();
        }
        k.to_string()
    }
}

fn ix_init_config_extension(cfg: &Config, funder: Pubkey) -> Instruction {
    super::c19_fn::ix_init_config_extension(cfg, funder)
}

fn must(name: &str, l: &mut Ledger, i: &Instruction) -> Result<(), String> {
    let o = svm::process(l, i);
    if o.ok() {
        Ok(())
    } else {
        Err(format!("world builder: {name} failed: {}", o.short()))
    }
}

pub fn build(n_gated: usize) -> Result<W, String> {
    std::panic::catch_unwind(|| build_inner(n_gated)).map_err(|_| "world construction panicked".to_string())?
}

fn build_inner(n_gated: usize) -> Result<W, String> {
    let mut l = world::base_ledger();
    let funder = key("c19b/funder");
    l.put_system(funder, RICH);
    l.put_system(world::mint_authority(), RICH);
    let cfg_a = world::init_config(&mut l, "c19b/A", 300);
    let cfg_b = world::init_config(&mut l, "c19b/B", 300);
    let cfgs = [cfg_a.clone(), cfg_b.clone()];
    for who in [Who::Ext, Who::Bdg, Who::Out] {
        l.put_system(who_key(&cfgs, who), RICH);
    }
    for c in [&cfg_a, &cfg_b] {
        must("set_config_feature_flag", &mut l, &ix_set_token_badge_feature(&c.addr, true))?;
        must("initialize_fee_tier", &mut l, &world::ix_init_fee_tier(c, funder, TS, 3000))?;
        must("initialize_adaptive_fee_tier", &mut l, &ix_init_adaptive_tier(c, funder))?;
    }
    // badge-gated Token-2022 mints, each created by the real Token-2022 processor
    let aux = key("c19b/mint_side_authority");
    let all: Vec<(&'static str, Option<Pubkey>, Vec<T22Ext>)> = vec![
        ("freeze authority", Some(aux), vec![]),
        ("permanent delegate", None, vec![T22Ext::PermanentDelegate(aux)]),
        ("transfer hook + close authority + pausable + default account state Frozen (with freeze authority)", Some(aux), vec![
            T22Ext::TransferHook(Some(key("c19b/hook_program"))),
            T22Ext::MintCloseAuthority(aux),
            T22Ext::Pausable,
            T22Ext::DefaultAccountState(2),
        ]),
    ];
    let mut gated = vec![];
    for (i, (what, freeze, ext)) in all.into_iter().enumerate().take(n_gated.max(2)) {
        let k = key(&format!("c19b/gated{i}"));
        world::create_t22_mint(&mut l, k, 6, freeze, &ext);
        gated.push(Gated { key: k, what });
    }
    let (gmin, gmax) = (gated.iter().map(|g| g.key).min().unwrap(), gated.iter().map(|g| g.key).max().unwrap());
    let find = |pred: &dyn Fn(&Pubkey) -> bool, tag: &str| (0..100_000).map(|i| key(&format!("c19b/{tag}{i}"))).find(|k| pred(k)).ok_or_else(|| format!("no {tag} key found"));
    let lo = find(&|k| *k < gmin, "counter_lo")?;
    let hi = find(&|k| *k > gmax, "counter_hi")?;
    world::create_spl_mint(&mut l, lo, 6, None);
    world::create_spl_mint(&mut l, hi, 6, None);
    let pool0 = world::pool_ref(&l, &cfg_a.addr, "c19b/pool0", lo, hi, TS, TS);
    must("initialize_pool_v2(pool0)", &mut l, &world::ix_init_pool_v2(&pool0, funder, 1u128 << 64))?;

    let mut w = W { cfgs, funder, gated, lo, hi, pool0, roots: vec![] };
    let root0 = l.clone();
    let run = |from: &Ledger, ops: &[B]| -> Result<Ledger, String> {
        let mut cur = from.clone();
        for op in ops {
            let i = build_ix(&w, &cur, op).ok_or_else(|| format!("root op {op:?} not buildable"))?;
            must(&format!("{op:?}"), &mut cur, &i)?;
        }
        Ok(cur)
    };
    // root 1: both extensions exist, every authority of config 0 is still its fee authority
    let root1 = run(&root0, &[B::InitExt { cfg: 0 }, B::InitExt { cfg: 1 }])?;
    // root 2: the three roles of config 0 are held by three different keys
    let root2 = run(&root1, &[B::SetBadgeAuth { signer: Who::Fee, new: Who::Bdg }, B::SetExtAuth { signer: Who::Fee, new: Who::Ext }])?;
    w.roots = vec![("no-extension", root0), ("extensions", root1), ("roles-separated", root2)];
    Ok(w)
}

fn ix_init_adaptive_tier(cfg: &Config, funder: Pubkey) -> Instruction {
    world::ix(
        wa::InitializeAdaptiveFeeTier {
            whirlpools_config: cfg.addr,
            adaptive_fee_tier: world::fee_tier_addr(&cfg.addr, ADAPTIVE_INDEX),
            funder,
            fee_authority: cfg.fee_authority,
            system_program: system_program::ID,
        }
        .to_account_metas(None),
        wi::InitializeAdaptiveFeeTier {
            fee_tier_index: ADAPTIVE_INDEX,
            tick_spacing: TS,
            initialize_pool_authority: Pubkey::default(),
            delegated_fee_authority: cfg.fee_authority,
            default_base_fee_rate: 3000,
            filter_period: 30,
            decay_period: 600,
            reduction_factor: 5000,
            adaptive_fee_control_factor: 1500,
            max_volatility_accumulator: 350_000,
            tick_group_size: 64,
            major_swap_threshold_ticks: 64,
        }
        .data(),
    )
}

fn pool_for(w: &W, l: &Ledger, cfg: u8, ma: Pubkey, mb: Pubkey, adaptive: bool) -> PoolRef {
    let index = if adaptive { ADAPTIVE_INDEX } else { TS };
    world::pool_ref(l, &w.cfgs[cfg as usize].addr, &format!("c19b/pool/{cfg}/{ma}/{mb}/{index}"), ma, mb, TS, index)
}

fn ix_pool(w: &W, p: &PoolRef, adaptive: bool, badge_a: Pubkey, badge_b: Pubkey) -> Instruction {
    if adaptive {
        world::ix(
            wa::InitializePoolWithAdaptiveFee {
                whirlpools_config: p.cfg,
                token_mint_a: p.mint_a,
                token_mint_b: p.mint_b,
                token_badge_a: badge_a,
                token_badge_b: badge_b,
                funder: w.funder,
                initialize_pool_authority: w.funder,
                whirlpool: p.addr,
                oracle: p.oracle,
                token_vault_a: p.vault_a,
                token_vault_b: p.vault_b,
                adaptive_fee_tier: world::fee_tier_addr(&p.cfg, ADAPTIVE_INDEX),
                token_program_a: p.prog_a,
                token_program_b: p.prog_b,
                system_program: system_program::ID,
                rent: sysvar::rent::ID,
            }
            .to_account_metas(None),
            wi::InitializePoolWithAdaptiveFee { initial_sqrt_price: 1u128 << 64, trade_enable_timestamp: None }.data(),
        )
    } else {
        world::ix(
            wa::InitializePoolV2 {
                whirlpools_config: p.cfg,
                token_mint_a: p.mint_a,
                token_mint_b: p.mint_b,
                token_badge_a: badge_a,
                token_badge_b: badge_b,
                funder: w.funder,
                whirlpool: p.addr,
                token_vault_a: p.vault_a,
                token_vault_b: p.vault_b,
                fee_tier: world::fee_tier_addr(&p.cfg, TS),
                token_program_a: p.prog_a,
                token_program_b: p.prog_b,
                system_program: system_program::ID,
                rent: sysvar::rent::ID,
            }
            .to_account_metas(None),
            wi::InitializePoolV2 { tick_spacing: TS, initial_sqrt_price: 1u128 << 64 }.data(),
        )
    }
}

pub fn build_ix(w: &W, l: &Ledger, op: &B) -> Option<Instruction> {
    let cfg_of = |i: u8| w.cfgs.get(i as usize);
    let mint_of = |i: u8| w.gated.get(i as usize).map(|g| g.key);
    Some(match op {
        B::InitExt { cfg } => ix_init_config_extension(cfg_of(*cfg)?, w.funder),
        B::SetExtAuth { signer, new } => {
            let c = &w.cfgs[0];
            world::ix(
                wa::SetConfigExtensionAuthority {
                    whirlpools_config: c.addr,
                    whirlpools_config_extension: config_extension_addr(&c.addr),
                    config_extension_authority: w.who(*signer),
                    new_config_extension_authority: w.who(*new),
                }
                .to_account_metas(None),
                wi::SetConfigExtensionAuthority {}.data(),
            )
        }
        B::SetBadgeAuth { signer, new } => {
            let c = &w.cfgs[0];
            world::ix(
                wa::SetTokenBadgeAuthority {
                    whirlpools_config: c.addr,
                    whirlpools_config_extension: config_extension_addr(&c.addr),
                    config_extension_authority: w.who(*signer),
                    new_token_badge_authority: w.who(*new),
                }
                .to_account_metas(None),
                wi::SetTokenBadgeAuthority {}.data(),
            )
        }
        B::InitBadge { cfg, ext, mint, signer } => {
            let (c, e, m) = (cfg_of(*cfg)?, cfg_of(*ext)?, mint_of(*mint)?);
            world::ix(
                wa::InitializeTokenBadge {
                    whirlpools_config: c.addr,
                    whirlpools_config_extension: config_extension_addr(&e.addr),
                    token_badge_authority: w.who(*signer),
                    token_mint: m,
                    token_badge: world::token_badge_addr(&c.addr, &m),
                    funder: w.funder,
                    system_program: system_program::ID,
                }
                .to_account_metas(None),
                wi::InitializeTokenBadge {}.data(),
            )
        }
        B::DeleteBadge { cfg, mint, signer } => {
            let (c, m) = (cfg_of(*cfg)?, mint_of(*mint)?);
            world::ix(
                wa::DeleteTokenBadge {
                    whirlpools_config: c.addr,
                    whirlpools_config_extension: config_extension_addr(&c.addr),
                    token_badge_authority: w.who(*signer),
                    token_mint: m,
                    token_badge: world::token_badge_addr(&c.addr, &m),
                    receiver: w.funder,
                }
                .to_account_metas(None),
                wi::DeleteTokenBadge {}.data(),
            )
        }
        B::InitPool { cfg, mint, gated_is_a, adaptive, badge_cfg } => {
            let (c, bc, g) = (cfg_of(*cfg)?, cfg_of(*badge_cfg)?, mint_of(*mint)?);
            let (ma, mb) = if *gated_is_a { (g, w.hi) } else { (w.lo, g) };
            let p = pool_for(w, l, *cfg, ma, mb, *adaptive);
            // the plain side always gets its own config's (absent) badge PDA
            let (ba, bb) = if *gated_is_a {
                (world::token_badge_addr(&bc.addr, &ma), world::token_badge_addr(&c.addr, &mb))
            } else {
                (world::token_badge_addr(&c.addr, &ma), world::token_badge_addr(&bc.addr, &mb))
            };
            ix_pool(w, &p, *adaptive, ba, bb)
        }
        B::InitPoolTwoGated { cfg } => {
            let c = cfg_of(*cfg)?;
            let (g0, g1) = (mint_of(0)?, mint_of(1)?);
            let (ma, mb) = if g0 < g1 { (g0, g1) } else { (g1, g0) };
            let p = pool_for(w, l, *cfg, ma, mb, false);
            ix_pool(w, &p, false, world::token_badge_addr(&c.addr, &ma), world::token_badge_addr(&c.addr, &mb))
        }
        B::InitReward { mint } => {
            let m = mint_of(*mint)?;
            let st = decode::pool(l.data(&w.pool0.addr));
            let index = st.reward_infos.iter().position(|r| r.mint == Pubkey::default())? as u8;
            world::ix_init_reward(&w.pool0, w.cfgs[0].reward_emissions_super_authority, w.funder, m, world::T22, index, true)
        }
    })
}

pub fn alphabet(w: &W) -> Vec<B> {
    let mut a = vec![];
    let n = w.gated.len() as u8;
    for cfg in 0..2 {
        a.push(B::InitExt { cfg });
    }
    for signer in [Who::Fee, Who::Ext, Who::Bdg] {
        a.push(B::SetBadgeAuth { signer, new: Who::Bdg });
        a.push(B::SetBadgeAuth { signer, new: Who::Fee });
        a.push(B::SetExtAuth { signer, new: Who::Ext });
    }
    for mint in 0..n {
        for signer in [Who::Fee, Who::Ext, Who::Bdg, Who::Out] {
            a.push(B::InitBadge { cfg: 0, ext: 0, mint, signer });
            a.push(B::DeleteBadge { cfg: 0, mint, signer });
        }
    }
    // the other config: its own badge for mint 0 (a badge "belonging to another config"), and cross-wired extension accounts
    a.push(B::InitBadge { cfg: 1, ext: 1, mint: 0, signer: Who::FeeB });
    a.push(B::InitBadge { cfg: 0, ext: 1, mint: 0, signer: Who::FeeB });
    a.push(B::InitBadge { cfg: 1, ext: 0, mint: 0, signer: Who::Fee });
    for mint in 0..n {
        a.push(B::InitPool { cfg: 0, mint, gated_is_a: true, adaptive: false, badge_cfg: 0 });
        a.push(B::InitReward { mint });
    }
    a.push(B::InitPool { cfg: 0, mint: 0, gated_is_a: false, adaptive: false, badge_cfg: 0 });
    a.push(B::InitPool { cfg: 0, mint: 1, gated_is_a: false, adaptive: true, badge_cfg: 0 });
    a.push(B::InitPool { cfg: 0, mint: 0, gated_is_a: true, adaptive: true, badge_cfg: 0 });
    a.push(B::InitPool { cfg: 0, mint: 0, gated_is_a: true, adaptive: false, badge_cfg: 1 });
    a.push(B::InitPool { cfg: 1, mint: 0, gated_is_a: true, adaptive: false, badge_cfg: 1 });
    a.push(B::InitPool { cfg: 1, mint: 0, gated_is_a: false, adaptive: true, badge_cfg: 0 });
    a.push(B::InitPoolTwoGated { cfg: 0 });
    a
}

// ------------------------------------------------------------------------------------------------
// the harness's own reading of the accounts
// ------------------------------------------------------------------------------------------------
/// (config_extension_authority, token_badge_authority) recorded for `cfg`, if its extension account exists
fn recorded(l: &Ledger, cfg: &Pubkey) -> Option<(Pubkey, Pubkey)> {
    let a = l.get(&config_extension_addr(cfg))?;
    if a.owner != WP || a.data.len() < 104 || a.data[..8] != disc("WhirlpoolsConfigExtension") || a.data[8..40] != cfg.to_bytes() {
        return None;
    }
    Some((Pubkey::new_from_array(a.data[40..72].try_into().unwrap()), Pubkey::new_from_array(a.data[72..104].try_into().unwrap())))
}
/// a TokenBadge account for (cfg, mint) stands at its PDA
fn badge_stands(l: &Ledger, cfg: &Pubkey, mint: &Pubkey) -> bool {
    match l.get(&world::token_badge_addr(cfg, mint)) {
        Some(a) => a.owner == WP && a.data.len() >= 72 && a.data[..8] == disc("TokenBadge") && a.data[8..40] == cfg.to_bytes() && a.data[40..72] == mint.to_bytes(),
        None => false,
    }
}
/// every (pool address, config, mint, role) for which a pool holds `mint` as a pool token or as an initialised reward
fn pool_mint_uses(l: &Ledger) -> Vec<(Pubkey, Pubkey, Pubkey, String)> {
    let mut v = vec![];
    for (k, a) in l.accts.iter() {
        if a.owner == WP && a.data.len() >= decode::POOL_LEN && a.data[..8] == D_POOL {
            let p = decode::pool(&a.data);
            v.push((*k, p.config, p.token_mint_a, "token A".to_string()));
            v.push((*k, p.config, p.token_mint_b, "token B".to_string()));
            for (i, r) in p.reward_infos.iter().enumerate() {
                if r.mint != Pubkey::default() {
                    v.push((*k, p.config, r.mint, format!("reward {i}")));
                }
            }
        }
    }
    v
}

/// Ghost part of the model state. Bit `cfg * 8 + mint`.
#[derive(Clone, Copy, Debug, Default, PartialEq, Eq)]
pub struct Ghost {
    /// the standing badge appeared in an instruction signed by the then-recorded badge authority of its config
    pub by_authority: u32,
    /// the standing badge appeared in an instruction NOT signed by the then-recorded badge authority
    pub by_other: u32,
}
fn bit(cfg: usize, mint: usize) -> u32 {
    1 << (cfg * 8 + mint)
}

#[derive(Clone)]
pub struct St {
    pub l: Ledger,
    pub g: Ghost,
    /// fingerprint of (program-owned accounts, ghost)
    pub fp: u128,
}
impl St {
    pub fn new(l: Ledger, g: Ghost) -> St {
        let keys: Vec<Pubkey> = l.accts.iter().filter(|(_, a)| a.owner == WP).map(|(k, _)| *k).collect();
        let mut h = svm::Fp::new();
        h.u128(l.fingerprint_of(&keys, false));
        h.u64(g.by_authority as u64);
        h.u64(g.by_other as u64);
        let fp = h.finish();
        St { l, g, fp }
    }
}

#[derive(Default, Clone, Debug)]
pub struct Seen {
    // per distinct state
    states_authorities_diverged: u64,
    states_fee_authority_holds_no_role: u64,
    states_with_badge_by_authority: u64,
    states_with_gated_pool_or_reward: u64,
    // per executed transition
    issued_by_rotated_badge_authority: u64,
    issue_refused_extension_authority_not_badge_authority: u64,
    issue_refused_fee_authority_without_role: u64,
    issue_refused_outsider: u64,
    issue_refused_other_configs_authority_or_extension: u64,
    deleted_by_badge_authority: u64,
    delete_refused_non_authority: u64,
    created_pool_v2: u64,
    created_pool_adaptive: u64,
    created_reward: u64,
    created_two_gated: u64,
    created_while_authorities_diverged: u64,
    refused_no_badge: u64,
    refused_only_other_configs_badge: u64,
    refused_only_other_mints_badge: u64,
    refused_other_configs_badge_account_passed: u64,
}

pub struct M<'a> {
    pub w: &'a W,
    pub alphabet: Vec<B>,
    pub seen: &'a Mutex<Seen>,
    pub outcomes: Mutex<BTreeMap<String, u64>>,
    /// (state, op) pairs already counted: the per-transition counters count DISTINCT transitions, so they do not depend on
    /// how often the iterative-deepening / parallel search happens to re-execute one
    pub counted: Mutex<HashSet<u128>>,
}

impl<'a> M<'a> {
    fn gated_index(&self, mint: &Pubkey) -> Option<usize> {
        self.w.gated.iter().position(|g| g.key == *mint)
    }
    fn cfg_index(&self, cfg: &Pubkey) -> Option<usize> {
        self.w.cfgs.iter().position(|c| c.addr == *cfg)
    }
    fn first_time(&self, s: &St, op: &B) -> bool {
        let mut h = svm::Fp::new();
        h.u128(s.fp);
        h.bytes(format!("{op:?}").as_bytes());
        self.counted.lock().unwrap().insert(h.finish())
    }
    /// bookkeeping for refused operations (vacuity guards only; no verdicts)
    fn note_refusal(&self, s: &St, op: &B) {
        let w = self.w;
        let mut g = self.seen.lock().unwrap();
        match op {
            B::InitBadge { cfg, ext, signer, .. } => {
                if cfg != ext || *signer == Who::FeeB && *cfg == 0 {
                    g.issue_refused_other_configs_authority_or_extension += 1;
                } else if *cfg == 0 {
                    if let Some((e, b)) = recorded(&s.l, &w.cfgs[0].addr) {
                        let k = w.who(*signer);
                        if k != b && k == e {
                            g.issue_refused_extension_authority_not_badge_authority += 1;
                        } else if k != b && k != e && *signer == Who::Fee {
                            g.issue_refused_fee_authority_without_role += 1;
                        } else if *signer == Who::Out {
                            g.issue_refused_outsider += 1;
                        }
                    }
                }
            }
            B::DeleteBadge { cfg, mint, signer } => {
                let c = &w.cfgs[*cfg as usize].addr;
                if let (Some((_, b)), Some(m)) = (recorded(&s.l, c), w.gated.get(*mint as usize)) {
                    if badge_stands(&s.l, c, &m.key) && w.who(*signer) != b {
                        g.delete_refused_non_authority += 1;
                    }
                }
            }
            B::InitPool { cfg, mint, badge_cfg, .. } => {
                let (c, m) = (*cfg as usize, *mint as usize);
                if cfg != badge_cfg {
                    g.refused_other_configs_badge_account_passed += 1;
                } else if s.g.by_authority & bit(c, m) == 0 {
                    g.refused_no_badge += 1;
                    if s.g.by_authority & bit(1 - c, m) != 0 {
                        g.refused_only_other_configs_badge += 1;
                    }
                    if (0..w.gated.len()).any(|o| o != m && s.g.by_authority & bit(c, o) != 0) {
                        g.refused_only_other_mints_badge += 1;
                    }
                }
            }
            B::InitReward { mint } => {
                if s.g.by_authority & bit(0, *mint as usize) == 0 {
                    g.refused_no_badge += 1;
                }
            }
            B::InitPoolTwoGated { cfg } => {
                let c = *cfg as usize;
                let have = [s.g.by_authority & bit(c, 0) != 0, s.g.by_authority & bit(c, 1) != 0];
                if have[0] != have[1] {
                    g.refused_only_other_mints_badge += 1;
                }
            }
            _ => {}
        }
    }
}

impl<'a> Model for M<'a> {
    type S = St;
    type O = B;
    fn fp(&self, s: &St) -> u128 {
        s.fp
    }
    fn ops(&self, _s: &St) -> Vec<B> {
        self.alphabet.clone()
    }
    fn step(&self, s: &St, op: &B) -> Result<Option<St>, String> {
        let w = self.w;
        let Some(ixn) = build_ix(w, &s.l, op) else { return Ok(None) };
        let mut l = s.l.clone();
        let o = svm::process(&mut l, &ixn);
        let first = self.first_time(s, op);
        if first {
            let kind = format!("{op:?}");
            let kind = kind.split(|c| c == '(' || c == ' ').next().unwrap_or("").to_string();
            *self.outcomes.lock().unwrap().entry(format!("{kind}:{}", o.short())).or_insert(0) += 1;
        }
        if !o.ok() {
            if first {
                self.note_refusal(s, op);
            }
            return Ok(None);
        }
        let signers: Vec<Pubkey> = ixn.accounts.iter().filter(|m| m.is_signer).map(|m| m.pubkey).collect();
        // ---- ghost: badges that appeared / disappeared in this instruction (whatever the instruction was) ----
        let mut g = s.g;
        for (ci, c) in w.cfgs.iter().enumerate() {
            let rec = recorded(&s.l, &c.addr);
            for (mi, m) in w.gated.iter().enumerate() {
                let (before, after) = (badge_stands(&s.l, &c.addr, &m.key), badge_stands(&l, &c.addr, &m.key));
                if !before && after {
                    let by_authority = matches!(rec, Some((_, b)) if signers.contains(&b));
                    if by_authority {
                        g.by_authority |= bit(ci, mi);
                        if let Some((e, b)) = rec {
                            if e != b && ci == 0 && first {
                                self.seen.lock().unwrap().issued_by_rotated_badge_authority += 1;
                            }
                        }
                    } else {
                        g.by_other |= bit(ci, mi);
                    }
                } else if before && !after {
                    if first && matches!(rec, Some((_, b)) if signers.contains(&b)) {
                        self.seen.lock().unwrap().deleted_by_badge_authority += 1;
                    }
                    g.by_authority &= !bit(ci, mi);
                    g.by_other &= !bit(ci, mi);
                }
            }
        }
        // ---- oracle: pools / rewards over a badge-gated mint that appeared in this instruction ----
        let before = pool_mint_uses(&s.l);
        for (pool, cfg, mint, role) in pool_mint_uses(&l) {
            if before.iter().any(|(p, _, m, r)| *p == pool && *m == mint && *r == role) {
                continue;
            }
            let Some(mi) = self.gated_index(&mint) else { continue };
            let ok = match self.cfg_index(&cfg) {
                Some(ci) => s.g.by_authority & bit(ci, mi) != 0,
                None => false,
            };
            if !ok {
                let ci = self.cfg_index(&cfg);
                let rec = recorded(&s.l, &cfg);
                let how = match ci {
                    Some(ci) if s.g.by_other & bit(ci, mi) != 0 => "the badge account standing at the PDA was created in an instruction that the then-recorded badge authority did not sign",
                    _ if badge_stands(&s.l, &cfg, &mint) => "a badge account stands at the PDA but was never issued by the badge authority",
                    _ => "no badge for (config, mint) exists",
                };
                return Err(format!(
                    "{op:?} created {role} of pool {pool} (config {}) over the badge-gated Token-2022 mint #{mi} ({}) although that config's badge authority never issued a token badge for the mint: {how}; recorded now: extension authority {}, badge authority {}",
                    ci.map(|c| c.to_string()).unwrap_or_else(|| cfg.to_string()),
                    w.gated[mi].what,
                    rec.map(|r| w.who_name(&r.0)).unwrap_or_else(|| "-".into()),
                    rec.map(|r| w.who_name(&r.1)).unwrap_or_else(|| "-".into()),
                ));
            }
            if !first {
                continue;
            }
            let mut sn = self.seen.lock().unwrap();
            match op {
                B::InitReward { .. } => sn.created_reward += 1,
                B::InitPoolTwoGated { .. } => sn.created_two_gated += 1,
                B::InitPool { adaptive: true, .. } => sn.created_pool_adaptive += 1,
                _ => sn.created_pool_v2 += 1,
            }
            if matches!(recorded(&s.l, &cfg), Some((e, b)) if e != b) {
                sn.created_while_authorities_diverged += 1;
            }
        }
        Ok(Some(St::new(l, g)))
    }
    fn check_state(&self, s: &St) -> Result<(), String> {
        let w = self.w;
        // harness self-check: the ghost never claims a badge that does not stand
        for (ci, c) in w.cfgs.iter().enumerate() {
            for (mi, m) in w.gated.iter().enumerate() {
                let claimed = (s.g.by_authority | s.g.by_other) & bit(ci, mi) != 0;
                if claimed != badge_stands(&s.l, &c.addr, &m.key) {
                    return Err(format!("harness: ghost and ledger disagree about the badge of config {ci} / mint #{mi}"));
                }
            }
        }
        // the bounds of every pool / tier of the ledger (same invariant as the c19_seq part)
        let mut local = super::c19_seq::Seen::default();
        super::c19_seq::invariant(&s.l, &mut local)?;
        let mut g = self.seen.lock().unwrap();
        if let Some((e, b)) = recorded(&s.l, &w.cfgs[0].addr) {
            if e != b {
                g.states_authorities_diverged += 1;
            }
            let f = w.who(Who::Fee);
            if e != f && b != f {
                g.states_fee_authority_holds_no_role += 1;
            }
        }
        if s.g.by_authority != 0 {
            g.states_with_badge_by_authority += 1;
        }
        if pool_mint_uses(&s.l).iter().any(|(_, _, m, _)| self.gated_index(m).is_some()) {
            g.states_with_gated_pool_or_reward += 1;
        }
        Ok(())
    }
}

/// Redirects fd 1 to /dev/null while alive (solana-pubkey's off-chain `Pubkey::log`, reached through Anchor's logging of a
/// failed `address` / `has_one` / `seeds` constraint, is a `println!`). Same device as in c04.rs / c15.rs.
struct Quiet {
    saved: i32,
}
extern "C" {
    fn dup(fd: i32) -> i32;
    fn dup2(a: i32, b: i32) -> i32;
    fn close(fd: i32) -> i32;
}
impl Quiet {
    fn new() -> Option<Quiet> {
        use std::io::Write;
        use std::os::unix::io::AsRawFd;
        let _ = std::io::stdout().flush();
        let null = std::fs::OpenOptions::new().write(true).open("/dev/null").ok()?;
        unsafe {
            let saved = dup(1);
            if saved < 0 {
                return None;
            }
            dup2(null.as_raw_fd(), 1);
            Some(Quiet { saved })
        }
    }
}
impl Drop for Quiet {
    fn drop(&mut self) {
        use std::io::Write;
        let _ = std::io::stdout().flush();
        unsafe {
            dup2(self.saved, 1);
            close(self.saved);
        }
    }
}

fn roots_of(w: &W) -> Vec<St> {
    w.roots.iter().map(|(_, l)| St::new(l.clone(), Ghost::default())).collect()
}

pub fn run_badge(ctx: &Ctx, r: &mut Report) {
    let w = match build(ctx.pick(2, 3)) {
        Ok(w) => w,
        Err(m) => {
            r.violation("badge_seq/world".into(), m, json!({"kind":"badge_seq_world"}));
            return;
        }
    };
    let seen = Mutex::new(Seen::default());
    let m = M { w: &w, alphabet: alphabet(&w), seen: &seen, outcomes: Mutex::new(BTreeMap::new()), counted: Mutex::new(HashSet::new()) };
    let lim = Limits { max_depth: ctx.depth(6, 9), budget_s: (ctx.left() * 0.45).max(1.0), max_states: 20_000_000 };
    let quiet = Quiet::new();
    let (stats, found) = explore::explore(&m, &roots_of(&w), &lim);
    drop(quiet);
    if let Some(f) = found {
        r.violation(
            format!("badge_seq/{}/{}", w.roots[f.root].0, serde_json::to_string(&f.path).unwrap()),
            f.detail.clone(),
            json!({"kind":"badge_seq","root": f.root, "gated_mints": w.gated.len(), "ops": serde_json::to_value(&f.path).unwrap()}),
        );
    }
    let out = crate::poolexplore::RunOut { stats, outcomes: m.outcomes.lock().unwrap().clone() };
    crate::poolexplore::fold(r, "c19-badge", &out, &[]);
    r.sample(json!({"world":"c19-badge","op_sequence": serde_json::to_value([
        B::SetBadgeAuth { signer: Who::Fee, new: Who::Bdg },
        B::InitBadge { cfg: 0, ext: 0, mint: 0, signer: Who::Bdg },
        B::InitPool { cfg: 0, mint: 0, gated_is_a: true, adaptive: false, badge_cfg: 0 },
    ]).unwrap()}));
    let s = seen.lock().unwrap().clone();
    r.set("badge_alphabet_size", m.alphabet.len() as u64);
    r.set("badge_gated_mints", w.gated.len() as u64);
    r.set("badge_roots", w.roots.len() as u64);
    if !r.violations.is_empty() {
        return;
    }
    r.guard("badge_states_extension_and_badge_authority_differ", s.states_authorities_diverged);
    r.guard("badge_states_fee_authority_holds_no_role", s.states_fee_authority_holds_no_role);
    r.guard("badge_states_with_badge_issued_by_authority", s.states_with_badge_by_authority);
    r.guard("badge_states_with_gated_pool_or_reward", s.states_with_gated_pool_or_reward);
    r.guard("badge_issued_by_rotated_badge_authority", s.issued_by_rotated_badge_authority);
    r.guard("badge_issue_refused_extension_authority_that_is_not_badge_authority", s.issue_refused_extension_authority_not_badge_authority);
    r.guard("badge_issue_refused_fee_authority_without_role", s.issue_refused_fee_authority_without_role);
    r.guard("badge_issue_refused_outsider", s.issue_refused_outsider);
    r.guard("badge_issue_refused_other_configs_authority_or_extension", s.issue_refused_other_configs_authority_or_extension);
    r.guard("badge_deleted_by_badge_authority", s.deleted_by_badge_authority);
    r.guard("badge_delete_refused_non_authority", s.delete_refused_non_authority);
    r.guard("badge_gated_pool_v2_created_with_badge", s.created_pool_v2);
    r.guard("badge_gated_adaptive_pool_created_with_badge", s.created_pool_adaptive);
    r.guard("badge_gated_reward_created_with_badge", s.created_reward);
    r.guard("badge_two_gated_pool_created_with_both_badges", s.created_two_gated);
    r.guard("badge_gated_created_while_authorities_differ", s.created_while_authorities_diverged);
    r.guard("badge_gated_refused_without_badge", s.refused_no_badge);
    r.guard("badge_gated_refused_with_only_other_configs_badge", s.refused_only_other_configs_badge);
    r.guard("badge_gated_refused_with_only_other_mints_badge", s.refused_only_other_mints_badge);
    r.guard("badge_gated_refused_other_configs_badge_account_passed", s.refused_other_configs_badge_account_passed);
}

pub fn replay_badge(case: &Value) -> Option<Result<(), String>> {
    match case["kind"].as_str() {
        Some("badge_seq_world") => return Some(build(2).map(|_| ())),
        Some("badge_seq") => {}
        _ => return None,
    }
    let w = match build(case["gated_mints"].as_u64().unwrap_or(2) as usize) {
        Ok(w) => w,
        Err(m) => return Some(Err(m)),
    };
    let seen = Mutex::new(Seen::default());
    let m = M { w: &w, alphabet: alphabet(&w), seen: &seen, outcomes: Mutex::new(BTreeMap::new()), counted: Mutex::new(HashSet::new()) };
    let roots = roots_of(&w);
    let Some(mut cur) = roots.get(case["root"].as_u64().unwrap_or(0) as usize).cloned() else { return Some(Err("unknown root".into())) };
    let path: Vec<B> = match serde_json::from_value(case["ops"].clone()) {
        Ok(p) => p,
        Err(e) => return Some(Err(e.to_string())),
    };
    let _quiet = Quiet::new();
    Some((|| {
        m.check_state(&cur)?;
        for op in &path {
            match m.step(&cur, op)? {
                None => return Ok(()),
                Some(n) => {
                    m.check_state(&n)?;
                    cur = n;
                }
            }
        }
        Ok(())
    })())
}
