//! C09 — tick index <-> sqrt-price conversion, decided completely (DESIGN §C09).
//!
//! Forward: all 887 273 ticks enumerated. Inverse: the function depends on the price only through the
//! (tick_low, tick_high) estimate (exposed by hook H3) and one comparison with p(tick_high). The estimate is a
//! monotone step function of the price (msb is monotone; square-and-truncate of the normalised mantissa is
//! monotone, so the emitted fraction bits are lexicographically monotone; the affine maps to tick_low/high are
//! monotone) — monotonicity is asserted on every bisection point. The price domain is therefore partitioned into
//! maximal intervals on which the result is constant (break points: estimate changes, found by bisection on the
//! real code, and tick prices); the real function is evaluated at both ends of every interval and must satisfy
//! p(result) <= price < p(result+1). That decides the property for every one of the ~7.9e28 prices.
use crate::refmodel::{bu, MAX_SQRT_PRICE, MAX_TICK, MIN_SQRT_PRICE, MIN_TICK};
use crate::report::{Ctx, Report};
use rayon::prelude::*;
use serde_json::{json, Value};
use std::sync::atomic::{AtomicU64, Ordering};
use whirlpool::math::{sqrt_price_from_tick_index, tick_index_from_sqrt_price};

const SQRT_10001_X96: u128 = 79232123823359799118286999567;

fn est(price: u128) -> (i32, (i32, i32)) {
    let t = tick_index_from_sqrt_price(&price);
    let e = whirlpool::verif_hooks::take_tick_estimate().expect("hook H3 recorded nothing");
    (t, e)
}

/// The inverse property at one price; `prices` is the forward table indexed by tick - MIN_TICK.
fn inverse_ok(price: u128, prices: &[u128]) -> Result<i32, String> {
    let t = tick_index_from_sqrt_price(&price);
    if t < MIN_TICK || t > MAX_TICK {
        return Err(format!("tick({price}) = {t} out of bounds"));
    }
    let p_t = prices[(t - MIN_TICK) as usize];
    if p_t > price {
        return Err(format!("tick({price}) = {t} but p({t}) = {p_t} > price"));
    }
    if t < MAX_TICK {
        let p_n = prices[(t + 1 - MIN_TICK) as usize];
        if p_n <= price {
            return Err(format!("tick({price}) = {t} but p({}) = {p_n} <= price", t + 1));
        }
    } else if price != MAX_SQRT_PRICE {
        return Err(format!("tick({price}) = MAX_TICK for a price below the maximum"));
    }
    Ok(t)
}

fn forward_ok(t: i32, prices: &[u128]) -> Result<(), String> {
    let p = prices[(t - MIN_TICK) as usize];
    if t == MIN_TICK && p != MIN_SQRT_PRICE {
        return Err(format!("p(MIN_TICK) = {p} != published minimum"));
    }
    if t == MAX_TICK && p != MAX_SQRT_PRICE {
        return Err(format!("p(MAX_TICK) = {p} != published maximum"));
    }
    if t < MAX_TICK {
        let n = prices[(t + 1 - MIN_TICK) as usize];
        if n <= p {
            return Err(format!("p({}) = {n} not above p({t}) = {p}", t + 1));
        }
        let ratio = (bu(n) << 96u32) / bu(p);
        let s = bu(SQRT_10001_X96);
        let err = if ratio > s { ratio - s } else { s - ratio };
        if err.bits() > 64 {
            return Err(format!("p({})/p({t}) deviates from sqrt(1.0001) by 2^{} (x96), more than 2^-32 relative", t + 1, err.bits()));
        }
    }
    Ok(())
}

/// Candidate witnesses when the estimate is not monotone between a < b (est(a) not <= est(b)): both points and the adjacent pair
/// where the estimate drops, found by bisection keeping the invariant "est(l) not <= est(r)".
fn drop_points(a: u128, b: u128, evals: &mut u64) -> Vec<u128> {
    let le = |x: (i32, i32), y: (i32, i32)| x.0 <= y.0 && x.1 <= y.1;
    let (mut l, mut r) = (a, b);
    let mut out = vec![a, b];
    while r - l > 1 {
        let m = l + (r - l) / 2;
        let (el, em, er) = (est(l).1, est(m).1, est(r).1);
        *evals += 3;
        if !le(el, em) {
            r = m;
        } else if !le(em, er) {
            l = m;
        } else {
            break;
        }
    }
    out.push(l);
    out.push(r);
    out
}

/// Find all points x in (a, b] where the estimate at x differs from the estimate at x-1. Requires monotonicity.
fn split(a: u128, ea: (i32, i32), b: u128, eb: (i32, i32), out: &mut Vec<u128>, evals: &mut u64) -> Result<(), (u128, u128, String)> {
    if ea == eb {
        return Ok(());
    }
    if !(ea.0 <= eb.0 && ea.1 <= eb.1) {
        return Err((a, b, format!("estimate not monotone: est({a}) = {ea:?} > est({b}) = {eb:?}")));
    }
    if b == a + 1 {
        out.push(b);
        return Ok(());
    }
    let mid = a + (b - a) / 2;
    let (_, em) = est(mid);
    *evals += 1;
    split(a, ea, mid, em, out, evals)?;
    split(mid, em, b, eb, out, evals)
}

pub fn run(ctx: &Ctx) -> Report {
    let mut r = Report::new("C09", "exploration");
    let n_ticks = (MAX_TICK - MIN_TICK + 1) as usize;
    let prices: Vec<u128> = (MIN_TICK..=MAX_TICK).into_par_iter().map(sqrt_price_from_tick_index).collect();
    let mut evaluations = n_ticks as u64;

    // ---- forward, complete ----
    let fwd: Vec<(i32, String)> = (MIN_TICK..=MAX_TICK).into_par_iter().filter_map(|t| forward_ok(t, &prices).err().map(|e| (t, e))).collect();
    for (t, e) in fwd.iter().take(2) {
        r.violation(format!("forward:{t}"), e.clone(), json!({"kind":"forward","tick":t}));
    }

    // ---- inverse at every tick boundary, one unit either side, and the domain bounds ----
    let inv: Vec<(u128, String)> = (MIN_TICK..=MAX_TICK)
        .into_par_iter()
        .flat_map_iter(|t| {
            let p = prices[(t - MIN_TICK) as usize];
            let mut bad = vec![];
            for q in [p.wrapping_sub(1), p, p + 1] {
                if q < MIN_SQRT_PRICE || q > MAX_SQRT_PRICE {
                    continue;
                }
                match inverse_ok(q, &prices) {
                    Err(e) => bad.push((q, e)),
                    Ok(res) => {
                        if q == p && res != t {
                            bad.push((q, format!("round trip: tick(p({t})) = {res}")));
                        }
                    }
                }
            }
            bad
        })
        .collect();
    evaluations += 3 * n_ticks as u64 - 2;
    for (q, e) in inv.iter().take(2) {
        r.violation(format!("inverse:{q}"), e.clone(), json!({"kind":"inverse","price":q.to_string()}));
    }
    r.sample(json!({"tick": 0, "sqrt_price": prices[(0 - MIN_TICK) as usize].to_string()}));
    r.sample(json!({"price": (prices[(1 - MIN_TICK) as usize] - 1).to_string(), "tick": tick_index_from_sqrt_price(&(prices[(1 - MIN_TICK) as usize] - 1))}));

    let mut intervals = 0u64;
    let mut exhaustive_inverse = false;
    let probes: u128 = ctx.pick(0, 16);
    if r.violations.is_empty() {
        // ---- the full interval partition ----
        let ev = AtomicU64::new(0);
        let iv = AtomicU64::new(0);
        let machinery: std::sync::Mutex<Vec<String>> = std::sync::Mutex::new(vec![]);
        let bad: Vec<(u128, String)> = (MIN_TICK..MAX_TICK)
            .into_par_iter()
            .flat_map_iter(|t| {
                let lo = prices[(t - MIN_TICK) as usize];
                let hi = prices[(t + 1 - MIN_TICK) as usize] - 1;
                let mut bad = vec![];
                let mut evals = 2u64;
                let (_, elo) = est(lo);
                let (_, ehi) = est(hi);
                let mut cuts = vec![];
                let mut partition_ok = true;
                if let Err((na, nb, e)) = split(lo, elo, hi, ehi, &mut cuts, &mut evals) {
                    partition_ok = false;
                    // The equivalence-class argument needs a monotone estimate. Where it is not, look for a concrete price with a
                    // wrong answer (the ends of the offending stretch and the point where the estimate drops) and report that —
                    // a replayable input; only if every one of them converts correctly is the failed argument itself reported.
                    let mut witness = None;
                    for q in drop_points(na, nb, &mut evals).into_iter().chain([lo, hi]) {
                        match inverse_ok(q, &prices) {
                            Err(e2) => {
                                witness = Some((q, format!("{e2} (found where the (tick_low, tick_high) estimate is not monotone: {e})")));
                                break;
                            }
                            Ok(res) if res != t => {
                                witness = Some((q, format!("tick({q}) = {res}, expected {t} (found where the estimate is not monotone: {e})")));
                                break;
                            }
                            _ => {}
                        }
                    }
                    match witness {
                        Some(w) => bad.push(w),
                        None => machinery.lock().unwrap().push(format!("tick {t}: {e}, but no concrete price in the stretch converts wrongly")),
                    }
                    cuts.clear();
                }
                // pieces: [lo, c1-1], [c1, c2-1], ..., [ck, hi]; on each piece the estimate is constant and no tick
                // price lies strictly inside (lo is a tick price, the next one is hi+1), so the result is constant.
                let mut start = lo;
                let mut n_iv = 0u64;
                for end in cuts.iter().map(|c| c - 1).chain(std::iter::once(hi)).filter(|_| partition_ok) {
                    n_iv += 1;
                    let (ea, eb) = (est(start).1, est(end).1);
                    evals += 4;
                    if ea != eb {
                        bad.push((start, format!("piece [{start},{end}] does not have a constant estimate: {ea:?} vs {eb:?}")));
                    }
                    // thorough: systematic interior probes of the constancy argument (evenly spaced, not sampled)
                    let mut pts = vec![start, end];
                    if probes > 0 && end - start > 2 {
                        for k in 1..=probes {
                            pts.push(start + (end - start) / (probes + 1) * k);
                        }
                    }
                    for q in pts {
                        if q != start && q != end {
                            evals += 1;
                            let e = est(q).1;
                            if e != ea {
                                bad.push((q, format!("estimate at interior point {q} of [{start},{end}] is {e:?}, ends have {ea:?}")));
                            }
                        }
                        match inverse_ok(q, &prices) {
                            Err(e) => bad.push((q, e)),
                            Ok(res) => {
                                if res != t {
                                    bad.push((q, format!("tick({q}) = {res}, expected {t}")));
                                }
                            }
                        }
                    }
                    start = end + 1;
                }
                ev.fetch_add(evals, Ordering::Relaxed);
                iv.fetch_add(n_iv, Ordering::Relaxed);
                bad
            })
            .collect();
        evaluations += ev.load(Ordering::Relaxed);
        intervals = iv.load(Ordering::Relaxed);
        let mach = machinery.into_inner().unwrap();
        if bad.is_empty() && !mach.is_empty() {
            // no wrong answer found, but the partition argument does not hold: the check cannot decide (exit 2, never a verdict)
            eprintln!("MACHINERY ERROR: C09 interval partition not applicable: {}", mach[0]);
            std::process::exit(2);
        }
        exhaustive_inverse = bad.is_empty();
        for (q, e) in bad.iter().take(2) {
            r.violation(format!("inverse:{q}"), e.clone(), json!({"kind":"inverse","price":q.to_string()}));
        }
        r.sample(json!({"intervals_in_tick_0": {"from": prices[(0-MIN_TICK) as usize].to_string(), "to": (prices[(1-MIN_TICK) as usize]-1).to_string()}}));
    }

    r.set("evaluations", evaluations);
    r.set("distinct_nontrivial", n_ticks as u64 + if intervals > 0 { intervals } else { 2 * n_ticks as u64 });
    r.set(
        "rule",
        "forward: every tick in [-443636,443636] (distinct = ticks). inverse quick: p(t)-1, p(t), p(t)+1 for every tick (distinct = boundary prices that change the answer); \
         thorough: every maximal interval of constant (tick_low,tick_high) estimate x tick segment, both ends evaluated (distinct = intervals)",
    );
    r.set("ticks_enumerated", n_ticks as u64);
    r.set("constant_result_intervals", intervals);
    r.set("exhaustive", exhaustive_inverse && r.violations.is_empty());
    r.set("exhaustive_scope", "forward direction (all ticks) and every in-bounds sqrt-price via constant-result intervals");
    r.set("interior_probes_per_interval", probes as u64);
    r.guard("ticks", n_ticks as u64);
    r.assume("hook H3 reports the (tick_low, tick_high) pair the function actually used");
    r.assume("the estimate is monotone in the price (argued in the module header, asserted at every bisection point)");
    r
}

pub fn replay(case: &Value) -> Result<(), String> {
    let prices: Vec<u128> = (MIN_TICK..=MAX_TICK).map(sqrt_price_from_tick_index).collect();
    match case["kind"].as_str() {
        Some("forward") => forward_ok(case["tick"].as_i64().unwrap() as i32, &prices),
        Some("inverse") => {
            let q: u128 = case["price"].as_str().unwrap().parse().unwrap();
            inverse_ok(q, &prices).map(|_| ())
        }
        _ => Err("bad case".into()),
    }
}
