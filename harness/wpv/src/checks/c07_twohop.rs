//! C07, two-hop part: a two-hop swap is two swaps; the LP fees of each leg belong to the positions of THAT pool that are in
//! range at each step, pro rata, in the leg's INPUT token. Every two-hop variant (routes x v1/v2 x modes x amounts) is executed
//! in every state of a small exploration of the three-pool world after all positions were brought up to date; afterwards every
//! position of every pool is updated and the newly credited fees are compared, per token, with the exact share computed from
//! the per-step records of the two legs (hook H2): never above it, below it by at most the rounding bound, and exactly nothing
//! in a token no leg of that pool took as input.
use super::c17_world::{self as w3, HopArgs, Kind, Op3, W3};
use crate::decode;
use crate::ops::{Lim, Op};
use crate::refmodel::*;
use crate::report::{Ctx, Report};
use num_traits::Zero;
use serde_json::{json, Value};
use svm::Ledger;
use whirlpool::verif_hooks::SwapTrace;

#[derive(Clone, Debug, serde::Serialize, serde::Deserialize)]
pub struct V {
    pub one: usize,
    pub two: usize,
    pub a1: bool,
    pub a2: bool,
    pub v2: bool,
    pub exact_in: bool,
    pub amount: u64,
}

fn routes(w: &W3) -> Vec<(usize, usize, bool, bool)> {
    let mut v = vec![];
    for one in 0..3 {
        for two in 0..3 {
            if one == two {
                continue;
            }
            for a1 in [true, false] {
                for a2 in [true, false] {
                    if w3::out_mint(w.pool(one), a1) == w3::in_mint(w.pool(two), a2) && w3::in_mint(w.pool(one), a1) != w3::out_mint(w.pool(two), a2) {
                        v.push((one, two, a1, a2));
                    }
                }
            }
        }
    }
    v
}

fn variants(w: &W3, thorough: bool) -> Vec<V> {
    let mut out = vec![];
    let versions: &[bool] = if w.v1_capable() { &[false, true] } else { &[true] };
    let amounts: &[u64] = if thorough { &[1_000, 1_000_000, 4_000_000, 40_000_000] } else { &[1_000_000, 40_000_000] };
    for (one, two, a1, a2) in routes(w) {
        for &v2 in versions {
            for exact_in in [true, false] {
                for &amount in amounts {
                    out.push(V { one, two, a1, a2, v2, exact_in, amount });
                }
            }
        }
    }
    out
}

#[derive(Default)]
struct Counts {
    executed: u64,
    ok: u64,
    ambiguous: u64,
    mixed_direction_ok: u64,
    legs_with_crossing: u64,
    credited_positions: u64,
    zero_side_checks: u64,
    steps_credited: u64,
}

struct Leg<'a> {
    a_to_b: bool,
    sqrt_price: u128,
    liquidity: u128,
    items: Vec<&'a SwapTrace>,
}

/// exact per-position entitlement (token A, token B) and rounding slack of one leg on one pool
fn credit_leg(l: &Ledger, w: &W3, pool: usize, leg: &Leg, ent: &mut [[Q; 2]], slack: &mut [[Q; 2]], c: &mut Counts) -> Result<(), String> {
    let sw = &w.pools[pool];
    let ps0 = sw.pool.state(l);
    let side = if leg.a_to_b { 0 } else { 1 };
    let pos: Vec<decode::Position> = sw.positions.iter().map(|p| p.state(l)).collect();
    let mut active: Vec<bool> = pos.iter().map(|p| p.liquidity > 0 && p.tick_lower_index <= ps0.tick_current_index && ps0.tick_current_index < p.tick_upper_index).collect();
    let mut crossed = false;
    for t in &leg.items {
        match t {
            SwapTrace::Begin { .. } => {}
            SwapTrace::Cross(x) => {
                crossed = true;
                for (i, p) in pos.iter().enumerate() {
                    if p.liquidity == 0 {
                        continue;
                    }
                    if leg.a_to_b {
                        if p.tick_lower_index == x.tick_index {
                            active[i] = false;
                        }
                        if p.tick_upper_index == x.tick_index {
                            active[i] = true;
                        }
                    } else {
                        if p.tick_lower_index == x.tick_index {
                            active[i] = true;
                        }
                        if p.tick_upper_index == x.tick_index {
                            active[i] = false;
                        }
                    }
                }
            }
            SwapTrace::Step(s) => {
                let sum: u128 = pos.iter().zip(active.iter()).filter(|(_, a)| **a).map(|(p, _)| p.liquidity).sum();
                if sum != s.liquidity {
                    return Err(format!("pool {pool}: step traded against liquidity {} but the positions whose range contains the step sum to {sum}", s.liquidity));
                }
                if s.liquidity == 0 {
                    continue;
                }
                let cut = (bu(s.fee_amount as u128) * bu(ps0.protocol_fee_rate as u128)) / bu(10_000);
                let lp = bu(s.fee_amount as u128) - cut;
                if lp.is_zero() {
                    continue;
                }
                for (i, p) in pos.iter().enumerate() {
                    if active[i] {
                        ent[i][side] = ent[i][side].add(&Q::new(&lp * bu(p.liquidity), bu(s.liquidity)));
                        slack[i][side] = slack[i][side].add(&Q::new(bu(p.liquidity), pow2(64)));
                        c.steps_credited += 1;
                    }
                }
            }
        }
    }
    if crossed {
        c.legs_with_crossing += 1;
    }
    Ok(())
}

fn update_all(l: &Ledger, w: &W3) -> Ledger {
    let mut cur = l.clone();
    for p in 0..3u8 {
        for i in 0..w.pools[p as usize].positions.len() as u8 {
            let s = w3::apply3(&cur, w, &Op3 { pool: p, op: Op::Update { pos: i } });
            if s.outcome.ok() {
                cur = s.ledger;
            }
        }
    }
    cur
}

fn owed(l: &Ledger, w: &W3) -> Vec<Vec<[u64; 2]>> {
    w.pools.iter().map(|sw| sw.positions.iter().map(|p| if p.exists(l) { let s = p.state(l); [s.fee_owed_a, s.fee_owed_b] } else { [0, 0] }).collect()).collect()
}

fn check(l_in: &Ledger, w: &W3, v: &V, c: &mut Counts) -> Result<(), String> {
    // bring every position up to date first: what is credited afterwards is this two-hop's alone
    let l = update_all(l_in, w);
    let before = owed(&l, w);
    let args = HopArgs { amount: v.amount, other_amount_threshold: if v.exact_in { 0 } else { u64::MAX }, exact_in: v.exact_in, a_to_b_one: v.a1, a_to_b_two: v.a2, limit_one: 0, limit_two: 0 };
    let mut post = l.clone();
    let _ = whirlpool::verif_hooks::take_swap_trace();
    let o = svm::process(&mut post, &w3::ix_two_hop(&l, w, v.one, v.two, args, v.v2));
    let trace = whirlpool::verif_hooks::take_swap_trace();
    c.executed += 1;
    if !o.ok() {
        return Ok(());
    }
    c.ok += 1;
    // split the per-step records into the two legs and attribute each to its pool by (direction, start price, start liquidity)
    let mut legs: Vec<Leg> = vec![];
    for t in &trace {
        if let SwapTrace::Begin { a_to_b, sqrt_price, liquidity, .. } = t {
            legs.push(Leg { a_to_b: *a_to_b, sqrt_price: *sqrt_price, liquidity: *liquidity, items: vec![] });
        }
        match legs.last_mut() {
            Some(leg) => leg.items.push(t),
            None => return Err("hook H2: a swap record before any Begin".into()),
        }
    }
    if legs.len() != 2 {
        return Err(format!("hook H2 recorded {} swap computations for a successful two-hop", legs.len()));
    }
    let sig = |p: usize, a: bool| {
        let s = w.pool(p).state(&l);
        (a, s.sqrt_price, s.liquidity)
    };
    let (s1, s2) = (sig(v.one, v.a1), sig(v.two, v.a2));
    let key = |g: &Leg| (g.a_to_b, g.sqrt_price, g.liquidity);
    if s1 == s2 {
        c.ambiguous += 1;
        return Ok(()); // the two legs cannot be told apart from their records: not judged (counted)
    }
    let (leg_one, leg_two) = if key(&legs[0]) == s1 && key(&legs[1]) == s2 {
        (&legs[0], &legs[1])
    } else if key(&legs[1]) == s1 && key(&legs[0]) == s2 {
        (&legs[1], &legs[0])
    } else {
        return Err(format!("the two recorded swap computations start at {:?} / {:?}, the pools' pre-states are {s1:?} / {s2:?}", key(&legs[0]), key(&legs[1])));
    };
    if v.a1 != v.a2 {
        c.mixed_direction_ok += 1;
    }
    let npos: Vec<usize> = w.pools.iter().map(|sw| sw.positions.len()).collect();
    let mut ent: Vec<Vec<[Q; 2]>> = npos.iter().map(|n| (0..*n).map(|_| [Q::zero(), Q::zero()]).collect()).collect();
    let mut slack: Vec<Vec<[Q; 2]>> = npos.iter().map(|n| (0..*n).map(|_| [Q::zero(), Q::zero()]).collect()).collect();
    credit_leg(&l, w, v.one, leg_one, &mut ent[v.one], &mut slack[v.one], c)?;
    credit_leg(&l, w, v.two, leg_two, &mut ent[v.two], &mut slack[v.two], c)?;
    // settle and compare
    let after = owed(&update_all(&post, w), w);
    for p in 0..3 {
        for i in 0..npos[p] {
            for side in 0..2 {
                let got = after[p][i][side] as i128 - before[p][i][side] as i128;
                let tok = if side == 0 { "A" } else { "B" };
                let pr = &w.pools[p].positions[i];
                if got < 0 {
                    return Err(format!("pool {p} position {i}: owed fees of token {tok} DEcreased by {} over a two-hop", -got));
                }
                let gq = Q::int(got as u128);
                if ent[p][i][side].le(&Q::zero()) {
                    c.zero_side_checks += 1;
                } else {
                    c.credited_positions += 1;
                }
                if !gq.le(&ent[p][i][side]) {
                    return Err(format!(
                        "pool {p} position {i} [{}..{}) token {tok}: credited {got} by the two-hop, its exact pro-rata share of the LP fees paid in that token on this pool is {:.6}",
                        pr.lower, pr.upper, ent[p][i][side].to_f64()
                    ));
                }
                let bound = slack[p][i][side].add(&Q::int(2));
                if !ent[p][i][side].le(&gq.add(&bound)) {
                    return Err(format!(
                        "pool {p} position {i} [{}..{}) token {tok}: credited {got} by the two-hop, short of its exact share {:.6} by more than the rounding bound {:.6}",
                        pr.lower, pr.upper, ent[p][i][side].to_f64(), bound.to_f64()
                    ));
                }
            }
        }
    }
    Ok(())
}

fn states(w: &W3, base: &Ledger, thorough: bool) -> Vec<(String, Vec<Op3>, Ledger)> {
    let mut out = vec![];
    for (name, seq) in w3::roots(w) {
        let l = w3::apply_all3(base, w, &seq);
        out.push((name.to_string(), vec![], l.clone()));
        let mut extra = vec![];
        for p in 0..3u8 {
            extra.push(Op3 { pool: p, op: Op::Swap { a_to_b: true, exact_in: true, amount: u64::MAX >> 8, lim: Lim::NextTick, v2: true } });
            if thorough {
                extra.push(Op3 { pool: p, op: Op::Swap { a_to_b: false, exact_in: true, amount: 3_000_000, lim: Lim::None, v2: true } });
                extra.push(Op3 { pool: p, op: Op::Dec { pos: 0, part: crate::ops::Part::All, v2: true } });
            }
        }
        for e in extra {
            let s = w3::apply3(&l, w, &e);
            if s.outcome.ok() {
                out.push((name.to_string(), vec![e], s.ledger));
            }
        }
    }
    out
}

pub fn run_part(ctx: &Ctx, r: &mut Report) {
    let thorough = !ctx.tier.is_quick();
    let name = "c07-3pool-spl";
    let (base, w) = w3::build(Kind::Spl, name, [false, false, false], None);
    let vs = variants(&w, thorough);
    let mut c = Counts::default();
    let mut n_states = 0u64;
    'outer: for (root, prefix, l) in states(&w, &base, thorough) {
        n_states += 1;
        for v in &vs {
            if let Err(e) = check(&l, &w, v, &mut c) {
                let case = json!({"kind":"twohop","world":name,"root":root,"prefix":serde_json::to_value(&prefix).unwrap(),"variant":serde_json::to_value(v).unwrap()});
                r.violation(format!("twohop/{name}/{root}/{}/{}", serde_json::to_string(&prefix).unwrap(), serde_json::to_string(v).unwrap()), e, case);
                break 'outer;
            }
        }
    }
    r.add("states", n_states);
    r.add("transitions", c.executed);
    r.add("traces_validated_against_impl", c.ok);
    r.set("twohop_states", n_states);
    r.set("twohop_executions", c.executed);
    r.set("twohop_legs_not_distinguishable_(not_judged)", c.ambiguous);
    r.guard("twohop_successes_checked", c.ok - c.ambiguous);
    r.guard("twohop_mixed_direction_successes", c.mixed_direction_ok);
    r.guard("twohop_legs_crossing_a_tick", c.legs_with_crossing);
    r.guard("twohop_position_token_pairs_credited", c.credited_positions);
    r.guard("twohop_position_token_pairs_that_must_get_nothing", c.zero_side_checks);
    r.guard("twohop_steps_credited", c.steps_credited);
}

pub fn replay_part(case: &Value) -> Option<Result<(), String>> {
    if case["kind"].as_str() != Some("twohop") {
        return None;
    }
    let name = case["world"].as_str()?;
    let (base, w) = w3::build(Kind::Spl, name, [false, false, false], None);
    let root = case["root"].as_str()?;
    let seq = w3::roots(&w).into_iter().find(|r| r.0 == root)?.1;
    let mut l = w3::apply_all3(&base, &w, &seq);
    let prefix: Vec<Op3> = serde_json::from_value(case["prefix"].clone()).ok()?;
    for e in &prefix {
        l = w3::apply3(&l, &w, e).ledger;
    }
    let v: V = serde_json::from_value(case["variant"].clone()).ok()?;
    let mut c = Counts::default();
    Some(check(&l, &w, &v, &mut c))
}
