//! C14 — adaptive fees follow the volatility schedule and stay within the hard limit (DESIGN §3 C14).
//!
//! Part A (Engine A, this file): explicit-state search over adaptive-fee pools built with the real
//! `initialize_adaptive_fee_tier` + `initialize_pool_with_adaptive_fee`; every transition is a real `swap` / `swap_v2`
//! (or a clock step). Per swap, from the H2 step trace and the harness's own decoding of the oracle account before/after:
//!   * every step that traded is charged the NO-SKIP reference rate of EVERY tick group its price interval touches,
//!     static <= rate <= 100000, accumulator <= max;
//!   * stored reference = documented filter / decay / reset / one-hour rules applied to the pre-swap variables;
//!     stored accumulator = that of the group the end price lies in (a price exactly on a group boundary belongs to both
//!     neighbours: last traversed group, or the next one in the trade direction); last_major_swap_timestamp := now iff the documented threshold test holds;
//!   * control factor 0: a static-fee twin pool (same ledger, same layout, same swaps) ends with the same amounts, price,
//!     liquidity, fee growth, protocol fees and tick data;
//!   * separate finite scenario: swaps before `trade_enable_timestamp` fail with TradeIsNotEnabled, at/after it succeed.
//! The alphabet also contains the REAL `set_adaptive_fee_constants` (fee authority re-tunes the pool between swaps: lower /
//! higher maximum, other periods, reduction factor, control factor, tick group size, threshold, back to the original set), so
//! the histories include "constants changed while the stored variables are non-zero". In EVERY reached state the stored
//! accumulator and reference are <= the CURRENTLY configured maximum; a successful change stores exactly the requested
//! constants (the handler also resets the variables; that is observed and counted, not demanded), so that the swaps after it are charged from the new
//! constants and a fresh reference (the per-swap oracle above runs on whatever constants / group size are stored).
//! Part B (Engine B): `c14_fn` (function level), reference model: `c14_ref`.
use super::c14_fn;
use super::c14_ref::{self as rf, RefClass, RC, RV};
use super::c14_world::{self as aw, AOp, AStepped, AfConsts, AfSpec, AfWorld, CSet, Tgt};
use crate::decode;
use crate::explore::{self, Limits, Model};
use crate::ops;
use crate::report::{Ctx, Report};
use crate::world::balance;
use serde_json::{json, Value};
use std::collections::BTreeMap;
use std::sync::Mutex;
use svm::Ledger;
use whirlpool::verif_hooks::{SwapStepRecord, SwapTrace};

const HUGE: u64 = u64::MAX >> 8;
const L: u128 = 1_000_000_000;
const TRADE_IS_NOT_ENABLED: u32 = 6064; // ErrorCode::TradeIsNotEnabled (0x17b0)

fn spec(label: &str, consts: AfConsts, twin: bool) -> AfSpec {
    AfSpec {
        label: label.into(),
        tick_spacing: 64,
        fee_tier_index: 1024,
        base_fee_rate: 3000,
        protocol_fee_rate: 300,
        consts,
        sqrt_price: 1u128 << 64,
        // adjacent ranges sharing the bounds -256 / 128-gap-256: zero liquidity on [128, 256) and beyond +-640
        positions: vec![(-256, 128, L), (256, 640, L), (-640, -256, L / 2)],
        arrays: vec![-2, -1, 0, 1, 2],
        twin,
        permissioned: false,
        trade_enable_timestamp: None,
        tfee: None,
    }
}

/// Tick spacing 4 with tick groups of 4 ticks: the lowest tick (-443636) is a usable tick and a group boundary, so a pool that
/// was driven onto the minimum price (tick -443637) sits in a tick group BELOW the lowest real one.
fn min_edge_spec() -> AfSpec {
    use crate::refmodel::MIN_TICK;
    let mut s = spec("c14-min-edge-ts4", AfConsts { filter: 30, decay: 600, reduction: 5000, control: 99_999, max_acc: 350_000, group: 4, threshold: 4 }, false);
    let n = 88 * 4;
    let a0 = MIN_TICK.div_euclid(n);
    s.tick_spacing = 4;
    s.fee_tier_index = 1024 + 4;
    s.sqrt_price = aw::price_of_tick((MIN_TICK + 40) as i64);
    s.positions = vec![(MIN_TICK, MIN_TICK + 80, L), (MIN_TICK + 80, MIN_TICK + 400, L)];
    s.arrays = vec![a0, a0 + 1, a0 + 2];
    s
}

/// A fixed history on that pool, every step under the oracles of the exploration: down onto the minimum price, a pause longer
/// than the filter period, back up (the reference is re-based on the group the pool sat in), and further swaps inside the
/// filter period (which must be charged relative to exactly that stored reference).
fn min_edge_case() -> Result<u64, (String, Vec<AOp>, String)> {
    let s = min_edge_spec();
    let (l0, w) = aw::build(&s);
    let m = C14Model::with(&w, false);
    let t = |d: i32| Tgt::Tick(crate::refmodel::MIN_TICK + d);
    let seq = vec![
        sw(true, true, HUGE, Tgt::None, true),
        AOp::Clock(31),
        sw(false, true, HUGE, t(12), true),
        AOp::Clock(1),
        sw(false, true, HUGE, t(26), false),
        AOp::Clock(1),
        sw(true, true, HUGE, t(9), true),
        AOp::Clock(40),
        sw(true, true, HUGE, Tgt::None, false),
        sw(false, true, HUGE, t(41), true),
    ];
    let n = seq.len() as u64;
    match run_prefix(&m, &l0, &seq) {
        Ok(_) => Ok(n),
        Err((ops, d)) => Err((s.label.clone(), ops, d)),
    }
}

fn specs(thorough: bool) -> Vec<AfSpec> {
    let mut v = vec![
        // tiny maximum: saturates after 2.5 groups of 16 ticks; a spacing holds 4 groups
        spec("c14-gs16-max25000", AfConsts { filter: 30, decay: 600, reduction: 5000, control: 99_999, max_acc: 25_000, group: 16, threshold: 64 }, false),
        // group = spacing, wide core range, reaches the 10% hard limit at 5 groups; decay period above the one-hour reference age
        spec("c14-gs64-max60000", AfConsts { filter: 1000, decay: 4000, reduction: 9999, control: 99_999, max_acc: 60_000, group: 64, threshold: 128 }, false),
        // both mints carry a 1 % Token-2022 transfer fee: the v2 handler converts amounts around the swap and rebuilds its result
        {
            let mut s = spec("c14-gs16-tfee", AfConsts { filter: 30, decay: 600, reduction: 5000, control: 99_999, max_acc: 25_000, group: 16, threshold: 64 }, false);
            s.tfee = Some((100, 5_000));
            s
        },
        // sparse arrays: only the two arrays holding the bounds of one WIDE position exist; the price and every swap of the alphabet
        // run through arrays that were never initialised (the swap sees them as empty stand-ins) while liquidity is in range
        {
            let mut s = spec("c14-gs64-sparse", AfConsts { filter: 30, decay: 600, reduction: 5000, control: 99_999, max_acc: 350_000, group: 64, threshold: 64 }, false);
            s.positions = vec![(-11200, 11328, L)];
            s.arrays = vec![-2, 2];
            s
        },
        // control factor 0 with a static-fee twin
        spec("c14-cf0-twin", AfConsts { filter: 30, decay: 600, reduction: 5000, control: 0, max_acc: 80_000, group: 16, threshold: 64 }, true),
    ];
    if thorough {
        v.push(spec("c14-gs1-max350000", AfConsts { filter: 1, decay: 2, reduction: 0, control: 99_999, max_acc: 350_000, group: 1, threshold: 1 }, false));
    }
    v
}

fn sw(a_to_b: bool, exact_in: bool, amount: u64, tgt: Tgt, v2: bool) -> AOp {
    AOp::Swap { a_to_b, exact_in, amount, tgt, v2 }
}

/// `set_adaptive_fee_constants` calls of the alphabet, as a function of the constants the pool was created with.
/// Every one yields valid constants for tick spacing 64 in every combination the search reaches (the only refusals on the
/// unchanged tree are AdaptiveFeeConstantsUnchanged; per-world outcome counts are in the coverage).
/// `twin`: the control-factor-0 world keeps its control factor (its oracle is the static-fee twin).
fn retunes(c: &AfConsts, twin: bool) -> Vec<(&'static str, CSet)> {
    let other_group = match c.group {
        16 => 64,
        64 => 16,
        _ => 4,
    };
    let (f2, d2) = if c.filter >= 4 { (c.filter / 2, c.decay / 2) } else { (c.filter * 2, c.decay * 2) };
    let mut v = vec![
        // one group's worth: below every accumulator / reference the swaps of the alphabet build up
        ("lower-max", CSet { max_acc: Some(10_000), ..CSet::default() }),
        ("raise-max", CSet { max_acc: Some(c.max_acc + 30_000), ..CSet::default() }),
        ("periods", CSet { filter: Some(f2), decay: Some(d2), ..CSet::default() }),
        ("reduction", CSet { reduction: Some(if c.reduction == 0 { 5000 } else { 0 }), ..CSet::default() }),
        ("group-size", CSet { group: Some(other_group), ..CSet::default() }),
        ("threshold", CSet { threshold: Some(if c.threshold > 4 { c.threshold / 4 } else { c.threshold * 4 }), ..CSet::default() }),
        // everything at once, back to the constants of the tier (fails with AdaptiveFeeConstantsUnchanged while nothing was changed)
        ("original", CSet::all(c)),
    ];
    if !twin {
        v.push(("control", CSet { control: Some(if c.control == 0 { 1500 } else { 0 }), ..CSet::default() }));
    }
    v
}

fn alphabet(c: &AfConsts, twin: bool) -> Vec<AOp> {
    let mut a = vec![];
    for a_to_b in [true, false] {
        a.push(sw(a_to_b, true, 1_000, Tgt::None, false)); // inside one tick group
        a.push(sw(a_to_b, true, HUGE, Tgt::Edge(1), true)); // exactly to the group edge
        a.push(sw(a_to_b, true, HUGE, Tgt::Mid(2), false)); // across groups, ends inside a group
        a.push(sw(a_to_b, true, 3_000_000, Tgt::None, true)); // about one spacing, amount-limited
        a.push(sw(a_to_b, false, 700_000, Tgt::None, false)); // exact out
        a.push(sw(a_to_b, false, 700_000, Tgt::None, true)); // exact out through the v2 handler (its own post-processing of the swap result)
        a.push(sw(a_to_b, false, 4_000_000, Tgt::None, true)); // exact out across tick groups, v2
        a.push(sw(a_to_b, true, HUGE, Tgt::Tick(if a_to_b { -400 } else { 400 }), true)); // beyond saturation; b->a crosses the zero-liquidity gap
        a.push(sw(a_to_b, true, 1, Tgt::None, true)); // dust: everything is fee, the price does not move
        a.push(sw(a_to_b, true, HUGE, Tgt::EdgeOff(3, if a_to_b { -1 } else { 1 }), false)); // one price unit past the third boundary
    }
    let mut clocks = vec![c.filter as i64 - 1, c.filter as i64, c.decay as i64, 3600, 3601];
    clocks.retain(|x| *x > 0);
    clocks.sort();
    clocks.dedup();
    for c in clocks {
        a.push(AOp::Clock(c));
    }
    for (_, cs) in retunes(c, twin) {
        a.push(AOp::SetConsts(cs));
    }
    a
}

fn roots(c: &AfConsts, twin: bool) -> Vec<(&'static str, Vec<AOp>)> {
    let f = c.filter as i64;
    let group_size = retunes(c, twin).into_iter().find(|x| x.0 == "group-size").unwrap().1;
    let mut v = vec![
        ("fresh", vec![]),
        ("mid-group", vec![sw(false, true, HUGE, Tgt::Mid(2), true), AOp::Clock(f)]),
        // price exactly on the initialized tick -256 after a downward crossing: tick_current = -257
        ("shifted", vec![sw(true, true, HUGE, Tgt::Tick(-256), false)]),
        ("saturated-decayed", vec![sw(false, true, HUGE, Tgt::Tick(400), true), AOp::Clock(f), sw(true, true, 1_000, Tgt::None, false)]),
        // the fee authority changed the tick group size after some volatility was recorded; new history in the new group size
        ("regrouped", vec![sw(false, true, HUGE, Tgt::Mid(2), true), AOp::SetConsts(group_size), sw(true, true, HUGE, Tgt::Mid(3), false), AOp::Clock(f)]),
    ];
    if (c.filter as i64) * 140 > 3600 && c.filter > 1 && c.filter <= 60 {
        // "keep the fee high" scenario the one-hour rule exists for: major swaps less than a filter period apart
        let mut seq = vec![sw(false, true, HUGE, Tgt::Tick(100), true)];
        let n = 3600 / (f - 1);
        for i in 0..n {
            seq.push(AOp::Clock(f - 1));
            seq.push(sw(i % 2 == 0, true, HUGE, Tgt::Tick(if i % 2 == 0 { -100 } else { 100 }), i % 3 == 0));
        }
        v.push(("major-swap-chain", seq));
    }
    v
}

/// Apply a root prefix WITH the oracles (a root reached through a violating transition is a finding, not a root).
/// Err((ops executed so far incl. the failing one, detail)).
fn run_prefix(m: &C14Model, l: &Ledger, seq: &[AOp]) -> Result<Ledger, (Vec<AOp>, String)> {
    let mut cur = l.clone();
    m.check_state(&cur).map_err(|e| (vec![], e))?;
    for (i, op) in seq.iter().enumerate() {
        match m.step(&cur, op) {
            Err(e) => return Err((seq[..=i].to_vec(), e)),
            Ok(None) => return Err((seq[..=i].to_vec(), format!("machinery: root prefix op {op:?} failed or was pruned"))),
            Ok(Some(n)) => {
                m.check_state(&n).map_err(|e| (seq[..=i].to_vec(), e))?;
                cur = n;
            }
        }
    }
    Ok(cur)
}

fn build_roots(m: &C14Model, l: &Ledger, only: Option<&str>) -> Result<Vec<(String, Ledger)>, (Vec<AOp>, String)> {
    let mut rs = vec![];
    for (name, seq) in roots(&m.w.consts, m.w.twin.is_some()) {
        if only.map(|o| o != name).unwrap_or(false) {
            continue;
        }
        rs.push((name.to_string(), run_prefix(m, l, &seq)?));
    }
    Ok(rs)
}

// ------------------------------------------------------------------------------------------------
// oracles
// ------------------------------------------------------------------------------------------------
#[derive(Default, Clone, Debug)]
pub struct AStats {
    pub swaps: u64,
    pub steps: u64,
    pub traded_steps: u64,
    pub adaptive_steps: u64,
    pub saturated_steps: u64,
    pub hard_limit_steps: u64,
    pub skipped_traded_steps: u64,
    pub skipped_multi_group_steps: u64,
    pub non_skipped_steps: u64,
    pub zero_liquidity_steps: u64,
    pub null_steps: u64,
    pub zero_move_fee_steps: u64,
    pub boundary_endings: u64,
    pub stored_lower_neighbour: u64,
    pub stored_upper_neighbour: u64,
    pub class_unchanged: u64,
    pub class_decayed: u64,
    pub class_reset: u64,
    pub class_forced: u64,
    pub class_forced_overriding: u64,
    pub major_set: u64,
    pub major_not_set: u64,
    pub twin_compared: u64,
    pub twin_both_failed: u64,
    pub shifted_starts: u64,
    pub v1_swaps: u64,
    pub v2_swaps: u64,
    pub retunes: u64,
    pub retunes_refused: u64,
    pub retune_with_accumulator: u64,
    pub retune_with_reference: u64,
    pub retune_max_below_accumulator: u64,
    pub retune_max_below_reference: u64,
    pub retune_group_kept_with_history: u64,
    pub retune_group_changed_with_history: u64,
    pub swaps_after_retune: u64,
    pub swaps_after_group_change: u64,
    pub retune_left_history: u64,
}
impl AStats {
    fn merge(&mut self, o: &AStats) {
        macro_rules! m { ($($f:ident),*) => { $( self.$f += o.$f; )* } }
        m!(
            swaps, steps, traded_steps, adaptive_steps, saturated_steps, hard_limit_steps, skipped_traded_steps, skipped_multi_group_steps, non_skipped_steps,
            zero_liquidity_steps, null_steps, zero_move_fee_steps, boundary_endings, stored_lower_neighbour, stored_upper_neighbour, class_unchanged, class_decayed, class_reset, class_forced,
            class_forced_overriding, major_set, major_not_set, twin_compared, twin_both_failed, shifted_starts, v1_swaps, v2_swaps, retunes, retunes_refused,
            retune_with_accumulator, retune_with_reference, retune_max_below_accumulator, retune_max_below_reference, retune_group_kept_with_history,
            retune_group_changed_with_history, swaps_after_retune, swaps_after_group_change, retune_left_history
        );
    }
}

fn rc_of(o: &decode::Oracle) -> RC {
    RC {
        filter: o.filter_period as u64,
        decay: o.decay_period as u64,
        reduction: o.reduction_factor as u64,
        control: o.adaptive_fee_control_factor as u64,
        max_acc: o.max_volatility_accumulator as u64,
        group: o.tick_group_size as i64,
        threshold: o.major_swap_threshold_ticks,
    }
}
fn rc_of_consts(c: &AfConsts) -> RC {
    RC { filter: c.filter as u64, decay: c.decay as u64, reduction: c.reduction as u64, control: c.control as u64, max_acc: c.max_acc as u64, group: c.group as i64, threshold: c.threshold }
}
fn rv_of(o: &decode::Oracle) -> RV {
    RV { lru: o.last_reference_update_timestamp, lms: o.last_major_swap_timestamp, vref: o.volatility_reference as u64, gref: o.tick_group_index_reference as i64, acc: o.volatility_accumulator as u64 }
}

/// The per-swap oracle (successful swaps on the adaptive-fee pool).
pub fn swap_oracle(pre: &Ledger, st: &AStepped, w: &AfWorld, a_to_b: bool, s: &mut AStats) -> Result<(), String> {
    let post = &st.ledger;
    let (p0, p1) = (w.pool.state(pre), w.pool.state(post));
    let (o0, o1) = (decode::oracle(pre.data(&w.pool.oracle)), decode::oracle(post.data(&w.pool.oracle)));
    let c = rc_of(&o0);
    if rc_of(&o1) != c || o1.trade_enable_timestamp != o0.trade_enable_timestamp || o1.whirlpool != o0.whirlpool {
        return Err("a swap changed the oracle's constants / trade-enable timestamp / pool link".into());
    }
    let gs = c.group;
    let now = pre.unix_ts as u64;
    let static_rate = p0.fee_rate as u64;
    let g0 = aw::floor_div(p0.tick_current_index as i64, gs);
    let (rv, class) = rf::update_reference(&c, &rv_of(&o0), g0, now).ok_or_else(|| format!("swap succeeded at {now}, before the stored timestamps {:?}", rv_of(&o0)))?;
    let steps: Vec<&SwapStepRecord> = st.trace.iter().filter_map(|t| if let SwapTrace::Step(x) = t { Some(x) } else { None }).collect();
    if steps.is_empty() {
        return Err("machinery: successful swap without a recorded step (hook H2)".into());
    }
    if steps[0].sqrt_price_before != p0.sqrt_price || steps[steps.len() - 1].next_price != p1.sqrt_price {
        return Err("machinery: H2 trace does not connect the stored pre/post prices".into());
    }
    s.swaps += 1;
    let created_with = rc_of_consts(&w.consts);
    s.swaps_after_retune += (c != created_with) as u64;
    s.swaps_after_group_change += (c.group != created_with.group) as u64;
    s.shifted_starts += (aw::price_of_tick(p0.tick_current_index as i64 + 1) == p0.sqrt_price) as u64;
    let mut memo: BTreeMap<i64, (u64, u64)> = BTreeMap::new();
    let mut rate_of = |g: i64| *memo.entry(g).or_insert_with(|| {
        let a = rf::acc_of(&c, rv.vref, rv.gref, g);
        (rf::total_rate(&c, static_rate, a), a)
    });
    for (i, x) in steps.iter().enumerate() {
        s.steps += 1;
        let rate = x.total_fee_rate as u64;
        if rate < static_rate || rate > rf::HARD_LIMIT {
            return Err(format!("step {i}: total fee rate {rate} outside [static {static_rate}, 100000]"));
        }
        if (a_to_b && x.next_price > x.sqrt_price_before) || (!a_to_b && x.next_price < x.sqrt_price_before) {
            return Err(format!("machinery: step {i} moved against the trade direction"));
        }
        let moved = x.next_price != x.sqrt_price_before;
        let traded = x.amount_in > 0 || x.amount_out > 0 || x.fee_amount > 0;
        if !traded {
            if moved {
                s.zero_liquidity_steps += 1;
            } else {
                s.null_steps += 1;
            }
            continue;
        }
        s.traded_steps += 1;
        let (glo, ghi) = rf::groups_touched(x.sqrt_price_before, x.next_price, a_to_b, gs);
        let mut all_sat = true;
        for g in glo..=ghi {
            let (want, acc) = rate_of(g);
            if want != rate {
                return Err(format!(
                    "step {i} ({} -> {}, liquidity {}, in {} out {} fee {}, skipped={}) was charged {rate}, but tick group {g} (reference group {}, volatility reference {}, accumulator {acc}) has rate {want} = min({static_rate} + ceil(cf*(acc*gs)^2/10^13), 10^5)",
                    x.sqrt_price_before, x.next_price, x.liquidity, x.amount_in, x.amount_out, x.fee_amount, x.skipped, rv.gref, rv.vref
                ));
            }
            all_sat &= acc == c.max_acc;
        }
        s.adaptive_steps += (rate > static_rate) as u64;
        s.saturated_steps += all_sat as u64;
        s.hard_limit_steps += (rate == rf::HARD_LIMIT) as u64;
        s.zero_move_fee_steps += (!moved) as u64;
        if x.skipped {
            s.skipped_traded_steps += 1;
            s.skipped_multi_group_steps += (ghi > glo) as u64;
        } else {
            s.non_skipped_steps += 1;
        }
    }
    // ---- stored variables ----
    let out = rv_of(&o1);
    if (out.gref, out.vref, out.lru) != (rv.gref, rv.vref, rv.lru) {
        return Err(format!(
            "stored reference after the swap: group {} volatility_reference {} updated_at {}; documented rules ({class:?}) on pre-swap {:?} at {now} with current group {g0} give group {} volatility_reference {} updated_at {}",
            out.gref, out.vref, out.lru, rv_of(&o0), rv.gref, rv.vref, rv.lru
        ));
    }
    if out.acc > c.max_acc {
        return Err(format!("stored accumulator {} above the configured maximum {}", out.acc, c.max_acc));
    }
    let (g_end, edge) = rf::end_groups(p1.sqrt_price, gs);
    let want = rf::acc_of(&c, rv.vref, rv.gref, g_end);
    let adj = rf::acc_of(&c, rv.vref, rv.gref, g_end - 1);
    s.boundary_endings += edge as u64;
    if out.acc != want {
        if edge && out.acc == adj {
            s.stored_lower_neighbour += 1;
        } else {
            return Err(format!(
                "stored accumulator {} but the swap ended at {} in tick group {g_end} whose accumulator is {want} (reference group {}, vref {}; exactly on the boundary with group {}: {edge}, whose accumulator is {adj})",
                out.acc, p1.sqrt_price, rv.gref, rv.vref, g_end - 1
            ));
        }
    } else if edge {
        s.stored_upper_neighbour += 1;
    }
    match rf::is_major(p0.sqrt_price, p1.sqrt_price, c.threshold) {
        Some(true) => {
            s.major_set += 1;
            if out.lms != now {
                return Err(format!("price moved {} -> {} (>= {} ticks by the documented test) but last_major_swap_timestamp = {} != now {now}", p0.sqrt_price, p1.sqrt_price, c.threshold, out.lms));
            }
        }
        Some(false) => {
            s.major_not_set += 1;
            if out.lms != o0.last_major_swap_timestamp {
                return Err(format!("price moved {} -> {} (< {} ticks) but last_major_swap_timestamp changed {} -> {}", p0.sqrt_price, p1.sqrt_price, c.threshold, o0.last_major_swap_timestamp, out.lms));
            }
        }
        None => {}
    }
    match class {
        RefClass::Unchanged => s.class_unchanged += 1,
        RefClass::Decayed => s.class_decayed += 1,
        RefClass::Reset => s.class_reset += 1,
        RefClass::Forced { overrides } => {
            s.class_forced += 1;
            s.class_forced_overriding += overrides as u64;
        }
    }
    Ok(())
}

/// `set_adaptive_fee_constants` (successful). What the statement needs from it: afterwards the pool is configured with
/// exactly the requested constants (they are "the configured maximum / periods / factors" every later swap is judged by),
/// and the variables are in the documented state after a change of constants — reset (handler + instruction docs: "avoid
/// invoking this instruction when a pool's adaptive fee is high"), i.e. the next swap starts from reference 0 in its own
/// group as on a fresh pool. (The bound accumulator / reference <= maximum is the state invariant `check_state`.)
fn retune_oracle(pre: &Ledger, st: &AStepped, w: &AfWorld, cs: &CSet, s: &mut AStats) -> Result<(), String> {
    let post = &st.ledger;
    let (o0, o1) = (decode::oracle(pre.data(&w.pool.oracle)), decode::oracle(post.data(&w.pool.oracle)));
    let before = aw::stored_consts(pre, w);
    let want = cs.merged(&before);
    let got = aw::stored_consts(post, w);
    if got != want {
        return Err(format!("set_adaptive_fee_constants({cs:?}) on {before:?} succeeded but the oracle now stores {got:?}, requested {want:?}"));
    }
    if o1.trade_enable_timestamp != o0.trade_enable_timestamp || o1.whirlpool != o0.whirlpool {
        return Err("set_adaptive_fee_constants changed the oracle's trade-enable timestamp / pool link".into());
    }
    if pre.data(&w.pool.addr) != post.data(&w.pool.addr) {
        return Err("set_adaptive_fee_constants changed the pool account".into());
    }
    let (v0, v1) = (rv_of(&o0), rv_of(&o1));
    let history = v0.acc > 0 || v0.vref > 0;
    s.retunes += 1;
    s.retune_with_accumulator += (v0.acc > 0) as u64;
    s.retune_with_reference += (v0.vref > 0) as u64;
    s.retune_max_below_accumulator += (v0.acc > want.max_acc as u64) as u64;
    s.retune_max_below_reference += (v0.vref > want.max_acc as u64) as u64;
    s.retune_group_kept_with_history += (history && want.group == before.group) as u64;
    s.retune_group_changed_with_history += (history && want.group != before.group) as u64;
    if v1.acc > want.max_acc as u64 || v1.vref > want.max_acc as u64 {
        return Err(format!(
            "after set_adaptive_fee_constants({cs:?}) the stored accumulator {} / reference {} exceed the configured maximum {} (variables before the change: {v0:?})",
            v1.acc, v1.vref, want.max_acc
        ));
    }
    // The handler resets the variables on every change. The statement does not demand that in general (only the bound above
    // and, for every later swap, consistency with whatever is stored), so a different choice is counted, not reported — except
    // when the tick-group SIZE changes: reference group and accumulator are counted in tick groups, so a value kept across the
    // change denotes another place / another distance, and the next swap inside the filter period would be charged for a
    // distance from a group the price was never in ("the adaptive rate determined by that price's tick-group distance from the
    // reference group").
    let reset = RV { lru: 0, lms: 0, vref: 0, gref: 0, acc: 0 };
    if v1 != reset {
        s.retune_left_history += 1;
        if want.group != before.group && v0 != reset {
            return Err(format!(
                "set_adaptive_fee_constants changed the tick group size {} -> {} but kept the variables {v1:?} (before: {v0:?}): reference group and accumulator are counted in tick groups of the OLD size",
                before.group, want.group
            ));
        }
    }
    Ok(())
}

/// control factor 0: the static-fee twin received the same swap in the same ledger.
fn twin_oracle(pre: &Ledger, st: &AStepped, w: &AfWorld, s: &mut AStats) -> Result<(), String> {
    let (t, tw) = match (&w.twin, &w.trader_twin) {
        (Some(t), Some(tw)) => (t, tw),
        _ => return Ok(()),
    };
    let to = st.twin_outcome.as_ref().ok_or("machinery: twin swap not executed")?;
    if st.outcome.ok() != to.ok() {
        return Err(format!("control factor 0: adaptive pool swap -> {}, static-fee twin -> {}", st.outcome.short(), to.short()));
    }
    if !to.ok() {
        s.twin_both_failed += 1;
        return Ok(());
    }
    let post = &st.ledger;
    let d = |k: &solana_program::pubkey::Pubkey| balance(post, k) as i128 - balance(pre, k) as i128;
    let main = (d(&w.pool.vault_a), d(&w.pool.vault_b), d(&w.trader.acct_a), d(&w.trader.acct_b));
    let twin = (d(&t.vault_a), d(&t.vault_b), d(&tw.acct_a), d(&tw.acct_b));
    if main != twin {
        return Err(format!("control factor 0: amounts (vault A, vault B, trader A, trader B) {main:?} differ from the static-fee twin's {twin:?}"));
    }
    let (a, b) = (w.pool.state(post), t.state(post));
    let fa = (a.sqrt_price, a.tick_current_index, a.liquidity, a.fee_growth_global_a, a.fee_growth_global_b, a.protocol_fee_owed_a, a.protocol_fee_owed_b, a.fee_rate);
    let fb = (b.sqrt_price, b.tick_current_index, b.liquidity, b.fee_growth_global_a, b.fee_growth_global_b, b.protocol_fee_owed_a, b.protocol_fee_owed_b, b.fee_rate);
    if fa != fb {
        return Err(format!("control factor 0: pool fields (price, tick, liquidity, fee growth A/B, protocol fees A/B, fee rate) {fa:?} differ from the static-fee twin's {fb:?}"));
    }
    if ops::initialized_ticks(post, &w.pool) != ops::initialized_ticks(post, t) {
        return Err("control factor 0: tick data (net/gross liquidity, fee growth outside) differ from the static-fee twin's".into());
    }
    s.twin_compared += 1;
    Ok(())
}

// ------------------------------------------------------------------------------------------------
// model
// ------------------------------------------------------------------------------------------------
pub struct C14Model<'a> {
    pub w: &'a AfWorld,
    pub alphabet: Vec<AOp>,
    pub stats: Mutex<AStats>,
    pub outcomes: Mutex<BTreeMap<String, u64>>,
}
impl<'a> C14Model<'a> {
    fn new(w: &'a AfWorld) -> Self {
        Self::with(w, true)
    }
    /// `retune = false`: swaps and clock steps only (the deeper second pass of the thorough tier)
    fn with(w: &'a AfWorld, retune: bool) -> Self {
        let mut alphabet = alphabet(&w.consts, w.twin.is_some());
        if !retune {
            alphabet.retain(|o| !matches!(o, AOp::SetConsts(_)));
        }
        C14Model { w, alphabet, stats: Mutex::new(AStats::default()), outcomes: Mutex::new(BTreeMap::new()) }
    }
    fn count(&self, k: String) {
        *self.outcomes.lock().unwrap().entry(k).or_insert(0) += 1;
    }
}
impl<'a> Model for C14Model<'a> {
    type S = Ledger;
    type O = AOp;
    fn fp(&self, s: &Ledger) -> u128 {
        s.fingerprint_of(&aw::core_keys(s, self.w), false)
    }
    fn ops(&self, _s: &Ledger) -> Vec<AOp> {
        self.alphabet.clone()
    }
    fn step(&self, s: &Ledger, op: &AOp) -> Result<Option<Ledger>, String> {
        let st = aw::apply(s, self.w, op);
        match op {
            AOp::Clock(_) => {
                self.count("clock:ok".into());
                Ok(Some(st.ledger))
            }
            AOp::SetConsts(cs) => {
                self.count(format!("set_consts:{}", st.outcome.short()));
                if !st.outcome.ok() {
                    // refused (invalid for this pool / nothing changed): nothing happened, not a new state
                    self.stats.lock().unwrap().retunes_refused += 1;
                    return Ok(None);
                }
                let mut local = AStats::default();
                let res = retune_oracle(s, &st, self.w, cs, &mut local);
                self.stats.lock().unwrap().merge(&local);
                res?;
                Ok(Some(st.ledger))
            }
            AOp::Swap { a_to_b, v2, .. } => {
                let mut local = AStats::default();
                let res = (|| {
                    twin_oracle(s, &st, self.w, &mut local)?;
                    if st.outcome.ok() {
                        if *v2 {
                            local.v2_swaps += 1;
                        } else {
                            local.v1_swaps += 1;
                        }
                        swap_oracle(s, &st, self.w, *a_to_b, &mut local)?;
                    }
                    Ok::<(), String>(())
                })();
                self.stats.lock().unwrap().merge(&local);
                self.count(format!("swap:{}", st.outcome.short()));
                res?;
                if st.outcome.ok() {
                    Ok(Some(st.ledger))
                } else {
                    Ok(None)
                }
            }
        }
    }
    fn check_state(&self, s: &Ledger) -> Result<(), String> {
        let o = decode::oracle(s.data(&self.w.pool.oracle));
        if o.volatility_accumulator > o.max_volatility_accumulator || o.volatility_reference > o.max_volatility_accumulator {
            return Err(format!("stored accumulator {} / reference {} above the configured maximum {}", o.volatility_accumulator, o.volatility_reference, o.max_volatility_accumulator));
        }
        Ok(())
    }
}

// ------------------------------------------------------------------------------------------------
// trade-enable scenario (finite)
// ------------------------------------------------------------------------------------------------
fn trade_enable_case(offset: i64, v2: bool) -> Result<u64, String> {
    let mut s = spec(&format!("c14-te-{offset}-{v2}"), AfConsts { filter: 30, decay: 600, reduction: 5000, control: 1500, max_acc: 350_000, group: 16, threshold: 64 }, false);
    let now0 = crate::world::base_ledger().unix_ts;
    // offset NO_TE: a permission-less pool without a trade-enable timestamp (tradable from creation)
    let no_te = offset == NO_TE;
    let offset = if no_te { 0 } else { offset };
    s.permissioned = !no_te;
    let tet = (now0 + offset) as u64;
    s.trade_enable_timestamp = if no_te { None } else { Some(tet) };
    // created away from tick group 0 (tick 100 = group 6 of 16 ticks): a fresh pool has no volatility history, so its first
    // swap must be charged relative to its own start group — whatever the pool-creation code wrote into the variables
    s.sqrt_price = aw::price_of_tick(100);
    let start_group = 6i64;
    let (l, w) = aw::build(&s);
    let stored = decode::oracle(l.data(&w.pool.oracle)).trade_enable_timestamp;
    if stored != if no_te { 0 } else { tet } {
        return Err(format!("oracle stores trade_enable_timestamp {stored}, requested {tet}"));
    }
    let mut checked = 0;
    if !no_te && offset >= 1 {
        // the fee authority re-tunes the pool before it opens: the opening time stays what it was, and trading stays refused
        let cs = aw::CSet { filter: Some(31), ..Default::default() };
        let st = aw::apply(&l, &w, &AOp::SetConsts(cs));
        if !st.outcome.ok() {
            return Err(format!("set_adaptive_fee_constants on a pool that is not yet open for trading failed: {}", st.outcome.short()));
        }
        let o = decode::oracle(st.ledger.data(&w.pool.oracle));
        if o.trade_enable_timestamp != tet {
            return Err(format!("set_adaptive_fee_constants before the pool opened changed its trade-enable timestamp from {tet} to {}", o.trade_enable_timestamp));
        }
        let mut cur = st.ledger.clone();
        cur.unix_ts = tet as i64 - 1;
        let s2 = aw::apply(&cur, &w, &sw(true, true, 1_000, Tgt::None, v2));
        checked += 1;
        if s2.outcome.code() != Some(TRADE_IS_NOT_ENABLED) {
            return Err(format!("after set_adaptive_fee_constants, a swap 1s before trade_enable_timestamp: {} (expected TradeIsNotEnabled 6064)", s2.outcome.short()));
        }
    }
    for (dt, a_to_b) in [(-3600i64, true), (-1, true), (-1, false), (0, true), (0, false), (1, true), (5, false), (29, true), (30, false), (31, true), (599, false), (600, true), (3599, false), (3600, true), (5000, false)] {
        let mut cur = l.clone();
        cur.unix_ts = tet as i64 + dt;
        if cur.unix_ts < l.unix_ts {
            continue; // the clock never runs backwards
        }
        let st = aw::apply(&cur, &w, &sw(a_to_b, true, 1_000, Tgt::None, v2));
        checked += 1;
        if dt < 0 {
            if st.outcome.code() != Some(TRADE_IS_NOT_ENABLED) {
                return Err(format!("swap {dt}s before trade_enable_timestamp: {} (expected TradeIsNotEnabled 6064)", st.outcome.short()));
            }
            if st.ledger != cur {
                return Err("refused swap changed the ledger".into());
            }
        } else if !st.outcome.ok() {
            return Err(format!("swap {dt}s after trade_enable_timestamp failed: {}", st.outcome.short()));
        } else {
            // first swap in the life of the pool, 1 000 units against 10^9 liquidity: it stays inside its start group, so with no
            // earlier swap there is no volatility to charge for — every step is charged exactly the static rate, and afterwards
            // the reference is the start group with a zero volatility reference and accumulator
            for t in &st.trace {
                if let SwapTrace::Step(x) = t {
                    if x.total_fee_rate != s.base_fee_rate as u32 {
                        return Err(format!(
                            "first swap of a pool created at tick 100 (group {start_group}) with trade_enable_timestamp = creation{offset:+}s, executed {dt}s after it: a step inside the start group is charged total rate {} instead of the static rate {} (no swap has happened yet, so there is no volatility)",
                            x.total_fee_rate, s.base_fee_rate
                        ));
                    }
                }
            }
            let o1 = decode::oracle(st.ledger.data(&w.pool.oracle));
            if o1.tick_group_index_reference as i64 != start_group || o1.volatility_reference != 0 || o1.volatility_accumulator != 0 {
                return Err(format!(
                    "after the first swap of the pool ({dt}s after trade enable, inside group {start_group}) the stored reference group / volatility reference / accumulator are {} / {} / {} (expected {start_group} / 0 / 0)",
                    o1.tick_group_index_reference, o1.volatility_reference, o1.volatility_accumulator
                ));
            }
        }
    }
    Ok(checked)
}

const NO_TE: i64 = i64::MIN;
const TE_OFFSETS: [i64; 6] = [-30, 0, 1, 100, 259_200, NO_TE];

// ------------------------------------------------------------------------------------------------
pub fn run(ctx: &Ctx) -> Report {
    let mut r = Report::new("C14", "model_checking");
    // ---- Part B ----
    // (debug knob used only to demonstrate that Part A detects mutants on its own; evidence records it)
    let skip_fn = std::env::var("WPV_C14_SKIP_FN").is_ok();
    if skip_fn {
        r.set("fn_part_skipped_by_env", true);
    } else {
        c14_fn::run_fn(ctx, &mut r);
    }
    let fn_secs = ctx.elapsed();
    r.set("fn_wall_s", (fn_secs * 10.0).round() / 10.0);
    if !r.violations.is_empty() {
        r.set("exhaustive", false);
        return r;
    }
    // ---- trade-enable ----
    let mut te = 0u64;
    for off in TE_OFFSETS {
        for v2 in [false, true] {
            match std::panic::catch_unwind(|| trade_enable_case(off, v2)) {
                Ok(Ok(n)) => te += n,
                Ok(Err(e)) => r.violation(format!("trade_enable/{off}/{v2}"), e, json!({"kind": "trade_enable", "offset": off, "v2": v2})),
                Err(_) => r.violation(format!("trade_enable/{off}/{v2}"), "world builder panicked (pool with a valid trade_enable_timestamp could not be built)".into(), json!({"kind": "trade_enable", "offset": off, "v2": v2})),
            }
        }
    }
    r.set("trade_enable_swaps_checked", te);
    r.guard("trade_enable_swaps_checked", te);
    // ... and through the two-hop instructions (either leg may be the pool that has not opened yet): judged by C17's oracle in
    // its world with a pool that opens 40 s after the start
    if r.violations.is_empty() {
        let (n, bad) = super::c17::trade_enable_part();
        r.set("trade_enable_two_hop_variants_checked", n);
        r.guard("trade_enable_two_hop_variants_checked", n);
        if let Some((k, d, c)) = bad {
            r.violation(k, d, c);
        }
    }

    // ---- the lowest tick as a tick-group boundary ----
    if r.violations.is_empty() {
        match std::panic::catch_unwind(min_edge_case) {
            Ok(Ok(n)) => r.guard("operations_on_the_pool_at_the_lowest_tick_group", n),
            Ok(Err((label, ops, detail))) => {
                let case = json!({"kind": "ops", "world": label, "root": "fresh", "ops": serde_json::to_value(&ops).unwrap()});
                r.violation(format!("{label}/fresh/{}", serde_json::to_string(&ops).unwrap()), detail, case);
            }
            Err(_) => r.violation("c14-min-edge-ts4/world".into(), "world builder panicked (adaptive-fee pool with tick spacing 4 at the lowest tick)".into(), json!({"kind": "min_edge_world"})),
        }
    }

    // ---- Part A ----
    // quick: one pass, full alphabet (swaps, clock steps, set_adaptive_fee_constants), depth 3.
    // thorough: the full alphabet to depth 4, then swaps + clock steps only to depth 5 (the same roots, which include a
    // pool whose group size was changed); both passes share one wall cap so that the tier stays within its time limit.
    let ss = specs(!ctx.tier.is_quick());
    let passes: Vec<(&str, bool, usize)> = if ctx.tier.is_quick() { vec![("all-ops", true, 3)] } else { vec![("all-ops", true, 4), ("swaps-and-clocks", false, 5)] };
    let runs: Vec<(&AfSpec, &str, bool, usize)> = passes.iter().flat_map(|p| ss.iter().map(move |s| (s, p.0, p.1, p.2))).collect();
    let part_a_cap = ctx.left().min(ctx.pick(150.0, 780.0));
    let t_a = ctx.elapsed();
    let mut total = AStats::default();
    let n = runs.len() as f64;
    for (i, (s, pass, retune, max_depth)) in runs.iter().enumerate() {
        let (pass, max_depth) = (*pass, *max_depth);
        if !r.violations.is_empty() {
            break;
        }
        let (l0, w) = aw::build(s);
        let m = C14Model::with(&w, *retune);
        let named = match build_roots(&m, &l0, None) {
            Ok(x) => x,
            Err((ops, detail)) => {
                // found while building a root: the replayable case starts from the freshly built world
                let case = json!({"kind": "ops", "world": s.label, "root": "fresh", "ops": serde_json::to_value(&ops).unwrap()});
                r.violation(format!("{}/fresh/{}", s.label, serde_json::to_string(&ops).unwrap()), detail, case);
                total.merge(&m.stats.lock().unwrap());
                break;
            }
        };
        let roots: Vec<Ledger> = named.iter().map(|x| x.1.clone()).collect();
        let share = ((part_a_cap - (ctx.elapsed() - t_a)) * 0.95 / (n - i as f64)).max(2.0);
        let lim = Limits { max_depth, budget_s: share, max_states: 40_000_000 };
        let (stats, found) = explore::explore(&m, &roots, &lim);
        if let Some(f) = found {
            let case = json!({"kind": "ops", "world": s.label, "root": named[f.root].0, "ops": serde_json::to_value(&f.path).unwrap()});
            r.violation(format!("{}/{}/{}", s.label, named[f.root].0, serde_json::to_string(&f.path).unwrap()), f.detail.clone(), case);
        }
        r.add("states", stats.states);
        r.add("transitions", stats.transitions);
        r.add("traces_validated_against_impl", stats.sequences);
        let per: Vec<Value> = stats.per_depth.iter().map(|(d, s, t, secs)| json!({"depth": d, "states": s, "transitions": t, "s": (secs * 10.0).round() / 10.0})).collect();
        let outcomes = m.outcomes.lock().unwrap().clone();
        let e = r.coverage.entry("worlds".to_string()).or_insert_with(|| json!([]));
        e.as_array_mut().unwrap().push(json!({
            "world": s.label, "pass": pass, "constants": serde_json::to_value(s.consts).unwrap(), "roots": named.iter().map(|x| x.0.clone()).collect::<Vec<_>>(),
            "alphabet_size": m.alphabet.len(), "depth_completed": stats.depth_completed, "depth_partial": stats.depth_partial, "cap_hit": stats.cap_hit, "per_depth": per, "outcomes": outcomes,
        }));
        let key = if *retune { "depth_completed" } else { "depth_completed_swaps_and_clocks_only" };
        let cur = r.coverage.get(key).and_then(|v| v.as_u64());
        let d = stats.depth_completed as u64;
        r.set(key, match cur { Some(c) => c.min(d), None => d });
        if stats.cap_hit.is_some() {
            r.set("caps_hit", true);
        }
        r.sample(json!({"world": s.label, "root": named[1].0, "op_sequence": serde_json::to_value(&m.alphabet[1..4]).unwrap()}));
        total.merge(&m.stats.lock().unwrap());
    }
    r.set("swaps_checked", total.swaps);
    r.set("swap_steps_checked", total.steps);
    r.guard("boundary_ending_stored_lower_group", total.stored_lower_neighbour);
    r.guard("boundary_ending_stored_upper_group", total.stored_upper_neighbour);
    r.set("null_steps", total.null_steps);
    r.guard("swaps_checked", total.swaps);
    r.guard("swaps_v1", total.v1_swaps);
    r.guard("swaps_v2", total.v2_swaps);
    r.guard("traded_steps", total.traded_steps);
    r.guard("steps_with_adaptive_component", total.adaptive_steps);
    r.guard("saturated_steps", total.saturated_steps);
    r.guard("hard_limit_steps", total.hard_limit_steps);
    r.guard("skipped_steps_that_traded", total.skipped_traded_steps);
    r.guard("skipped_steps_spanning_several_groups", total.skipped_multi_group_steps);
    r.guard("non_skipped_steps", total.non_skipped_steps);
    r.guard("zero_liquidity_steps", total.zero_liquidity_steps);
    r.guard("zero_move_fee_only_steps", total.zero_move_fee_steps);
    r.guard("group_boundary_endings", total.boundary_endings);
    r.guard("shifted_start_swaps", total.shifted_starts);
    r.guard("reference_unchanged", total.class_unchanged);
    r.guard("reference_decayed", total.class_decayed);
    r.guard("reference_reset", total.class_reset);
    r.guard("reference_forced_reset", total.class_forced);
    r.guard("reference_forced_reset_overriding", total.class_forced_overriding);
    r.guard("major_swap_set", total.major_set);
    r.guard("major_swap_not_set", total.major_not_set);
    r.guard("control_factor_zero_twin_compared", total.twin_compared);
    r.guard("constants_changed", total.retunes);
    r.set("constants_change_refused", total.retunes_refused);
    r.set("constants_changed_variables_not_reset_(observed,_not_demanded)", total.retune_left_history);
    r.guard("constants_changed_with_nonzero_accumulator", total.retune_with_accumulator);
    r.guard("constants_changed_with_nonzero_reference", total.retune_with_reference);
    r.guard("constants_changed_new_max_below_stored_accumulator", total.retune_max_below_accumulator);
    r.guard("constants_changed_new_max_below_stored_reference", total.retune_max_below_reference);
    r.guard("constants_changed_group_size_kept_with_history", total.retune_group_kept_with_history);
    r.guard("constants_changed_group_size_changed_with_history", total.retune_group_changed_with_history);
    r.guard("swaps_on_changed_constants", total.swaps_after_retune);
    r.guard("swaps_on_changed_group_size", total.swaps_after_group_change);
    let rule = r.coverage.get("fn_rule").cloned().unwrap_or(Value::Null);
    r.set("rule", rule);
    r.set("exhaustive", false);
    r.assume("hook H2 records the fee rate / prices / amounts compute_swap actually received and returned");
    r.assume("tick <-> sqrt-price conversion of the program is correct (C09); group boundaries are p(k * group_size)");
    r.assume("'current tick group' at the start of a swap is the group of the pool's STORED tick_current_index (which is one below the price's tick after a downward crossing that ended exactly on an initialized tick)");
    r.assume("svm-lite faithfully replaces the validator (DESIGN §2.1)");
    r
}

pub fn replay(case: &Value) -> Result<(), String> {
    if case["kind"].as_str() == Some("twohop_trade_enable") {
        return super::c17::replay_trade_enable(case);
    }
    if let Some(res) = c14_fn::replay_fn(case) {
        return res;
    }
    match case["kind"].as_str() {
        Some("trade_enable") => trade_enable_case(case["offset"].as_i64().ok_or("offset")?, case["v2"].as_bool().ok_or("v2")?).map(|_| ()),
        Some("ops") => {
            let name = case["world"].as_str().ok_or("world")?;
            let s = specs(true).into_iter().chain(std::iter::once(min_edge_spec())).find(|s| s.label == name).ok_or("unknown world")?;
            let (l0, w) = aw::build(&s);
            let m = C14Model::new(&w);
            let path: Vec<AOp> = serde_json::from_value(case["ops"].clone()).map_err(|e| e.to_string())?;
            let root = case["root"].as_str().ok_or("root")?;
            let named = build_roots(&m, &l0, Some(root)).map_err(|(ops, e)| format!("while building root {root} ({} ops): {e}", ops.len()))?;
            let mut cur = named.into_iter().next().ok_or("unknown root")?.1;
            m.check_state(&cur)?;
            for op in &path {
                match m.step(&cur, op)? {
                    None => return Ok(()),
                    Some(n) => {
                        m.check_state(&n)?;
                        cur = n;
                    }
                }
            }
            Ok(())
        }
        _ => Err("bad case".into()),
    }
}
