//! C12 (function level) — Pinocchio fast path ≡ Anchor implementation, decided by bounded exhaustive enumeration.
//!
//! Three parts, all deterministic products over fixed alphabets (no sampling):
//!  (1) `TickArray::check_is_usable_tick_and_get_offset` (manual shift-subtract division) and `get_tick` of the
//!      Pinocchio views vs the Anchor `get_tick` (slot identified by a per-slot signature) vs plain `/`, `%`;
//!  (2) memory-mapped views vs the real Anchor serializers (getter by getter, setter by setter, untouched bytes
//!      unchanged) with the harness's own decoders as a third opinion;
//!  (3) `pino_calculate_modify_liquidity` / `pino_sync_modify_liquidity_values` / `pino_calculate_liquidity_token_deltas`
//!      vs the Anchor functions over a structured state alphabet; every output field, every error code, and the
//!      bytes written back by the two `sync` functions.
//!
//! Reachability: inputs the program cannot produce (tick-array start index that is not a multiple of 88·ts inside the
//! protocol range, tick spacing 0, an *uninitialised* reward slot carrying non-zero emissions) are enumerated too,
//! but a divergence there is only counted (`fn_*_unreachable_divergences`), never reported as a violation.
#![allow(deprecated)]
#![allow(clippy::too_many_arguments)]
use crate::decode;
use crate::report::{Ctx, Report};
use anchor_lang::__private::bytemuck;
use anchor_lang::prelude::Pubkey;
use anchor_lang::{AccountDeserialize, AccountSerialize, Discriminator};
use rayon::prelude::*;
use serde_json::{json, Value};
use std::cell::Cell;
use std::collections::BTreeMap;
use std::mem::size_of;
use std::panic::{catch_unwind, AssertUnwindSafe};
use whirlpool::errors::ErrorCode;
use whirlpool::manager::liquidity_manager::{
    calculate_fee_and_reward_growths, calculate_liquidity_token_deltas, calculate_modify_liquidity, sync_modify_liquidity_values,
};
use whirlpool::math::sqrt_price_from_tick_index;
use whirlpool::pinocchio::verif_export::errors::UnifiedError;
use whirlpool::pinocchio::verif_export::ported::manager_liquidity_manager as pl;
use whirlpool::pinocchio::verif_export::state::whirlpool as pstate;
use whirlpool::pinocchio::verif_export::state::WhirlpoolProgramAccount;
use whirlpool::state::{
    DynamicTickArray, DynamicTickArrayLoader, FixedTickArray, Position, PositionRewardInfo, PositionUpdate, Tick, TickArrayType, TickUpdate,
    Whirlpool, WhirlpoolRewardInfo, MAX_TICK_INDEX, MIN_TICK_INDEX,
};

use pstate::dynamic_tick_array::MemoryMappedDynamicTickArray;
use pstate::fixed_tick_array::MemoryMappedFixedTickArray;
use pstate::TickArray as PTickArray;
use pstate::{MemoryMappedPosition, MemoryMappedTick, MemoryMappedWhirlpool};

const FIXED_LEN: usize = 9988;
const DYN_MAX_LEN: usize = 10004;
/// dynamic images are always held in a buffer large enough for both fixed-size windows the two loaders map
const DYN_BUF: usize = 10240;
const U128M: u128 = u128::MAX;

// ------------------------------------------------------------------------------------------------
// plumbing
// ------------------------------------------------------------------------------------------------

thread_local! { static IN_CUT: Cell<bool> = const { Cell::new(false) }; }

/// Run code under test; a panic becomes `None` (and prints nothing).
fn guarded<T>(f: impl FnOnce() -> T) -> Option<T> {
    IN_CUT.with(|c| c.set(true));
    let r = catch_unwind(AssertUnwindSafe(f)).ok();
    IN_CUT.with(|c| c.set(false));
    r
}

fn with_quiet_panics<T>(f: impl FnOnce() -> T) -> T {
    let prev = std::sync::Arc::new(std::panic::take_hook());
    let p2 = prev.clone();
    std::panic::set_hook(Box::new(move |info| {
        if !IN_CUT.with(|c| c.get()) {
            p2(info)
        }
    }));
    let out = f();
    let _ = std::panic::take_hook();
    // put a forwarding hook back (the original cannot be moved out of the Arc while the closure may still hold it)
    std::panic::set_hook(Box::new(move |info| prev(info)));
    out
}

#[derive(Debug, Clone, PartialEq)]
enum Out<T> {
    Ok(T),
    Err(u64),
    Panic,
}
impl<T> Out<T> {
    fn tag(&self) -> String {
        match self {
            Out::Ok(_) => "Ok".into(),
            Out::Err(c) => format!("Err({c})"),
            Out::Panic => "panic".into(),
        }
    }
}

fn anchor_code(e: anchor_lang::error::Error) -> u64 {
    let pe: anchor_lang::solana_program::program_error::ProgramError = e.into();
    u64::from(pe)
}
fn a_out<T>(r: Option<anchor_lang::Result<T>>) -> Out<T> {
    match r {
        None => Out::Panic,
        Some(Ok(v)) => Out::Ok(v),
        Some(Err(e)) => Out::Err(anchor_code(e)),
    }
}
fn p_out<T>(r: Option<Result<T, UnifiedError>>) -> Out<T> {
    match r {
        None => Out::Panic,
        Some(Ok(v)) => Out::Ok(v),
        Some(Err(e)) => Out::Err(u64::from(e)),
    }
}
fn ecode(e: ErrorCode) -> u64 {
    u32::from(e) as u64
}

fn ser<T: AccountSerialize>(x: &T, out: &mut Vec<u8>) {
    out.clear();
    x.try_serialize(out).expect("anchor serializer failed");
}

// --- Pinocchio views over byte images (exactly what account_load / load_tick_array do: a pointer cast) ---
fn v_wp(b: &[u8]) -> &MemoryMappedWhirlpool {
    assert!(b.len() >= size_of::<MemoryMappedWhirlpool>());
    unsafe { &*(b.as_ptr() as *const MemoryMappedWhirlpool) }
}
fn v_wp_mut(b: &mut [u8]) -> &mut MemoryMappedWhirlpool {
    assert!(b.len() >= size_of::<MemoryMappedWhirlpool>());
    unsafe { &mut *(b.as_mut_ptr() as *mut MemoryMappedWhirlpool) }
}
fn v_pos(b: &[u8]) -> &MemoryMappedPosition {
    assert!(b.len() >= size_of::<MemoryMappedPosition>());
    unsafe { &*(b.as_ptr() as *const MemoryMappedPosition) }
}
fn v_pos_mut(b: &mut [u8]) -> &mut MemoryMappedPosition {
    assert!(b.len() >= size_of::<MemoryMappedPosition>());
    unsafe { &mut *(b.as_mut_ptr() as *mut MemoryMappedPosition) }
}
fn is_fixed(b: &[u8]) -> bool {
    b[..8] == *FixedTickArray::DISCRIMINATOR
}
fn v_ta(b: &[u8]) -> &dyn PTickArray {
    if is_fixed(b) {
        assert!(b.len() >= size_of::<MemoryMappedFixedTickArray>());
        unsafe { &*(b.as_ptr() as *const MemoryMappedFixedTickArray) }
    } else {
        assert!(b.len() >= DYN_BUF);
        unsafe { &*(b.as_ptr() as *const MemoryMappedDynamicTickArray) }
    }
}
fn v_ta_mut(b: &mut [u8]) -> &mut dyn PTickArray {
    if is_fixed(b) {
        assert!(b.len() >= size_of::<MemoryMappedFixedTickArray>());
        unsafe { &mut *(b.as_mut_ptr() as *mut MemoryMappedFixedTickArray) }
    } else {
        assert!(b.len() >= DYN_BUF);
        unsafe { &mut *(b.as_mut_ptr() as *mut MemoryMappedDynamicTickArray) }
    }
}
// --- Anchor views (exactly what state::tick_array::load_tick_array does) ---
fn a_ta(b: &[u8]) -> &dyn TickArrayType {
    if is_fixed(b) {
        let t: &FixedTickArray = bytemuck::from_bytes(&b[8..FIXED_LEN]);
        t
    } else {
        assert!(b.len() >= DYN_BUF);
        DynamicTickArrayLoader::load(&b[8..])
    }
}
fn a_ta_mut(b: &mut [u8]) -> &mut dyn TickArrayType {
    if is_fixed(b) {
        let t: &mut FixedTickArray = bytemuck::from_bytes_mut(&mut b[8..FIXED_LEN]);
        t
    } else {
        assert!(b.len() >= DYN_BUF);
        DynamicTickArrayLoader::load_mut(&mut b[8..])
    }
}

fn fixed_image(ta: &FixedTickArray) -> Vec<u8> {
    let mut b = Vec::with_capacity(FIXED_LEN);
    b.extend_from_slice(FixedTickArray::DISCRIMINATOR);
    b.extend_from_slice(bytemuck::bytes_of(ta));
    assert_eq!(b.len(), FIXED_LEN);
    b
}
fn dyn_image(start: i32, wp: &Pubkey) -> Vec<u8> {
    let mut b = vec![0u8; DYN_BUF];
    b[..8].copy_from_slice(DynamicTickArray::DISCRIMINATOR);
    b[8..12].copy_from_slice(&start.to_le_bytes());
    b[12..44].copy_from_slice(wp.as_ref());
    b
}
fn dyn_bitmap(b: &[u8]) -> u128 {
    u128::from_le_bytes(b[44..60].try_into().unwrap())
}
fn dyn_used(b: &[u8]) -> usize {
    148 + 112 * dyn_bitmap(b).count_ones() as usize
}
/// the part of a tick-array image that is account state
fn ta_state(b: &[u8]) -> &[u8] {
    if is_fixed(b) {
        &b[..FIXED_LEN]
    } else {
        &b[..dyn_used(b).min(DYN_MAX_LEN)]
    }
}

fn a_tick_tuple(t: &Tick) -> (bool, i128, u128, u128, u128, [u128; 3]) {
    (t.initialized, t.liquidity_net, t.liquidity_gross, t.fee_growth_outside_a, t.fee_growth_outside_b, t.reward_growths_outside)
}
fn p_tick_tuple(t: &MemoryMappedTick) -> (bool, i128, u128, u128, u128, [u128; 3]) {
    (t.initialized(), t.liquidity_net(), t.liquidity_gross(), t.fee_growth_outside_a(), t.fee_growth_outside_b(), t.reward_growths_outside())
}
fn d_tick_tuple(t: &decode::Tick) -> (bool, i128, u128, u128, u128, [u128; 3]) {
    (t.initialized, t.liquidity_net, t.liquidity_gross, t.fee_growth_outside_a, t.fee_growth_outside_b, t.reward_growths_outside)
}
fn a_upd_tuple(t: &TickUpdate) -> (bool, i128, u128, u128, u128, [u128; 3]) {
    (t.initialized, t.liquidity_net, t.liquidity_gross, t.fee_growth_outside_a, t.fee_growth_outside_b, t.reward_growths_outside)
}
fn p_upd_tuple(t: &pstate::TickUpdate) -> (bool, i128, u128, u128, u128, [u128; 3]) {
    (t.initialized, t.liquidity_net, t.liquidity_gross, t.fee_growth_outside_a, t.fee_growth_outside_b, t.reward_growths_outside)
}
fn to_p_upd(t: &TickUpdate) -> pstate::TickUpdate {
    pstate::TickUpdate {
        initialized: t.initialized,
        liquidity_net: t.liquidity_net,
        liquidity_gross: t.liquidity_gross,
        fee_growth_outside_a: t.fee_growth_outside_a,
        fee_growth_outside_b: t.fee_growth_outside_b,
        reward_growths_outside: t.reward_growths_outside,
    }
}

type Viol = (String, String, Value);

// ------------------------------------------------------------------------------------------------
// Part 1 — usable-tick lookup
// ------------------------------------------------------------------------------------------------

fn ts_alphabet(thorough: bool) -> Vec<u16> {
    // tick spacing 0 is not in the alphabet: no pool or fee tier can have it (C19), and the manual shift-subtract division
    // does not terminate for it once the bounds test lets a tick through (a hang is not a verdict)
    let mut v: Vec<u16> = vec![];
    v.extend(1..=if thorough { 1100u16 } else { 130u16 });
    for k in 0..16 {
        v.push(1u16 << k);
    }
    v.extend([32767, 32768, 65535]);
    if thorough {
        v.extend([255, 257, 4095, 4097, 16383, 16385, 32769, 43690, 65534]);
    }
    v.sort();
    v.dedup();
    v
}

/// the harness's own definition of "a tick array with this start index can exist in a pool of this spacing"
fn start_reachable(ts: u16, start: i32) -> bool {
    if ts == 0 {
        return false;
    }
    let t = 88 * ts as i64;
    let s = start as i64;
    s % t == 0 && s <= MAX_TICK_INDEX as i64 && s + t > MIN_TICK_INDEX as i64
}

fn start_alphabet(ts: u16) -> Vec<i32> {
    let t = 88 * (ts.max(1)) as i64;
    let sp = ts as i64;
    let max = MAX_TICK_INDEX as i64;
    let min_start = -((max + t - 1) / t) * t; // the array straddling MIN_TICK_INDEX
    let max_start = (max / t) * t; // the last array before MAX_TICK_INDEX
    let mut v: Vec<i64> = vec![0, t, -t, 2 * t, -2 * t, 3 * t, -3 * t];
    v.extend([min_start, min_start + t, min_start - t, max_start, max_start - t, max_start + t]);
    // invalid starts: off by one, a multiple of the spacing but not of the array width, half an array, off by one around the edges
    v.extend([1, -1, sp, t + sp, -t - sp, t / 2, t + 1, -t - 1, min_start + sp, min_start + 1, max_start - 1]);
    let mut out: Vec<i32> = v.into_iter().filter(|x| x.abs() < 20_000_000).map(|x| x as i32).collect();
    out.sort();
    out.dedup();
    out
}

fn tick_alphabet(ts: u16, start: i32) -> Vec<i32> {
    let sp = ts as i64;
    let mut rems = vec![0i64, 1, sp - 1];
    rems.retain(|r| *r >= 0 && (*r < sp || (sp == 0 && *r <= 1)));
    rems.sort();
    rems.dedup();
    let mut v: Vec<i64> = Vec::with_capacity(820);
    for o in -88i64..=176 {
        for r in &rems {
            v.push(start as i64 + o * sp + r);
        }
    }
    v.extend([i32::MIN as i64, i32::MAX as i64, MIN_TICK_INDEX as i64, MAX_TICK_INDEX as i64, MIN_TICK_INDEX as i64 - 1, MAX_TICK_INDEX as i64 + 1, 0]);
    let mut out: Vec<i32> = v.into_iter().filter(|x| *x >= i32::MIN as i64 && *x <= i32::MAX as i64).map(|x| x as i32).collect();
    out.sort();
    out.dedup();
    out
}

/// (plain answer with the Pinocchio divisibility rule, plain answer with the Anchor divisibility rule)
fn plain_usable(ts: u16, start: i32, tick: i32) -> (Option<usize>, Option<usize>) {
    if ts == 0 {
        return (None, None);
    }
    let (sp, s, t) = (ts as i64, start as i64, tick as i64);
    let in_array = t >= s && t < s + 88 * sp;
    let in_protocol = t >= MIN_TICK_INDEX as i64 && t <= MAX_TICK_INDEX as i64;
    if !(in_array && in_protocol) {
        return (None, None);
    }
    let off = ((t - s) / sp) as usize;
    (if (t - s) % sp == 0 { Some(off) } else { None }, if t % sp == 0 { Some(off) } else { None })
}

/// a fixed array whose slot i carries the signature liquidity_gross = i + 1 (so `get_tick` reveals the slot it read)
fn signature_fixed() -> Vec<u8> {
    let mut ta = FixedTickArray::default();
    for i in 0..88 {
        ta.ticks[i] = Tick { initialized: true, liquidity_net: -(i as i128) - 1, liquidity_gross: i as u128 + 1, ..Default::default() };
    }
    ta.whirlpool = Pubkey::new_from_array([9; 32]);
    fixed_image(&ta)
}
fn signature_dynamic() -> Vec<u8> {
    let mut b = dyn_image(0, &Pubkey::new_from_array([9; 32]));
    for i in 0..88 {
        let u = TickUpdate { initialized: true, liquidity_net: -(i as i128) - 1, liquidity_gross: i as u128 + 1, ..Default::default() };
        DynamicTickArrayLoader::load_mut(&mut b[8..]).update_tick(i, 1, &u).expect("anchor dynamic init");
    }
    assert_eq!(dyn_used(&b), DYN_MAX_LEN);
    b
}

#[derive(Default, Clone)]
struct UStat {
    evals: u64,
    reach_some: u64,
    reach_none: u64,
    reach_none_not_divisible: u64,
    reach_none_out_of_protocol: u64,
    unreach: u64,
    unreach_div: u64,
    validity_disagree: u64,
    min_straddle_some: u64,
    dyn_evals: u64,
    aux: u64,
    viol: Vec<Viol>,
}
impl UStat {
    fn merge(mut self, o: UStat) -> UStat {
        self.evals += o.evals;
        self.reach_some += o.reach_some;
        self.reach_none += o.reach_none;
        self.reach_none_not_divisible += o.reach_none_not_divisible;
        self.reach_none_out_of_protocol += o.reach_none_out_of_protocol;
        self.unreach += o.unreach;
        self.unreach_div += o.unreach_div;
        self.validity_disagree += o.validity_disagree;
        self.min_straddle_some += o.min_straddle_some;
        self.dyn_evals += o.dyn_evals;
        self.aux += o.aux;
        for v in o.viol {
            if self.viol.len() < 4 {
                self.viol.push(v);
            }
        }
        self
    }
}

/// One usable-tick evaluation on an image whose start index is already patched. Ok(divergent_on_unreachable) or Err(detail).
fn usable_eval(img: &[u8], ts: u16, start: i32, tick: i32, reachable: bool) -> Result<bool, String> {
    let pv = v_ta(img);
    let av = a_ta(img);
    let (plain_p, plain_a) = plain_usable(ts, start, tick);
    let p_off = guarded(|| pv.check_is_usable_tick_and_get_offset(tick, ts));
    let p_get = p_out(guarded(|| pv.get_tick(tick, ts).map(|t| t.liquidity_gross())));
    let a_get = a_out(guarded(|| av.get_tick(tick, ts).map(|t| t.liquidity_gross)));
    let slot = |o: &Out<u128>| -> Result<Option<usize>, String> {
        match o {
            Out::Ok(g) if *g >= 1 && *g <= 88 => Ok(Some(*g as usize - 1)),
            Out::Ok(g) => Err(format!("get_tick returned a tick with signature {g}")),
            Out::Err(c) if *c == ecode(ErrorCode::TickNotFound) => Ok(None),
            Out::Err(c) => Err(format!("get_tick failed with unexpected code {c}")),
            Out::Panic => Err("get_tick panicked".into()),
        }
    };
    if !reachable {
        let same = matches!((&p_off, slot(&p_get), slot(&a_get)), (Some(po), Ok(pg), Ok(ag)) if *po == pg && pg == ag);
        return Ok(!same);
    }
    let p_off = p_off.ok_or_else(|| "check_is_usable_tick_and_get_offset panicked".to_string())?;
    let pg = slot(&p_get).map_err(|e| format!("pinocchio {e}"))?;
    let ag = slot(&a_get).map_err(|e| format!("anchor {e}"))?;
    if plain_p != plain_a {
        return Err(format!("oracle inconsistency: (tick-start)%ts and tick%ts disagree for a valid start: {plain_p:?} vs {plain_a:?}"));
    }
    if p_off != plain_p || pg != plain_p || ag != plain_p {
        return Err(format!(
            "ts={ts} start={start} tick={tick}: plain={plain_p:?} pinocchio check_is_usable_tick_and_get_offset={p_off:?} pinocchio get_tick slot={pg:?} anchor get_tick slot={ag:?}"
        ));
    }
    if p_get.tag() != a_get.tag() {
        return Err(format!("ts={ts} start={start} tick={tick}: pinocchio get_tick {} vs anchor get_tick {}", p_get.tag(), a_get.tag()));
    }
    Ok(false)
}

/// the remaining trait default methods both sides carry (search range, offsets, edge-array predicates)
fn usable_aux(img: &[u8], ts: u16, tick: i32) -> Result<(), String> {
    let pv = v_ta(img);
    let av = a_ta(img);
    if pv.start_tick_index() != av.start_tick_index() || pv.is_variable_size() != av.is_variable_size() || pv.whirlpool()[..] != av.whirlpool().to_bytes()[..] {
        return Err("start_tick_index / is_variable_size / whirlpool differ".into());
    }
    if pv.is_min_tick_array() != av.is_min_tick_array() || pv.is_max_tick_array(ts) != av.is_max_tick_array(ts) {
        return Err(format!("is_min_tick_array / is_max_tick_array differ (ts={ts} start={})", av.start_tick_index()));
    }
    for sh in [false, true] {
        if pv.in_search_range(tick, ts, sh) != av.in_search_range(tick, ts, sh) {
            return Err(format!("in_search_range differs (ts={ts} tick={tick} shifted={sh})"));
        }
    }
    if pv.check_in_array_bounds(tick, ts) != av.check_in_array_bounds(tick, ts) {
        return Err(format!("check_in_array_bounds differs (ts={ts} tick={tick})"));
    }
    let po = p_out(guarded(|| pv.tick_offset(tick, ts)));
    let ao = a_out(guarded(|| av.tick_offset(tick, ts)));
    if po != ao {
        return Err(format!("tick_offset differs (ts={ts} tick={tick}): {po:?} vs {ao:?}"));
    }
    Ok(())
}

fn usable_case(ts: u16, start: i32, tick: i32, dynamic: bool) -> Value {
    json!({"kind": "fn_usable", "ts": ts, "start": start, "tick": tick, "dynamic": dynamic})
}

fn run_usable(ctx: &Ctx) -> UStat {
    let tss = ts_alphabet(!ctx.tier.is_quick());
    let dyn_ts: Vec<u16> = vec![1, 2, 3, 7, 64, 128, 255, 32768, 65535];
    let fixed0 = signature_fixed();
    let dyn0 = signature_dynamic();
    tss.par_iter()
        .map(|&ts| {
            let mut st = UStat::default();
            let mut imgs: Vec<(bool, Vec<u8>)> = vec![(false, fixed0.clone())];
            if dyn_ts.contains(&ts) {
                imgs.push((true, dyn0.clone()));
            }
            for (dynamic, img) in imgs.iter_mut() {
                for start in start_alphabet(ts) {
                    img[8..12].copy_from_slice(&start.to_le_bytes());
                    let reachable = start_reachable(ts, start);
                    if ts > 0 && reachable != Tick::check_is_valid_start_tick(start, ts) {
                        st.validity_disagree += 1;
                    }
                    let min_straddle = reachable && start < MIN_TICK_INDEX;
                    for tick in tick_alphabet(ts, start) {
                        st.evals += 1;
                        if *dynamic {
                            st.dyn_evals += 1;
                        }
                        match usable_eval(img, ts, start, tick, reachable) {
                            Ok(div) => {
                                if reachable {
                                    let (p, _) = plain_usable(ts, start, tick);
                                    if p.is_some() {
                                        st.reach_some += 1;
                                        if min_straddle {
                                            st.min_straddle_some += 1;
                                        }
                                    } else {
                                        st.reach_none += 1;
                                        let (s, t, sp) = (start as i64, tick as i64, ts as i64);
                                        if t >= s && t < s + 88 * sp {
                                            if t < MIN_TICK_INDEX as i64 || t > MAX_TICK_INDEX as i64 {
                                                st.reach_none_out_of_protocol += 1;
                                            } else {
                                                st.reach_none_not_divisible += 1;
                                            }
                                        }
                                    }
                                } else {
                                    st.unreach += 1;
                                    if div {
                                        st.unreach_div += 1;
                                    }
                                }
                            }
                            Err(d) => {
                                if st.viol.len() < 2 {
                                    st.viol.push((format!("fn_usable:{ts}:{start}:{tick}:{dynamic}"), d, usable_case(ts, start, tick, *dynamic)));
                                }
                            }
                        }
                        st.aux += 1;
                        if let Err(d) = usable_aux(img, ts, tick) {
                            if st.viol.len() < 2 {
                                st.viol.push((format!("fn_usable_aux:{ts}:{start}:{tick}:{dynamic}"), d, usable_case(ts, start, tick, *dynamic)));
                            }
                        }
                    }
                }
            }
            st
        })
        .reduce(UStat::default, UStat::merge)
}

fn replay_usable(case: &Value) -> Result<(), String> {
    let ts = case["ts"].as_u64().ok_or("ts")? as u16;
    let start = case["start"].as_i64().ok_or("start")? as i32;
    let tick = case["tick"].as_i64().ok_or("tick")? as i32;
    let dynamic = case["dynamic"].as_bool().unwrap_or(false);
    let mut img = if dynamic { signature_dynamic() } else { signature_fixed() };
    img[8..12].copy_from_slice(&start.to_le_bytes());
    let reachable = start_reachable(ts, start);
    usable_eval(&img, ts, start, tick, reachable).map(|_| ())?;
    usable_aux(&img, ts, tick)
}

// ------------------------------------------------------------------------------------------------
// Part 2 — memory-mapped views vs Anchor (de)serialisation vs the harness decoders
// ------------------------------------------------------------------------------------------------

const N_VARIANTS: u8 = 6;

/// Field alphabet: every field of an image gets a distinct non-zero value, so that a getter reading the wrong
/// offset or width returns something else. Variants: 0 running byte counter, 1 MAX-k, 2 small k+1,
/// 3 top bit set (negative for signed fields), 4 multiplicative byte hash, 5 alternating 0xA5/0x5A with field tag.
struct Fill {
    variant: u8,
    k: usize,
    ctr: usize,
}
impl Fill {
    fn new(variant: u8, salt: usize) -> Fill {
        Fill { variant, k: salt, ctr: salt * 13 }
    }
    fn arr<const N: usize>(&mut self) -> [u8; N] {
        let k = self.k;
        self.k += 1;
        let mut o = [0u8; N];
        match self.variant {
            0 => {
                for b in o.iter_mut() {
                    *b = (self.ctr % 250) as u8 + 1;
                    self.ctr += 1;
                }
            }
            1 => {
                o = [0xFF; N];
                o[0] = 0xFF - (k % 200) as u8;
            }
            2 => o[0] = (k % 250) as u8 + 1,
            3 => {
                o[0] = (k % 250) as u8 + 1;
                o[N - 1] |= 0x80;
            }
            4 => {
                for (j, b) in o.iter_mut().enumerate() {
                    *b = ((k * 37 + j * 11 + 1) % 255) as u8 + 1;
                }
            }
            _ => {
                for (j, b) in o.iter_mut().enumerate() {
                    *b = if j % 2 == 0 { 0xA5 } else { 0x5A };
                }
                o[0] = (k % 250) as u8 + 1;
            }
        }
        o
    }
    fn u16(&mut self) -> u16 {
        u16::from_le_bytes(self.arr())
    }
    fn i32(&mut self) -> i32 {
        i32::from_le_bytes(self.arr())
    }
    fn u64(&mut self) -> u64 {
        u64::from_le_bytes(self.arr())
    }
    fn u128(&mut self) -> u128 {
        u128::from_le_bytes(self.arr())
    }
    fn i128(&mut self) -> i128 {
        i128::from_le_bytes(self.arr())
    }
    fn pk(&mut self) -> Pubkey {
        Pubkey::new_from_array(self.arr())
    }
}

fn whirlpool_image(f: &mut Fill, rewards_initialised: usize) -> Whirlpool {
    let mut w = Whirlpool {
        whirlpools_config: f.pk(),
        whirlpool_bump: f.arr(),
        tick_spacing: f.u16(),
        fee_tier_index_seed: f.arr(),
        fee_rate: f.u16(),
        protocol_fee_rate: f.u16(),
        liquidity: f.u128(),
        sqrt_price: f.u128(),
        tick_current_index: f.i32(),
        protocol_fee_owed_a: f.u64(),
        protocol_fee_owed_b: f.u64(),
        token_mint_a: f.pk(),
        token_vault_a: f.pk(),
        fee_growth_global_a: f.u128(),
        token_mint_b: f.pk(),
        token_vault_b: f.pk(),
        fee_growth_global_b: f.u128(),
        reward_last_updated_timestamp: f.u64(),
        reward_infos: [WhirlpoolRewardInfo::default(); 3],
    };
    for i in 0..3 {
        let init = i < rewards_initialised;
        w.reward_infos[i] = WhirlpoolRewardInfo {
            mint: if init { f.pk() } else { Pubkey::default() },
            vault: if init { f.pk() } else { Pubkey::default() },
            extension: f.arr(), // reward authority / extension segments: always populated
            emissions_per_second_x64: if init { f.u128() } else { 0 },
            growth_global_x64: if init { f.u128() } else { 0 },
        };
    }
    w
}

fn position_image(f: &mut Fill) -> Position {
    let mut p = Position {
        whirlpool: f.pk(),
        position_mint: f.pk(),
        liquidity: f.u128(),
        tick_lower_index: f.i32(),
        tick_upper_index: f.i32(),
        fee_growth_checkpoint_a: f.u128(),
        fee_owed_a: f.u64(),
        fee_growth_checkpoint_b: f.u128(),
        fee_owed_b: f.u64(),
        reward_infos: [PositionRewardInfo::default(); 3],
    };
    for i in 0..3 {
        p.reward_infos[i] = PositionRewardInfo { growth_inside_checkpoint: f.u128(), amount_owed: f.u64() };
    }
    p
}

fn tick_update_image(f: &mut Fill) -> TickUpdate {
    TickUpdate {
        initialized: true,
        liquidity_net: f.i128(),
        liquidity_gross: f.u128(),
        fee_growth_outside_a: f.u128(),
        fee_growth_outside_b: f.u128(),
        reward_growths_outside: [f.u128(), f.u128(), f.u128()],
    }
}

fn fixed_array_image(f: &mut Fill, start: i32) -> FixedTickArray {
    let mut ta = FixedTickArray::default();
    ta.start_tick_index = start;
    ta.whirlpool = f.pk();
    for i in 0..88 {
        // the program writes all-zero for an uninitialised tick; every third slot stays uninitialised
        if i % 3 != 2 {
            ta.ticks[i] = tick_update_image(f).into();
        }
    }
    ta
}

struct VCheck {
    n: u64,
    errs: Vec<String>,
}
impl VCheck {
    fn eq<T: PartialEq + std::fmt::Debug>(&mut self, what: &str, pino: T, anchor: T) {
        self.n += 1;
        if pino != anchor && self.errs.len() < 6 {
            self.errs.push(format!("{what}: pinocchio/other {pino:?} != anchor {anchor:?}"));
        }
    }
    fn bytes(&mut self, what: &str, pino: &[u8], anchor: &[u8]) {
        self.n += 1;
        if pino != anchor && self.errs.len() < 6 {
            let at = pino.iter().zip(anchor.iter()).position(|(a, b)| a != b).unwrap_or(pino.len().min(anchor.len()));
            self.errs.push(format!("{what}: images differ (len {} vs {}), first difference at byte {at}", pino.len(), anchor.len()));
        }
    }
    /// bytes outside `allowed` ranges must be unchanged between `before` and `after`
    fn untouched(&mut self, what: &str, before: &[u8], after: &[u8], allowed: &[(usize, usize)]) {
        self.n += 1;
        for i in 0..before.len().max(after.len()) {
            let same = before.get(i) == after.get(i);
            if !same && !allowed.iter().any(|(o, l)| i >= *o && i < o + l) {
                if self.errs.len() < 6 {
                    self.errs.push(format!("{what}: byte {i} outside the written fields changed"));
                }
                return;
            }
        }
    }
}

fn view_whirlpool(variant: u8, vc: &mut VCheck) {
    for n_init in [3usize, 1, 0] {
        let mut f = Fill::new(variant, n_init);
        let w = whirlpool_image(&mut f, n_init);
        let mut img = Vec::new();
        ser(&w, &mut img);
        vc.eq("whirlpool: size_of view vs serialized length", size_of::<MemoryMappedWhirlpool>(), img.len());
        vc.eq("whirlpool: Whirlpool::LEN", Whirlpool::LEN, img.len());
        vc.bytes("whirlpool discriminator", &MemoryMappedWhirlpool::DISCRIMINATOR, Whirlpool::DISCRIMINATOR);
        vc.bytes("whirlpool image discriminator", &img[..8], Whirlpool::DISCRIMINATOR);
        let v = v_wp(&img);
        vc.eq("whirlpool.tick_spacing", v.tick_spacing(), w.tick_spacing);
        vc.eq("whirlpool.liquidity", v.liquidity(), w.liquidity);
        vc.eq("whirlpool.sqrt_price", v.sqrt_price(), w.sqrt_price);
        vc.eq("whirlpool.tick_current_index", v.tick_current_index(), w.tick_current_index);
        vc.eq("whirlpool.token_mint_a", *v.token_mint_a(), w.token_mint_a.to_bytes());
        vc.eq("whirlpool.token_mint_b", *v.token_mint_b(), w.token_mint_b.to_bytes());
        vc.eq("whirlpool.token_vault_a", *v.token_vault_a(), w.token_vault_a.to_bytes());
        vc.eq("whirlpool.token_vault_b", *v.token_vault_b(), w.token_vault_b.to_bytes());
        vc.eq("whirlpool.fee_growth_global_a", v.fee_growth_global_a(), w.fee_growth_global_a);
        vc.eq("whirlpool.fee_growth_global_b", v.fee_growth_global_b(), w.fee_growth_global_b);
        vc.eq("whirlpool.reward_last_updated_timestamp", v.reward_last_updated_timestamp(), w.reward_last_updated_timestamp);
        for i in 0..3 {
            let (pr, ar) = (&v.reward_infos()[i], &w.reward_infos[i]);
            vc.eq(&format!("whirlpool.reward_infos[{i}].mint"), *pr.mint(), ar.mint.to_bytes());
            vc.eq(&format!("whirlpool.reward_infos[{i}].vault"), *pr.vault(), ar.vault.to_bytes());
            vc.eq(&format!("whirlpool.reward_infos[{i}].extension"), *pr.extension(), ar.extension);
            vc.eq(&format!("whirlpool.reward_infos[{i}].emissions_per_second_x64"), pr.emissions_per_second_x64(), ar.emissions_per_second_x64);
            vc.eq(&format!("whirlpool.reward_infos[{i}].growth_global_x64"), pr.growth_global_x64(), ar.growth_global_x64);
            vc.eq(&format!("whirlpool.reward_infos[{i}].initialized"), pr.initialized(), ar.initialized());
        }
        let ps: Vec<Vec<u8>> = v.seeds().iter().map(|s| s.to_vec()).collect();
        let as_: Vec<Vec<u8>> = w.seeds().iter().map(|s| s.to_vec()).collect();
        vc.eq("whirlpool.seeds", ps, as_);
        // third opinion
        let d = decode::pool(&img);
        vc.eq("decoder whirlpool.tick_spacing", d.tick_spacing, w.tick_spacing);
        vc.eq("decoder whirlpool.liquidity", d.liquidity, w.liquidity);
        vc.eq("decoder whirlpool.sqrt_price", d.sqrt_price, w.sqrt_price);
        vc.eq("decoder whirlpool.tick_current_index", d.tick_current_index, w.tick_current_index);
        vc.eq("decoder whirlpool.fee_rate", (d.fee_rate, d.protocol_fee_rate), (w.fee_rate, w.protocol_fee_rate));
        vc.eq("decoder whirlpool.protocol_fee_owed", (d.protocol_fee_owed_a, d.protocol_fee_owed_b), (w.protocol_fee_owed_a, w.protocol_fee_owed_b));
        vc.eq("decoder whirlpool.fee_growth_global", (d.fee_growth_global_a, d.fee_growth_global_b), (w.fee_growth_global_a, w.fee_growth_global_b));
        vc.eq("decoder whirlpool.mints/vaults", (d.token_mint_a, d.token_vault_a, d.token_mint_b, d.token_vault_b), (w.token_mint_a, w.token_vault_a, w.token_mint_b, w.token_vault_b));
        vc.eq("decoder whirlpool.config/bump/seed", (d.config, d.bump, d.fee_tier_index_seed), (w.whirlpools_config, w.whirlpool_bump[0], w.fee_tier_index_seed));
        vc.eq("decoder whirlpool.reward_last_updated_timestamp", d.reward_last_updated_timestamp, w.reward_last_updated_timestamp);
        for i in 0..3 {
            let (dr, ar) = (&d.reward_infos[i], &w.reward_infos[i]);
            vc.eq(
                &format!("decoder whirlpool.reward_infos[{i}]"),
                (dr.mint, dr.vault, dr.extension, dr.emissions_per_second_x64, dr.growth_global_x64),
                (ar.mint, ar.vault, ar.extension, ar.emissions_per_second_x64, ar.growth_global_x64),
            );
        }

        // the only Pinocchio writer of the pool: liquidity + reward growths + timestamp
        let mut g = Fill::new((variant + 1) % N_VARIANTS, 40 + n_init);
        let (liq, growth, ts) = (g.u128(), [g.u128(), g.u128(), g.u128()], g.u64());
        let mut pimg = img.clone();
        v_wp_mut(&mut pimg).update_liquidity_and_reward_growth_global(liq, &growth, ts);
        let mut aw = Whirlpool::try_deserialize(&mut &img[..]).expect("anchor deserialize whirlpool");
        let mut ri = aw.reward_infos;
        for i in 0..3 {
            ri[i].growth_global_x64 = growth[i];
        }
        aw.update_rewards_and_liquidity(ri, liq, ts);
        let mut aimg = Vec::new();
        ser(&aw, &mut aimg);
        vc.bytes("whirlpool after update_liquidity_and_reward_growth_global vs anchor update_rewards_and_liquidity", &pimg, &aimg);
        vc.untouched("whirlpool update", &img, &pimg, &[(49, 16), (261, 8), (269 + 112, 16), (269 + 128 + 112, 16), (269 + 256 + 112, 16)]);
        match Whirlpool::try_deserialize(&mut &pimg[..]) {
            Ok(back) => {
                vc.eq("anchor reads pinocchio-written liquidity", back.liquidity, liq);
                vc.eq("anchor reads pinocchio-written timestamp", back.reward_last_updated_timestamp, ts);
                for i in 0..3 {
                    vc.eq("anchor reads pinocchio-written growth", back.reward_infos[i].growth_global_x64, growth[i]);
                    vc.eq("reward mint untouched", back.reward_infos[i].mint, w.reward_infos[i].mint);
                    vc.eq("reward emissions untouched", back.reward_infos[i].emissions_per_second_x64, w.reward_infos[i].emissions_per_second_x64);
                }
                vc.eq("sqrt_price untouched", back.sqrt_price, w.sqrt_price);
                vc.eq("tick_current_index untouched", back.tick_current_index, w.tick_current_index);
            }
            Err(_) => vc.eq("anchor deserializes pinocchio-written whirlpool", false, true),
        }
    }
}

/// Anchor `Position::reset_position_range` needs an `Account<Whirlpool>`; build one over a serialized image.
fn anchor_reset(pos: &mut Position, wp_img: &[u8], lo: i32, hi: i32) -> Out<()> {
    let key = Pubkey::new_from_array([3; 32]);
    let owner = whirlpool::ID;
    let mut lamports = 1u64;
    let mut data = wp_img.to_vec();
    let r = guarded(|| {
        let info = anchor_lang::prelude::AccountInfo::new(&key, false, false, &mut lamports, &mut data[..], &owner, false, 0);
        let acc: anchor_lang::prelude::Account<Whirlpool> = anchor_lang::prelude::Account::try_from(&info)?;
        pos.reset_position_range(&acc, lo, hi)
    });
    a_out(r)
}

fn view_position(variant: u8, vc: &mut VCheck) -> u64 {
    let mut f = Fill::new(variant, 7);
    let p = position_image(&mut f);
    let mut img = Vec::new();
    ser(&p, &mut img);
    vc.eq("position: size_of view vs serialized length", size_of::<MemoryMappedPosition>(), img.len());
    vc.eq("position: Position::LEN", Position::LEN, img.len());
    vc.bytes("position discriminator", &MemoryMappedPosition::DISCRIMINATOR, Position::DISCRIMINATOR);
    let v = v_pos(&img);
    vc.eq("position.whirlpool", *v.whirlpool(), p.whirlpool.to_bytes());
    vc.eq("position.position_mint", *v.position_mint(), p.position_mint.to_bytes());
    vc.eq("position.liquidity", v.liquidity(), p.liquidity);
    vc.eq("position.tick_lower_index", v.tick_lower_index(), p.tick_lower_index);
    vc.eq("position.tick_upper_index", v.tick_upper_index(), p.tick_upper_index);
    vc.eq("position.fee_growth_checkpoint_a", v.fee_growth_checkpoint_a(), p.fee_growth_checkpoint_a);
    vc.eq("position.fee_owed_a", v.fee_owed_a(), p.fee_owed_a);
    vc.eq("position.fee_growth_checkpoint_b", v.fee_growth_checkpoint_b(), p.fee_growth_checkpoint_b);
    vc.eq("position.fee_owed_b", v.fee_owed_b(), p.fee_owed_b);
    for i in 0..3 {
        vc.eq(&format!("position.reward_infos[{i}].growth_inside_checkpoint"), v.reward_infos()[i].growth_inside_checkpoint(), p.reward_infos[i].growth_inside_checkpoint);
        vc.eq(&format!("position.reward_infos[{i}].amount_owed"), v.reward_infos()[i].amount_owed(), p.reward_infos[i].amount_owed);
    }
    let d = decode::position(&img);
    vc.eq("decoder position keys", (d.whirlpool, d.position_mint), (p.whirlpool, p.position_mint));
    vc.eq("decoder position.liquidity/ticks", (d.liquidity, d.tick_lower_index, d.tick_upper_index), (p.liquidity, p.tick_lower_index, p.tick_upper_index));
    vc.eq(
        "decoder position fees",
        (d.fee_growth_checkpoint_a, d.fee_owed_a, d.fee_growth_checkpoint_b, d.fee_owed_b),
        (p.fee_growth_checkpoint_a, p.fee_owed_a, p.fee_growth_checkpoint_b, p.fee_owed_b),
    );
    for i in 0..3 {
        vc.eq(
            &format!("decoder position.reward_infos[{i}]"),
            (d.reward_infos[i].growth_inside_checkpoint, d.reward_infos[i].amount_owed),
            (p.reward_infos[i].growth_inside_checkpoint, p.reward_infos[i].amount_owed),
        );
    }

    // update(): the writer used by every liquidity change
    let mut g = Fill::new((variant + 2) % N_VARIANTS, 90);
    let upd = PositionUpdate {
        liquidity: g.u128(),
        fee_growth_checkpoint_a: g.u128(),
        fee_owed_a: g.u64(),
        fee_growth_checkpoint_b: g.u128(),
        fee_owed_b: g.u64(),
        reward_infos: [
            PositionRewardInfo { growth_inside_checkpoint: g.u128(), amount_owed: g.u64() },
            PositionRewardInfo { growth_inside_checkpoint: g.u128(), amount_owed: g.u64() },
            PositionRewardInfo { growth_inside_checkpoint: g.u128(), amount_owed: g.u64() },
        ],
    };
    let mut pimg = img.clone();
    v_pos_mut(&mut pimg).update(&upd);
    let mut ap = Position::try_deserialize(&mut &img[..]).expect("anchor deserialize position");
    ap.update(&upd);
    let mut aimg = Vec::new();
    ser(&ap, &mut aimg);
    vc.bytes("position after update() vs anchor update()", &pimg, &aimg);
    vc.untouched("position update", &img, &pimg, &[(72, 16), (96, 120)]);
    match Position::try_deserialize(&mut &pimg[..]) {
        Ok(b) => {
            vc.eq("anchor reads pinocchio-written position.liquidity", b.liquidity, upd.liquidity);
            vc.eq("anchor reads pinocchio-written checkpoints", (b.fee_growth_checkpoint_a, b.fee_growth_checkpoint_b), (upd.fee_growth_checkpoint_a, upd.fee_growth_checkpoint_b));
            vc.eq("anchor reads pinocchio-written fee_owed", (b.fee_owed_a, b.fee_owed_b), (upd.fee_owed_a, upd.fee_owed_b));
            vc.eq("anchor reads pinocchio-written reward_infos", b.reward_infos, upd.reward_infos);
            vc.eq("position ticks untouched", (b.tick_lower_index, b.tick_upper_index), (p.tick_lower_index, p.tick_upper_index));
            vc.eq("position keys untouched", (b.whirlpool, b.position_mint), (p.whirlpool, p.position_mint));
        }
        Err(_) => vc.eq("anchor deserializes pinocchio-written position", false, true),
    }

    // reset_position_range (reposition): keep_owed=false is the Anchor instruction's rule; keep_owed=true is the same rule
    // with the owed amounts ignored by the emptiness test and preserved.
    let mut resets = 0u64;
    for ts in [64u16, 32768] {
        let mut wf = Fill::new(variant, 21);
        let mut w = whirlpool_image(&mut wf, 2);
        w.tick_spacing = ts;
        let mut wimg = Vec::new();
        ser(&w, &mut wimg);
        let ranges: [(i32, i32); 8] = [(-128, 128), (-6400, 64), (0, 64), (64, 64), (128, 64), (-65, 128), (-443648, 0), (-425984, 425984)];
        for (liq, owed_fee, owed_rw) in [(0u128, 0u64, 0u64), (5, 0, 0), (0, 9, 0), (0, 0, 9)] {
            for (cl, cu) in [(-128i32, 128i32), (-425984, 425984)] {
                for (lo, hi) in ranges {
                    for keep in [false, true] {
                        let mut q = p.clone();
                        q.liquidity = liq;
                        q.fee_owed_a = owed_fee;
                        q.fee_owed_b = 0;
                        for i in 0..3 {
                            q.reward_infos[i].amount_owed = if i == 1 { owed_rw } else { 0 };
                        }
                        q.tick_lower_index = cl;
                        q.tick_upper_index = cu;
                        let mut qimg = Vec::new();
                        ser(&q, &mut qimg);
                        let mut pq = qimg.clone();
                        let pr = p_out(guarded(|| v_pos_mut(&mut pq).reset_position_range(v_wp(&wimg), lo, hi, keep)));
                        // reference
                        let mut aq = q.clone();
                        if keep {
                            aq.fee_owed_a = 0;
                            aq.fee_owed_b = 0;
                            for i in 0..3 {
                                aq.reward_infos[i].amount_owed = 0;
                            }
                        }
                        let ar = anchor_reset(&mut aq, &wimg, lo, hi);
                        if keep {
                            aq.fee_owed_a = q.fee_owed_a;
                            aq.fee_owed_b = q.fee_owed_b;
                            for i in 0..3 {
                                aq.reward_infos[i].amount_owed = q.reward_infos[i].amount_owed;
                            }
                        }
                        let what = format!("reset_position_range ts={ts} liq={liq} owed=({owed_fee},{owed_rw}) cur=({cl},{cu}) new=({lo},{hi}) keep_owed={keep}");
                        vc.eq(&format!("{what}: outcome"), pr.tag(), ar.tag());
                        let mut aimg = Vec::new();
                        ser(&aq, &mut aimg);
                        if matches!(ar, Out::Ok(())) {
                            vc.bytes(&format!("{what}: image"), &pq, &aimg);
                        } else {
                            vc.bytes(&format!("{what}: image unchanged on failure"), &pq, &qimg);
                        }
                        resets += 1;
                    }
                }
            }
        }
    }
    resets
}

fn view_fixed_array(variant: u8, vc: &mut VCheck) {
    for (ts, start) in [(1u16, 0i32), (64, -5632), (3, -443784)] {
        let mut f = Fill::new(variant, 30);
        let ta = fixed_array_image(&mut f, start);
        let img = fixed_image(&ta);
        vc.eq("fixed tick array: size_of view", size_of::<MemoryMappedFixedTickArray>(), img.len());
        vc.eq("fixed tick array: FixedTickArray::LEN", FixedTickArray::LEN, img.len());
        let pv = v_ta(&img);
        vc.eq("fixed.start_tick_index", pv.start_tick_index(), start);
        vc.eq("fixed.whirlpool", *pv.whirlpool(), ta.whirlpool.to_bytes());
        vc.eq("fixed.is_variable_size", pv.is_variable_size(), false);
        let dec = decode::tick_array(&img).expect("decoder: fixed tick array");
        vc.eq("decoder fixed header", (dec.start_tick_index, dec.whirlpool), (start, ta.whirlpool));
        for i in 0..88usize {
            let idx = start + i as i32 * ts as i32;
            let at = ta.ticks[i];
            vc.eq(&format!("decoder fixed tick[{i}]"), d_tick_tuple(&dec.ticks[i]), a_tick_tuple(&at));
            if idx < MIN_TICK_INDEX || idx > MAX_TICK_INDEX {
                continue;
            }
            match pv.get_tick(idx, ts) {
                Ok(t) => vc.eq(&format!("fixed tick[{i}] getters"), p_tick_tuple(t), a_tick_tuple(&at)),
                Err(_) => vc.eq(&format!("fixed get_tick({idx})"), false, true),
            }
            // writer: update_tick with an initialised and with the default (de-initialising) update
            let mut g = Fill::new((variant + 3) % N_VARIANTS, 200 + i);
            for upd in [tick_update_image(&mut g), TickUpdate::default()] {
                let mut pimg = img.clone();
                let mut aimg = img.clone();
                let pr = p_out(guarded(|| v_ta_mut(&mut pimg).update_tick(idx, ts, &to_p_upd(&upd))));
                let ar = a_out(guarded(|| a_ta_mut(&mut aimg).update_tick(idx, ts, &upd)));
                vc.eq(&format!("fixed update_tick[{i}] outcome"), pr.tag(), ar.tag());
                vc.bytes(&format!("fixed update_tick[{i}] image"), &pimg, &aimg);
                vc.untouched(&format!("fixed update_tick[{i}]"), &img, &pimg, &[(12 + i * 113, 113)]);
            }
        }
    }
}

/// light (C13 owns the dynamic codec): a fixed op sequence applied through both loaders, compared after every step
fn view_dynamic_array(variant: u8, vc: &mut VCheck) {
    let wp = Pubkey::new_from_array([0x44; 32]);
    for (ts, start) in [(1u16, 0i32), (64, -5632)] {
        let mut pimg = dyn_image(start, &wp);
        let mut aimg = pimg.clone();
        let mut f = Fill::new(variant, 60);
        let ops: [(usize, bool); 14] =
            [(0, true), (87, true), (5, true), (64, true), (63, true), (5, true), (0, false), (87, false), (86, true), (1, true), (64, false), (5, false), (63, false), (40, false)];
        for (step, (slot, init)) in ops.iter().enumerate() {
            let idx = start + *slot as i32 * ts as i32;
            let upd = if *init { tick_update_image(&mut f) } else { TickUpdate::default() };
            let pr = p_out(guarded(|| v_ta_mut(&mut pimg).update_tick(idx, ts, &to_p_upd(&upd))));
            let ar = a_out(guarded(|| a_ta_mut(&mut aimg).update_tick(idx, ts, &upd)));
            vc.eq(&format!("dynamic step {step} update_tick outcome"), pr.tag(), ar.tag());
            vc.eq(&format!("dynamic step {step} bitmap"), dyn_bitmap(&pimg), dyn_bitmap(&aimg));
            vc.bytes(&format!("dynamic step {step} image (used length)"), ta_state(&pimg), ta_state(&aimg));
            let used = ta_state(&aimg);
            match decode::tick_array(used) {
                Ok(dec) => {
                    let (pv, av) = (v_ta(&pimg), a_ta(&aimg));
                    vc.eq("dynamic header", (pv.start_tick_index(), pv.whirlpool().to_vec(), pv.is_variable_size()), (av.start_tick_index(), av.whirlpool().to_bytes().to_vec(), true));
                    for i in 0..88usize {
                        let ti = start + i as i32 * ts as i32;
                        let at = av.get_tick(ti, ts);
                        let pt = pv.get_tick(ti, ts);
                        match (pt, at) {
                            (Ok(p), Ok(a)) => {
                                vc.eq(&format!("dynamic step {step} tick[{i}]"), p_tick_tuple(p), a_tick_tuple(&a));
                                vc.eq(&format!("decoder dynamic step {step} tick[{i}]"), d_tick_tuple(&dec.ticks[i]), a_tick_tuple(&a));
                            }
                            (p, a) => vc.eq(&format!("dynamic step {step} get_tick[{i}] outcome"), p.is_ok(), a.is_ok()),
                        }
                    }
                }
                Err(e) => vc.eq(&format!("decoder accepts dynamic image at step {step}: {e}"), false, true),
            }
        }
    }
}

struct ViewStat {
    comparisons: u64,
    resets: u64,
    viol: Vec<Viol>,
}

fn views_variant(variant: u8) -> (u64, u64, Vec<String>) {
    let mut vc = VCheck { n: 0, errs: vec![] };
    view_whirlpool(variant, &mut vc);
    let resets = view_position(variant, &mut vc);
    view_fixed_array(variant, &mut vc);
    view_dynamic_array(variant, &mut vc);
    (vc.n, resets, vc.errs)
}

fn run_views() -> ViewStat {
    let res: Vec<(u8, (u64, u64, Vec<String>))> = (0..N_VARIANTS).into_par_iter().map(|v| (v, views_variant(v))).collect();
    let mut st = ViewStat { comparisons: 0, resets: 0, viol: vec![] };
    for (v, (n, resets, errs)) in res {
        st.comparisons += n;
        st.resets += resets;
        if let Some(e) = errs.first() {
            st.viol.push((format!("fn_view:{v}:{}", e.split(':').next().unwrap_or("")), errs.join(" | "), json!({"kind": "fn_view", "variant": v})));
        }
    }
    st
}

fn replay_view(case: &Value) -> Result<(), String> {
    let v = case["variant"].as_u64().ok_or("variant")? as u8;
    let (_, _, errs) = views_variant(v);
    if errs.is_empty() {
        Ok(())
    } else {
        Err(errs.join(" | "))
    }
}

// ------------------------------------------------------------------------------------------------
// Part 3 — modify-liquidity differential over a structured state alphabet
// ------------------------------------------------------------------------------------------------

#[derive(Clone, Copy, PartialEq, Debug)]
enum Kind {
    Fixed,
    Dyn,
}
#[derive(Clone, Copy, Debug)]
struct Layout {
    name: &'static str,
    ts: u16,
    lower: i32,
    upper: i32,
    start_l: i32,
    start_u: i32,
    kind_l: Kind,
    kind_u: Kind,
    /// layouts whose lookup must fail (wrong array / unusable tick) get a reduced inner product
    failing: bool,
}
const fn lay(name: &'static str, ts: u16, lower: i32, upper: i32, start_l: i32, start_u: i32, kind_l: Kind, kind_u: Kind, failing: bool) -> Layout {
    Layout { name, ts, lower, upper, start_l, start_u, kind_l, kind_u, failing }
}
use Kind::{Dyn, Fixed};
const LAYOUTS: [Layout; 14] = [
    lay("ts64 fixed, one array", 64, 64, 640, 0, 0, Fixed, Fixed, false),
    lay("ts64 fixed, two arrays", 64, -128, 128, -5632, 0, Fixed, Fixed, false),
    lay("ts64 dynamic, one array", 64, 64, 640, 0, 0, Dyn, Dyn, false),
    lay("ts64 dynamic, two arrays", 64, -128, 128, -5632, 0, Dyn, Dyn, false),
    lay("ts64 fixed lower / dynamic upper", 64, -128, 128, -5632, 0, Fixed, Dyn, false),
    lay("ts1 fixed, slots 0 and 87", 1, 0, 87, 0, 0, Fixed, Fixed, false),
    lay("ts32768 full range, fixed", 32768, -425984, 425984, -2883584, 0, Fixed, Fixed, false),
    lay("ts32768 full range, dynamic", 32768, -425984, 425984, -2883584, 0, Dyn, Dyn, false),
    lay("ts64 dynamic lower / fixed upper", 64, -128, 128, -5632, 0, Dyn, Fixed, false),
    lay("ts3 extreme usable ticks, fixed", 3, -443634, 443634, -443784, 443520, Fixed, Fixed, false),
    lay("wrong lower array", 64, -128, 128, 0, 0, Fixed, Fixed, true),
    lay("lower tick not a multiple of the spacing", 64, 65, 640, 0, 0, Fixed, Fixed, true),
    lay("wrong upper array (dynamic)", 64, -128, 128, -5632, 5632, Dyn, Dyn, true),
    lay("lower tick below MIN_TICK_INDEX in the edge array", 4, -443640, 0, -443872, 0, Fixed, Fixed, true),
];

const POOL_LIQ: [u128; 4] = [0, 1, 1 << 64, U128M - 3];
const FEE_GROWTH: [(u128, u128); 4] = [(0, 1), (1, 1 << 64), (1 << 64, U128M - 5), (U128M - 5, 0)];
const T0: u64 = 1_700_000_000;
/// (reward_last_updated_timestamp, timestamp)
const TIMES: [(u64, u64); 6] = [(T0, T0), (T0, T0 + 1), (T0, T0 + 86_400), (T0, T0 - 1), (0, u64::MAX), (u64::MAX, u64::MAX)];
const POS_LIQ: [u128; 4] = [0, 1, 1_000_000_000, 1 << 100];
const N_CKPT: usize = 3;
const N_OWED: usize = 2;
const N_TICK_STATES: usize = 5;
const N_REWARD_CFG: usize = 9;
/// index of the reward configuration no program execution can produce (uninitialised slot with emissions)
const REWARD_CFG_UNREACHABLE: usize = 6;

fn reward_cfg(i: usize) -> [WhirlpoolRewardInfo; 3] {
    let init = |n: u8, e: u128, g: u128| WhirlpoolRewardInfo {
        mint: Pubkey::new_from_array([0x60 + n; 32]),
        vault: Pubkey::new_from_array([0x70 + n; 32]),
        extension: [0x80 + n; 32],
        emissions_per_second_x64: e,
        growth_global_x64: g,
    };
    let un = |n: u8, e: u128, g: u128| WhirlpoolRewardInfo {
        mint: Pubkey::default(),
        vault: Pubkey::default(),
        extension: [0x80 + n; 32],
        emissions_per_second_x64: e,
        growth_global_x64: g,
    };
    match i {
        0 => [un(0, 0, 0), un(1, 0, 0), un(2, 0, 0)],
        1 => [init(0, 1 << 64, 0), un(1, 0, 0), un(2, 0, 0)],
        2 => [init(0, U128M, U128M - 9), init(1, 0, 5), un(2, 0, 0)],
        3 => [init(0, 1 << 64, 0), init(1, 3 << 63, U128M - 3), init(2, 1 << 127, 1 << 64)],
        4 => [init(0, 0, 11), init(1, 0, 1 << 100), init(2, 0, U128M)],
        5 => [init(0, 1, 1 << 64), init(1, 1 << 64, U128M - (1 << 64)), init(2, U128M, 0)],
        // the interval of a LOWER index is dropped (elapsed time x rate beyond 128 bits for any interval of two seconds or more)
        // while higher indexes emit at ordinary rates: their growth must advance all the same
        7 => [init(0, U128M, 3), init(1, 1 << 64, 7), init(2, 5 << 64, U128M - 1)],
        // a day at 2^111 per second: the bit lengths of the two factors add up to 129 and the product (1.3 x 2^127) still fits
        // 128 bits — the interval must be credited, an over-cautious overflow test drops it
        8 => [init(0, 1 << 111, 5), init(1, 3 << 63, 9), un(2, 0, 0)],
        _ => [un(0, 1 << 64, 7), init(1, 1 << 64, 0), un(2, 5, 0)],
    }
}

fn checkpoints(i: usize) -> (u128, u128, [u128; 3]) {
    match i {
        0 => (0, 0, [0, 0, 0]),
        1 => (U128M - 7, U128M - 11, [U128M - 13, U128M - 17, U128M - 19]),
        _ => ((1 << 63) + 1, (1 << 63) + 2, [(1 << 63) + 3, (1 << 63) + 4, (1 << 63) + 5]),
    }
}
fn owed(i: usize) -> (u64, u64, [u64; 3]) {
    match i {
        0 => (0, 0, [0, 0, 0]),
        _ => (u64::MAX - 1, u64::MAX - 2, [u64::MAX - 3, u64::MAX - 4, u64::MAX - 5]),
    }
}

fn tick_state(s: usize, upper: bool, lp: u128) -> Tick {
    let sg: i128 = if upper { -1 } else { 1 };
    match s {
        0 => Tick::default(),
        // the position is the only user of the tick: removing the position's liquidity de-initialises it
        1 => Tick { initialized: true, liquidity_gross: lp.max(1), liquidity_net: sg * lp.max(1) as i128, ..Default::default() },
        // shared tick, outside growths near the maximum (wrap-around in growth-inside)
        2 => Tick {
            initialized: true,
            liquidity_gross: lp + (1 << 64),
            liquidity_net: -sg * (1i128 << 70),
            fee_growth_outside_a: U128M - 21,
            fee_growth_outside_b: U128M - 22,
            reward_growths_outside: [U128M - 23, U128M - 24, U128M - 25],
        },
        // at the edge of the liquidity domains (gross overflow / net error on increase)
        3 => Tick {
            initialized: true,
            liquidity_gross: U128M - 2,
            liquidity_net: if upper { i128::MIN + 2 } else { i128::MAX - 2 },
            fee_growth_outside_a: (1 << 64) + 31,
            fee_growth_outside_b: (1 << 64) + 32,
            reward_growths_outside: [(1 << 64) + 33, (1 << 64) + 34, (1 << 64) + 35],
        },
        _ => Tick {
            initialized: true,
            liquidity_gross: lp + 1_000_000_000,
            liquidity_net: sg * 5,
            fee_growth_outside_a: 1,
            fee_growth_outside_b: 2,
            reward_growths_outside: [3, 4, 5],
        },
    }
}
fn decoy(i: usize) -> Tick {
    let k = i as u128 + 1;
    Tick {
        initialized: true,
        liquidity_net: -(k as i128) * 1000,
        liquidity_gross: k * 1000,
        fee_growth_outside_a: k * 7 + (1 << 90),
        fee_growth_outside_b: k * 9 + (1 << 91),
        reward_growths_outside: [k * 11, k * 13, k * 17],
    }
}

fn deltas(lp: u128) -> Vec<i128> {
    let l = lp as i128;
    let mut v = vec![0, 1, -1, 1_000_000_000, -1_000_000_000, i128::MAX, -l, -(l + 1), i128::MIN, 1i128 << 64];
    let mut out: Vec<i128> = vec![];
    for d in v.drain(..) {
        if !out.contains(&d) {
            out.push(d);
        }
    }
    out
}

fn cur_ticks(l: &Layout) -> Vec<i32> {
    let ts = l.ts as i32;
    let mid = l.lower + (l.upper - l.lower) / 2 + 1;
    let mut out = vec![];
    for c in [l.lower - ts, l.lower - 1, l.lower, mid, l.upper - 1, l.upper, l.upper + ts] {
        let c = c.clamp(MIN_TICK_INDEX, MAX_TICK_INDEX);
        if !out.contains(&c) {
            out.push(c);
        }
    }
    out
}

const WP_KEY: [u8; 32] = [0x17; 32];

fn base_whirlpool(ts: u16) -> Whirlpool {
    Whirlpool {
        whirlpools_config: Pubkey::new_from_array([0x11; 32]),
        whirlpool_bump: [254],
        tick_spacing: ts,
        // adaptive-fee style pool: the fee tier index differs from the tick spacing (a view mixing the two up must show)
        fee_tier_index_seed: (ts ^ 0x0400).to_le_bytes(),
        fee_rate: 3000,
        protocol_fee_rate: 300,
        liquidity: 0,
        sqrt_price: 1 << 64,
        tick_current_index: 0,
        protocol_fee_owed_a: 0x0102030405060708,
        protocol_fee_owed_b: 0x1112131415161718,
        token_mint_a: Pubkey::new_from_array([0x21; 32]),
        token_vault_a: Pubkey::new_from_array([0x22; 32]),
        fee_growth_global_a: 0,
        token_mint_b: Pubkey::new_from_array([0x23; 32]),
        token_vault_b: Pubkey::new_from_array([0x24; 32]),
        fee_growth_global_b: 0,
        reward_last_updated_timestamp: 0,
        reward_infos: reward_cfg(0),
    }
}

fn build_array(kind: Kind, start: i32, ts: u16, targets: &[(i32, Tick)]) -> Vec<u8> {
    let wp = Pubkey::new_from_array(WP_KEY);
    let slot_of = |tick: i32| -> Option<usize> {
        let d = tick as i64 - start as i64;
        if d >= 0 && d % ts as i64 == 0 && d / (ts as i64) < 88 {
            Some((d / ts as i64) as usize)
        } else {
            None
        }
    };
    let tslots: Vec<(usize, Tick)> = targets.iter().filter_map(|(t, v)| slot_of(*t).map(|s| (s, *v))).collect();
    match kind {
        Kind::Fixed => {
            let mut ta = FixedTickArray::default();
            ta.start_tick_index = start;
            ta.whirlpool = wp;
            for i in 0..88 {
                ta.ticks[i] = decoy(i);
            }
            for (s, v) in &tslots {
                ta.ticks[*s] = *v;
            }
            fixed_image(&ta)
        }
        Kind::Dyn => {
            let mut b = dyn_image(start, &wp);
            let mut want: BTreeMap<usize, Tick> = BTreeMap::new();
            for (s, _) in &tslots {
                for d in [s.wrapping_sub(1), s + 1] {
                    if d < 88 {
                        want.insert(d, decoy(d));
                    }
                }
            }
            want.insert(0, decoy(0));
            want.insert(87, decoy(87));
            for (s, v) in &tslots {
                want.insert(*s, *v);
            }
            // written slot by slot through the real Anchor codec, with a spacing-1 addressing of the slots
            let keep = start;
            b[8..12].copy_from_slice(&0i32.to_le_bytes());
            for (s, v) in want {
                if v.initialized {
                    DynamicTickArrayLoader::load_mut(&mut b[8..]).update_tick(s as i32, 1, &TickUpdate::from(v)).expect("anchor dynamic init");
                }
            }
            b[8..12].copy_from_slice(&keep.to_le_bytes());
            b
        }
    }
}

/// everything that is fixed while the pool fields and the delta vary
struct Outer {
    li: usize,
    tl: usize,
    tu: usize,
    pl: usize,
    ck: usize,
    ow: usize,
    layout: Layout,
    pos: Position,
    pbuf: Vec<u8>,
    buf_l: Vec<u8>,
    /// None: lower and upper tick live in the same account
    buf_u: Option<Vec<u8>>,
}

fn build_outer(li: usize, tl: usize, tu: usize, pl: usize, ck: usize, ow: usize) -> Outer {
    let layout = LAYOUTS[li];
    let lp = POS_LIQ[pl];
    let (ca, cb, cr) = checkpoints(ck);
    let (oa, ob, or) = owed(ow);
    let pos = Position {
        whirlpool: Pubkey::new_from_array(WP_KEY),
        position_mint: Pubkey::new_from_array([0x31; 32]),
        liquidity: lp,
        tick_lower_index: layout.lower,
        tick_upper_index: layout.upper,
        fee_growth_checkpoint_a: ca,
        fee_owed_a: oa,
        fee_growth_checkpoint_b: cb,
        fee_owed_b: ob,
        reward_infos: [
            PositionRewardInfo { growth_inside_checkpoint: cr[0], amount_owed: or[0] },
            PositionRewardInfo { growth_inside_checkpoint: cr[1], amount_owed: or[1] },
            PositionRewardInfo { growth_inside_checkpoint: cr[2], amount_owed: or[2] },
        ],
    };
    let mut pbuf = Vec::new();
    ser(&pos, &mut pbuf);
    let tlo = (layout.lower, tick_state(tl, false, lp));
    let tup = (layout.upper, tick_state(tu, true, lp));
    let same = layout.start_l == layout.start_u && layout.kind_l == layout.kind_u;
    let (buf_l, buf_u) = if same {
        (build_array(layout.kind_l, layout.start_l, layout.ts, &[tlo, tup]), None)
    } else {
        (build_array(layout.kind_l, layout.start_l, layout.ts, &[tlo]), Some(build_array(layout.kind_u, layout.start_u, layout.ts, &[tup])))
    };
    Outer { li, tl, tu, pl, ck, ow, layout, pos, pbuf, buf_l, buf_u }
}

#[derive(Default)]
struct Scratch {
    a_l: Vec<u8>,
    a_u: Vec<u8>,
    p_l: Vec<u8>,
    p_u: Vec<u8>,
    p_w: Vec<u8>,
    p_p: Vec<u8>,
    a_w: Vec<u8>,
    a_p: Vec<u8>,
}

#[derive(Default, Clone, Copy)]
struct Flags {
    ok: bool,
    err: Option<u64>,
    panic_both: bool,
    in_range: bool,
    below: bool,
    above: bool,
    tick_init: bool,
    tick_deinit: bool,
    size_inc: bool,
    size_dec: bool,
    rent_to_array: bool,
    rent_to_position: bool,
    reward_advanced: bool,
    reward_overflow_dropped: bool,
    fee_wrap: bool,
    fees_credited: bool,
    pool_liq_changed: bool,
}

/// One differential evaluation. Err(detail) = the two implementations disagree.
fn eval_modify(o: &Outer, wp: &Whirlpool, wbuf: &[u8], delta: i128, now: u64, sc: &mut Scratch) -> Result<Flags, String> {
    let mut fl = Flags::default();
    let bu = o.buf_u.as_ref().unwrap_or(&o.buf_l);
    let a = a_out(guarded(|| calculate_modify_liquidity(wp, &o.pos, a_ta(&o.buf_l), a_ta(bu), delta, now)));
    let p = p_out(guarded(|| pl::pino_calculate_modify_liquidity(v_wp(wbuf), v_pos(&o.pbuf), v_ta(&o.buf_l), v_ta(bu), delta, now)));
    let c = wp.tick_current_index;
    fl.below = c < o.layout.lower;
    fl.above = c >= o.layout.upper;
    fl.in_range = !fl.below && !fl.above;
    let (au, pu) = match (a, p) {
        (Out::Ok(au), Out::Ok(pu)) => (au, pu),
        (Out::Err(x), Out::Err(y)) => {
            if x != y {
                return Err(format!("both fail but with different codes: anchor {x}, pinocchio {y}"));
            }
            fl.err = Some(x);
            return Ok(fl);
        }
        (Out::Panic, Out::Panic) => {
            fl.panic_both = true;
            return Ok(fl);
        }
        (a, p) => return Err(format!("outcome differs: anchor {}, pinocchio {}", a.tag(), p.tag())),
    };
    fl.ok = true;
    let mut diffs: Vec<String> = vec![];
    if au.whirlpool_liquidity != pu.whirlpool_liquidity {
        diffs.push(format!("whirlpool_liquidity anchor {} pinocchio {}", au.whirlpool_liquidity, pu.whirlpool_liquidity));
    }
    if a_upd_tuple(&au.tick_lower_update) != p_upd_tuple(&pu.tick_lower_update) {
        diffs.push(format!("tick_lower_update anchor {:?} pinocchio {:?}", a_upd_tuple(&au.tick_lower_update), p_upd_tuple(&pu.tick_lower_update)));
    }
    if a_upd_tuple(&au.tick_upper_update) != p_upd_tuple(&pu.tick_upper_update) {
        diffs.push(format!("tick_upper_update anchor {:?} pinocchio {:?}", a_upd_tuple(&au.tick_upper_update), p_upd_tuple(&pu.tick_upper_update)));
    }
    for i in 0..3 {
        if au.reward_infos[i].growth_global_x64 != pu.next_reward_growth_global[i] {
            diffs.push(format!("reward growth[{i}] anchor {} pinocchio {}", au.reward_infos[i].growth_global_x64, pu.next_reward_growth_global[i]));
        }
    }
    if au.position_update != pu.position_update {
        diffs.push(format!("position_update anchor {:?} pinocchio {:?}", au.position_update, pu.position_update));
    }
    if au.tick_array_lower_update.transfer_rent != pu.tick_array_lower_update.transfer_rent
        || au.tick_array_lower_update.size_update != pu.tick_array_lower_update.size_update
    {
        diffs.push(format!("tick_array_lower_update anchor {:?} pinocchio {:?}", au.tick_array_lower_update, pu.tick_array_lower_update));
    }
    if au.tick_array_upper_update.transfer_rent != pu.tick_array_upper_update.transfer_rent
        || au.tick_array_upper_update.size_update != pu.tick_array_upper_update.size_update
    {
        diffs.push(format!("tick_array_upper_update anchor {:?} pinocchio {:?}", au.tick_array_upper_update, pu.tick_array_upper_update));
    }
    if !diffs.is_empty() {
        return Err(diffs.join("; "));
    }

    // fee/reward-only entry points (same core with delta 0)
    if delta == 0 {
        let a2 = a_out(guarded(|| calculate_fee_and_reward_growths(wp, &o.pos, a_ta(&o.buf_l), a_ta(bu), now)));
        let p2 = p_out(guarded(|| pl::pino_calculate_fee_and_reward_growths(v_wp(wbuf), v_pos(&o.pbuf), v_ta(&o.buf_l), v_ta(bu), now)));
        match (a2, p2) {
            (Out::Ok((apu, ari)), Out::Ok((ppu, pg))) => {
                if apu != ppu || (0..3).any(|i| ari[i].growth_global_x64 != pg[i]) {
                    return Err("calculate_fee_and_reward_growths: outputs differ".into());
                }
            }
            (a2, p2) => return Err(format!("calculate_fee_and_reward_growths: anchor {}, pinocchio {}", a2.tag(), p2.tag())),
        }
    }

    // guards
    use whirlpool::manager::tick_array_manager::{TickArrayRentTransfer as RT, TickArraySizeUpdate as SU};
    let (tl0, tu0) = (tick_state(o.tl, false, o.pos.liquidity), tick_state(o.tu, true, o.pos.liquidity));
    fl.tick_init = (!tl0.initialized && au.tick_lower_update.initialized) || (!tu0.initialized && au.tick_upper_update.initialized);
    fl.tick_deinit = (tl0.initialized && !au.tick_lower_update.initialized) || (tu0.initialized && !au.tick_upper_update.initialized);
    fl.size_inc = au.tick_array_lower_update.size_update == SU::Increase || au.tick_array_upper_update.size_update == SU::Increase;
    fl.size_dec = au.tick_array_lower_update.size_update == SU::Decrease || au.tick_array_upper_update.size_update == SU::Decrease;
    fl.rent_to_array = au.tick_array_lower_update.transfer_rent == RT::TransferToTickArray;
    fl.rent_to_position = au.tick_array_lower_update.transfer_rent == RT::TransferToPosition;
    fl.reward_advanced = (0..3).any(|i| au.reward_infos[i].growth_global_x64 != wp.reward_infos[i].growth_global_x64);
    fl.reward_overflow_dropped = wp.liquidity != 0
        && now > wp.reward_last_updated_timestamp
        && (0..3).any(|i| wp.reward_infos[i].initialized() && ((now - wp.reward_last_updated_timestamp) as u128).checked_mul(wp.reward_infos[i].emissions_per_second_x64).is_none());
    fl.fee_wrap = au.position_update.fee_growth_checkpoint_a > wp.fee_growth_global_a || au.position_update.fee_growth_checkpoint_b > wp.fee_growth_global_b;
    fl.fees_credited = au.position_update.fee_owed_a != o.pos.fee_owed_a || au.position_update.fee_owed_b != o.pos.fee_owed_b;
    fl.pool_liq_changed = au.whirlpool_liquidity != wp.liquidity;

    // write-back: sync_modify_liquidity_values on private copies, then compare the account images
    let cp = |dst: &mut Vec<u8>, src: &[u8]| {
        dst.clear();
        dst.extend_from_slice(src);
    };
    cp(&mut sc.a_l, &o.buf_l);
    cp(&mut sc.p_l, &o.buf_l);
    if let Some(b) = &o.buf_u {
        cp(&mut sc.a_u, b);
        cp(&mut sc.p_u, b);
    }
    cp(&mut sc.p_w, wbuf);
    cp(&mut sc.p_p, &o.pbuf);
    let mut awp = wp.clone();
    let mut apos = o.pos.clone();
    let two = o.buf_u.is_some();
    let (sa_l, sa_u) = (&mut sc.a_l, &mut sc.a_u);
    let ra = a_out(guarded(|| {
        let upper: Option<&mut dyn TickArrayType> = if two { Some(a_ta_mut(sa_u)) } else { None };
        sync_modify_liquidity_values(&mut awp, &mut apos, a_ta_mut(sa_l), upper, &au, now)
    }));
    let (sp_l, sp_u, sp_w, sp_p) = (&mut sc.p_l, &mut sc.p_u, &mut sc.p_w, &mut sc.p_p);
    let rp = p_out(guarded(|| {
        let upper: Option<&mut dyn PTickArray> = if two { Some(v_ta_mut(sp_u)) } else { None };
        pl::pino_sync_modify_liquidity_values(v_wp_mut(sp_w), v_pos_mut(sp_p), v_ta_mut(sp_l), upper, &pu, now)
    }));
    if ra.tag() != rp.tag() {
        return Err(format!("sync_modify_liquidity_values: anchor {}, pinocchio {}", ra.tag(), rp.tag()));
    }
    if matches!(ra, Out::Ok(())) {
        ser(&awp, &mut sc.a_w);
        ser(&apos, &mut sc.a_p);
        if sc.a_w != sc.p_w {
            let at = sc.a_w.iter().zip(sc.p_w.iter()).position(|(x, y)| x != y);
            return Err(format!("whirlpool image after sync differs at byte {at:?}"));
        }
        if sc.a_p != sc.p_p {
            let at = sc.a_p.iter().zip(sc.p_p.iter()).position(|(x, y)| x != y);
            return Err(format!("position image after sync differs at byte {at:?}"));
        }
        if ta_state(&sc.a_l) != ta_state(&sc.p_l) {
            let at = ta_state(&sc.a_l).iter().zip(ta_state(&sc.p_l).iter()).position(|(x, y)| x != y);
            return Err(format!("lower tick array image after sync differs (len {} vs {}) at byte {at:?}", ta_state(&sc.a_l).len(), ta_state(&sc.p_l).len()));
        }
        if two && ta_state(&sc.a_u) != ta_state(&sc.p_u) {
            let at = ta_state(&sc.a_u).iter().zip(ta_state(&sc.p_u).iter()).position(|(x, y)| x != y);
            return Err(format!("upper tick array image after sync differs (len {} vs {}) at byte {at:?}", ta_state(&sc.a_u).len(), ta_state(&sc.p_u).len()));
        }
    }
    Ok(fl)
}

#[derive(Default, Clone)]
struct MStat {
    evals: u64,
    ok: u64,
    err_agreed: u64,
    panic_agreed: u64,
    unreachable_evals: u64,
    unreachable_div: u64,
    in_range: u64,
    below: u64,
    above: u64,
    tick_init: u64,
    tick_deinit: u64,
    size_inc: u64,
    size_dec: u64,
    rent_to_array: u64,
    rent_to_position: u64,
    reward_advanced: u64,
    reward_overflow_dropped: u64,
    fee_wrap: u64,
    fees_credited: u64,
    pool_liq_changed: u64,
    dyn_ok: u64,
    errs: BTreeMap<u64, u64>,
    viol: Vec<Viol>,
    samples: Vec<Value>,
}
impl MStat {
    fn merge(mut self, o: MStat) -> MStat {
        macro_rules! add { ($($f:ident),*) => { $( self.$f += o.$f; )* } }
        add!(
            evals, ok, err_agreed, panic_agreed, unreachable_evals, unreachable_div, in_range, below, above, tick_init, tick_deinit, size_inc, size_dec,
            rent_to_array, rent_to_position, reward_advanced, reward_overflow_dropped, fee_wrap, fees_credited, pool_liq_changed, dyn_ok
        );
        for (k, v) in o.errs {
            *self.errs.entry(k).or_insert(0) += v;
        }
        for v in o.viol {
            if self.viol.len() < 4 {
                self.viol.push(v);
            }
        }
        for s in o.samples {
            if self.samples.len() < 3 {
                self.samples.push(s);
            }
        }
        self
    }
    fn take(&mut self, fl: &Flags) {
        macro_rules! cnt { ($($f:ident),*) => { $( if fl.$f { self.$f += 1; } )* } }
        cnt!(ok, in_range, below, above, tick_init, tick_deinit, size_inc, size_dec, rent_to_array, rent_to_position, reward_advanced, reward_overflow_dropped, fee_wrap, fees_credited, pool_liq_changed);
        if let Some(c) = fl.err {
            self.err_agreed += 1;
            *self.errs.entry(c).or_insert(0) += 1;
        }
        if fl.panic_both {
            self.panic_agreed += 1;
        }
    }
}

struct Sel {
    layouts: Vec<usize>,
    tick_states: Vec<usize>,
    pos_liq: Vec<usize>,
    ckpt: Vec<usize>,
    owed: Vec<usize>,
    pool_liq: Vec<usize>,
    fee_growth: Vec<usize>,
    rewards: Vec<usize>,
    times: Vec<usize>,
}
fn selection(quick: bool) -> Sel {
    if quick {
        Sel {
            layouts: vec![0, 2, 3, 4, 6, 9, 10, 11, 12, 13],
            tick_states: vec![0, 1, 2, 3],
            pos_liq: vec![0, 2, 3],
            ckpt: vec![0, 1],
            owed: vec![0, 1],
            pool_liq: vec![0, 2, 3],
            fee_growth: vec![1, 3],
            rewards: vec![0, 2, 3, 5, 6, 7, 8],
            times: vec![0, 2, 3],
        }
    } else {
        Sel {
            layouts: (0..LAYOUTS.len()).collect(),
            tick_states: (0..N_TICK_STATES).collect(),
            pos_liq: (0..POS_LIQ.len()).collect(),
            ckpt: (0..N_CKPT).collect(),
            owed: (0..N_OWED).collect(),
            pool_liq: (0..POOL_LIQ.len()).collect(),
            fee_growth: (0..FEE_GROWTH.len()).collect(),
            rewards: (0..N_REWARD_CFG).collect(),
            times: (0..TIMES.len()).collect(),
        }
    }
}

fn set_pool(wp: &mut Whirlpool, cur: i32, liq: usize, fg: usize, rw: usize, tm: usize) -> u64 {
    wp.tick_current_index = cur;
    wp.sqrt_price = sqrt_price_from_tick_index(cur);
    wp.liquidity = POOL_LIQ[liq];
    wp.fee_growth_global_a = FEE_GROWTH[fg].0;
    wp.fee_growth_global_b = FEE_GROWTH[fg].1;
    wp.reward_infos = reward_cfg(rw);
    wp.reward_last_updated_timestamp = TIMES[tm].0;
    TIMES[tm].1
}

fn modify_case(o: &Outer, cur: i32, liq: usize, fg: usize, rw: usize, tm: usize, delta: i128) -> Value {
    json!({"kind": "fn_modify", "layout": o.li, "layout_name": o.layout.name, "tick_lower_state": o.tl, "tick_upper_state": o.tu, "pos_liq": o.pl, "ckpt": o.ck, "owed": o.ow,
           "tick_current": cur, "pool_liq": liq, "fee_growth": fg, "rewards": rw, "times": tm, "delta": delta.to_string()})
}

fn run_outer(o: &Outer, sel: &Sel) -> MStat {
    let mut st = MStat::default();
    let mut sc = Scratch::default();
    let mut wp = base_whirlpool(o.layout.ts);
    let mut wbuf = Vec::with_capacity(700);
    let ds = deltas(o.pos.liquidity);
    let one = vec![1usize];
    let (pool_liq, fee_growth, rewards, times): (&Vec<usize>, &Vec<usize>, Vec<usize>, Vec<usize>) =
        if o.layout.failing { (&one, &one, vec![3], vec![1, 3]) } else { (&sel.pool_liq, &sel.fee_growth, sel.rewards.clone(), sel.times.clone()) };
    for cur in cur_ticks(&o.layout) {
        for &liq in pool_liq {
            for &fg in fee_growth {
                for &rw in &rewards {
                    for &tm in &times {
                        let now = set_pool(&mut wp, cur, liq, fg, rw, tm);
                        ser(&wp, &mut wbuf);
                        for &delta in &ds {
                            st.evals += 1;
                            let r = eval_modify(o, &wp, &wbuf, delta, now, &mut sc);
                            if rw == REWARD_CFG_UNREACHABLE {
                                st.unreachable_evals += 1;
                                if r.is_err() {
                                    st.unreachable_div += 1;
                                }
                                continue;
                            }
                            match r {
                                Ok(fl) => {
                                    st.take(&fl);
                                    if fl.ok && (o.layout.kind_l == Kind::Dyn || o.layout.kind_u == Kind::Dyn) {
                                        st.dyn_ok += 1;
                                    }
                                    if fl.ok && fl.tick_init && fl.reward_advanced && st.samples.is_empty() {
                                        st.samples.push(modify_case(o, cur, liq, fg, rw, tm, delta));
                                    }
                                }
                                Err(d) => {
                                    if st.viol.len() < 2 {
                                        let case = modify_case(o, cur, liq, fg, rw, tm, delta);
                                        st.viol.push((
                                            format!("fn_modify:{}:{}:{}:{}:{}:{}:{cur}:{liq}:{fg}:{rw}:{tm}:{delta}", o.li, o.tl, o.tu, o.pl, o.ck, o.ow),
                                            format!("[{}] {d}", o.layout.name),
                                            case,
                                        ));
                                    }
                                }
                            }
                        }
                    }
                }
            }
        }
    }
    st
}

fn run_modify(ctx: &Ctx) -> (MStat, bool) {
    let sel = selection(ctx.tier.is_quick());
    let mut outers: Vec<(usize, usize, usize, usize, usize, usize)> = vec![];
    for &li in &sel.layouts {
        let failing = LAYOUTS[li].failing;
        for &tl in &sel.tick_states {
            for &tu in &sel.tick_states {
                for &pl in &sel.pos_liq {
                    for &ck in &sel.ckpt {
                        for &ow in &sel.owed {
                            if failing && (tl > 1 || tu > 1 || ck > 0 || ow > 0) {
                                continue;
                            }
                            outers.push((li, tl, tu, pl, ck, ow));
                        }
                    }
                }
            }
        }
    }
    let capped = std::sync::atomic::AtomicBool::new(false);
    let st = outers
        .par_iter()
        .map(|&(li, tl, tu, pl, ck, ow)| {
            if ctx.left() < 0.0 {
                capped.store(true, std::sync::atomic::Ordering::Relaxed);
                return MStat::default();
            }
            let o = build_outer(li, tl, tu, pl, ck, ow);
            run_outer(&o, &sel)
        })
        .reduce(MStat::default, MStat::merge);
    (st, capped.load(std::sync::atomic::Ordering::Relaxed))
}

fn replay_modify(case: &Value) -> Result<(), String> {
    let g = |k: &str| case[k].as_u64().map(|x| x as usize).ok_or_else(|| format!("missing {k}"));
    let o = build_outer(g("layout")?, g("tick_lower_state")?, g("tick_upper_state")?, g("pos_liq")?, g("ckpt")?, g("owed")?);
    let cur = case["tick_current"].as_i64().ok_or("tick_current")? as i32;
    let delta: i128 = case["delta"].as_str().ok_or("delta")?.parse().map_err(|_| "delta")?;
    let mut wp = base_whirlpool(o.layout.ts);
    let now = set_pool(&mut wp, cur, g("pool_liq")?, g("fee_growth")?, g("rewards")?, g("times")?);
    let mut wbuf = Vec::new();
    ser(&wp, &mut wbuf);
    eval_modify(&o, &wp, &wbuf, delta, now, &mut Scratch::default()).map(|_| ()).map_err(|d| format!("[{}] {d}", o.layout.name))
}

// ---- token deltas ----

const TOKEN_DELTAS: [i128; 17] = [
    0,
    1,
    -1,
    1_000_000_000,
    -1_000_000_000,
    1 << 32,
    -(1 << 32),
    1 << 64,
    -(1 << 64),
    1 << 100,
    -(1 << 100),
    (1 << 126) + 12345,
    -(1 << 126) - 12345,
    i128::MAX,
    i128::MIN,
    i128::MIN + 1,
    3_162_277_660_168_379_331,
];

#[derive(Default, Clone)]
struct TStat {
    evals: u64,
    ok: u64,
    ok_both_tokens: u64,
    err_agreed: u64,
    panic_agreed: u64,
    shifted: u64,
    errs: BTreeMap<u64, u64>,
    viol: Vec<Viol>,
}

fn token_eval(li: usize, cur: i32, price: u128, delta: i128) -> Result<Out<(u64, u64)>, String> {
    let l = LAYOUTS[li];
    let mut pos = Position { tick_lower_index: l.lower, tick_upper_index: l.upper, liquidity: 77, ..Default::default() };
    pos.whirlpool = Pubkey::new_from_array(WP_KEY);
    let mut pbuf = Vec::new();
    ser(&pos, &mut pbuf);
    let a = a_out(guarded(|| calculate_liquidity_token_deltas(cur, price, &pos, delta)));
    let p = p_out(guarded(|| pl::pino_calculate_liquidity_token_deltas(cur, price, v_pos(&pbuf), delta)));
    if a != p {
        return Err(format!("[{}] token deltas: anchor {a:?}, pinocchio {p:?}", l.name));
    }
    Ok(a)
}

fn token_prices(cur: i32) -> Vec<(u128, bool)> {
    let p = sqrt_price_from_tick_index(cur);
    let mut v = vec![(p, false), (p + 1, false)];
    if cur < MAX_TICK_INDEX {
        let n = sqrt_price_from_tick_index(cur + 1);
        v.push((n, true)); // the state a price-decreasing swap leaves when it stops exactly on a tick
        v.push((p + (n - p) / 2, false));
    }
    v
}

fn run_token(quick: bool) -> TStat {
    let layouts: Vec<usize> = if quick { vec![0, 1, 5, 6, 9] } else { (0..10).collect() };
    let mut st = TStat::default();
    for li in layouts {
        for cur in cur_ticks(&LAYOUTS[li]) {
            for (price, shifted) in token_prices(cur) {
                for delta in TOKEN_DELTAS {
                    st.evals += 1;
                    if shifted {
                        st.shifted += 1;
                    }
                    match token_eval(li, cur, price, delta) {
                        Ok(Out::Ok((a, b))) => {
                            st.ok += 1;
                            if a > 0 && b > 0 {
                                st.ok_both_tokens += 1;
                            }
                        }
                        Ok(Out::Err(c)) => {
                            st.err_agreed += 1;
                            *st.errs.entry(c).or_insert(0) += 1;
                        }
                        Ok(Out::Panic) => st.panic_agreed += 1,
                        Err(d) => {
                            if st.viol.len() < 2 {
                                st.viol.push((
                                    format!("fn_token:{li}:{cur}:{price}:{delta}"),
                                    d,
                                    json!({"kind": "fn_token", "layout": li, "tick_current": cur, "sqrt_price": price.to_string(), "delta": delta.to_string()}),
                                ));
                            }
                        }
                    }
                }
            }
        }
    }
    st
}

fn replay_token(case: &Value) -> Result<(), String> {
    let li = case["layout"].as_u64().ok_or("layout")? as usize;
    let cur = case["tick_current"].as_i64().ok_or("tick_current")? as i32;
    let price: u128 = case["sqrt_price"].as_str().ok_or("sqrt_price")?.parse().map_err(|_| "sqrt_price")?;
    let delta: i128 = case["delta"].as_str().ok_or("delta")?.parse().map_err(|_| "delta")?;
    token_eval(li, cur, price, delta).map(|_| ())
}

// ------------------------------------------------------------------------------------------------
// entry points
// ------------------------------------------------------------------------------------------------

pub fn run_fn(ctx: &Ctx, r: &mut Report) {
    let (us, vs, (ms, capped), tk) = with_quiet_panics(|| (run_usable(ctx), run_views(), run_modify(ctx), run_token(ctx.tier.is_quick())));

    // at most two per part, so that one noisy part cannot hide another
    for part in [&us.viol, &vs.viol, &ms.viol, &tk.viol] {
        for (k, d, c) in part.iter().take(2) {
            let mut d = d.clone();
            if d.len() > 900 {
                let mut cut = 900;
                while !d.is_char_boundary(cut) {
                    cut -= 1;
                }
                d.truncate(cut);
                d.push_str(" …");
            }
            r.violation(k.clone(), d, c.clone());
        }
    }

    // (1)
    r.set("fn_usable_evaluations", us.evals);
    r.set("fn_usable_reachable_some", us.reach_some);
    r.set("fn_usable_reachable_none", us.reach_none);
    r.set("fn_usable_unreachable_inputs", us.unreach);
    r.set("fn_usable_unreachable_divergences", us.unreach_div);
    r.set("fn_usable_start_validity_disagreements_with_check_is_valid_start_tick", us.validity_disagree);
    r.set("fn_usable_dynamic_evaluations", us.dyn_evals);
    r.set("fn_usable_aux_method_comparisons", us.aux);
    r.set("fn_usable_tick_spacings", ts_alphabet(!ctx.tier.is_quick()).len() as u64);
    r.guard("fn_usable_some", us.reach_some);
    r.guard("fn_usable_none", us.reach_none);
    r.guard("fn_usable_none_not_divisible", us.reach_none_not_divisible);
    r.guard("fn_usable_none_outside_protocol_bounds_inside_array", us.reach_none_out_of_protocol);
    r.guard("fn_usable_some_in_min_straddling_array", us.min_straddle_some);
    r.guard("fn_usable_dynamic", us.dyn_evals);
    // (2)
    r.set("fn_view_field_comparisons", vs.comparisons);
    r.set("fn_view_image_variants", N_VARIANTS as u64);
    r.set("fn_view_reset_position_range_cases", vs.resets);
    r.guard("fn_view_comparisons", vs.comparisons);
    r.guard("fn_view_reset_cases", vs.resets);
    // (3)
    r.set("fn_modify_evaluations", ms.evals);
    r.set("fn_modify_ok_compared_field_by_field_and_written_back", ms.ok);
    r.set("fn_modify_errors_agreed", ms.err_agreed);
    r.set("fn_modify_panics_agreed", ms.panic_agreed);
    r.set("fn_modify_unreachable_state_evaluations", ms.unreachable_evals);
    r.set("fn_modify_unreachable_state_divergences", ms.unreachable_div);
    r.set("fn_modify_budget_capped", capped);
    let em: serde_json::Map<String, Value> = ms.errs.iter().map(|(k, v)| (k.to_string(), json!(v))).collect();
    r.set("fn_modify_error_agreements_by_code", Value::Object(em));
    let tm: serde_json::Map<String, Value> = tk.errs.iter().map(|(k, v)| (k.to_string(), json!(v))).collect();
    r.set("fn_token_error_agreements_by_code", Value::Object(tm));
    r.set("fn_token_evaluations", tk.evals);
    r.set("fn_token_ok", tk.ok);
    r.set("fn_token_errors_agreed", tk.err_agreed);
    r.set("fn_token_panics_agreed", tk.panic_agreed);
    r.guard("fn_modify_ok", ms.ok);
    r.guard("fn_modify_ok_dynamic_arrays", ms.dyn_ok);
    r.guard("fn_modify_in_range", ms.in_range);
    r.guard("fn_modify_below_range", ms.below);
    r.guard("fn_modify_above_range", ms.above);
    r.guard("fn_modify_tick_initialised", ms.tick_init);
    r.guard("fn_modify_tick_deinitialised", ms.tick_deinit);
    r.guard("fn_modify_array_size_increase", ms.size_inc);
    r.guard("fn_modify_array_size_decrease", ms.size_dec);
    r.guard("fn_modify_rent_to_tick_array", ms.rent_to_array);
    r.guard("fn_modify_rent_to_position", ms.rent_to_position);
    r.guard("fn_modify_reward_growth_advanced", ms.reward_advanced);
    r.guard("fn_modify_reward_overflow_dropped", ms.reward_overflow_dropped);
    r.guard("fn_modify_growth_inside_wraps", ms.fee_wrap);
    r.guard("fn_modify_fees_credited", ms.fees_credited);
    r.guard("fn_modify_pool_liquidity_changed", ms.pool_liq_changed);
    for (name, code) in [
        ("LiquidityZero", ErrorCode::LiquidityZero),
        ("InvalidTimestamp", ErrorCode::InvalidTimestamp),
        ("LiquidityUnderflow", ErrorCode::LiquidityUnderflow),
        ("LiquidityOverflow", ErrorCode::LiquidityOverflow),
        ("LiquidityNetError", ErrorCode::LiquidityNetError),
        ("TickNotFound", ErrorCode::TickNotFound),
    ] {
        r.guard(&format!("fn_modify_error_{name}"), ms.errs.get(&ecode(code)).copied().unwrap_or(0));
    }
    r.guard("fn_token_ok", tk.ok);
    r.guard("fn_token_ok_both_tokens", tk.ok_both_tokens);
    r.guard("fn_token_shifted_state", tk.shifted);
    r.guard("fn_token_error_LiquidityZero", tk.errs.get(&ecode(ErrorCode::LiquidityZero)).copied().unwrap_or(0));
    r.guard("fn_token_error_other", tk.errs.iter().filter(|(k, _)| **k != ecode(ErrorCode::LiquidityZero)).map(|(_, v)| *v).sum());

    r.add("evaluations", us.evals + vs.comparisons + ms.evals + tk.evals);
    r.add("distinct_nontrivial", us.reach_some + vs.comparisons + ms.ok + tk.ok);
    r.set(
        "fn_rule",
        "function level: evaluations = usable-tick lookups + view field/image comparisons + modify-liquidity differentials + token-delta differentials (all tuples distinct by construction: \
         alphabets are deduplicated). distinct_nontrivial counts usable-tick inputs of existing arrays that resolve to a slot, view comparisons, modify-liquidity tuples where both \
         implementations succeed (every output field compared and both write-backs compared byte for byte) and token-delta tuples where both succeed; agreed errors are counted separately by code",
    );
    r.set("fn_exhaustive_scope", "usable-tick lookup: complete product tick spacings x start alphabet x offsets -88..=176 x remainders {0,1,ts-1}; modify-liquidity: complete product of the stated alphabets");
    for s in ms.samples.iter().take(2) {
        r.sample(s.clone());
    }
    r.sample(usable_case(64, -5632 * 79, -443636, false));
    r.assume("fn: tick arrays only exist with start index = k*88*ts intersecting [MIN_TICK_INDEX, MAX_TICK_INDEX], tick spacing > 0 (initialize_tick_array / initialize_pool validation)");
    r.assume("fn: an uninitialised reward slot always has emissions_per_second_x64 = 0 (set_reward_emissions requires the reward vault to be a token account at reward_infos[i].vault)");
}

pub fn replay_fn(case: &Value) -> Option<Result<(), String>> {
    let k = case["kind"].as_str()?;
    let f: fn(&Value) -> Result<(), String> = match k {
        "fn_usable" => replay_usable,
        "fn_view" => replay_view,
        "fn_modify" => replay_modify,
        "fn_token" => replay_token,
        _ => return None,
    };
    Some(with_quiet_panics(|| f(case)))
}
