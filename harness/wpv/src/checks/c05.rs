//! C05 — liquidity bookkeeping (DESIGN §3 C05). Engine A, graph mode: in every reachable state the pool's tradable
//! liquidity equals the sum over positions covering the current tick, and every tick's net/gross/initialized flag equal
//! the sums over positions bounded by it (harness's own decoders for pool, positions, fixed and dynamic tick arrays).
use crate::ops::{Lim, Op};
use crate::oracles;
use crate::poolexplore::{self, PoolModel};
use crate::report::{Ctx, Report};
use crate::stdworlds::{self, Built};
use crate::world::{self, Enc, StdWorld};
use serde_json::Value;
use std::sync::atomic::{AtomicU64, Ordering};
use svm::Ledger;

fn worlds(thorough: bool) -> Vec<Built> {
    let mut v = vec![stdworlds::build_with_roots(&stdworlds::std_spec("c05-std-dfd", [Enc::Dynamic, Enc::Fixed, Enc::Dynamic], 3000, 300), &stdworlds::std_roots())];
    v.push(stdworlds::build_with_roots(&stdworlds::chain_spec("c05-chain-ddd", [Enc::Dynamic, Enc::Dynamic, Enc::Dynamic], 100, 0), &stdworlds::chain_roots()));
    v.push(stdworlds::build_with_roots(&stdworlds::edge_spec("c05-edge-fdd", [Enc::Fixed, Enc::Dynamic, Enc::Dynamic]), &stdworlds::edge_roots()));
    v.push(stdworlds::build_with_roots(&stdworlds::chain_spec("c05-dust-fdf", [Enc::Fixed, Enc::Dynamic, Enc::Fixed], 3000, 300), &stdworlds::dust_roots()));
    // every byte of an initialised tick non-zero (see build_hot_with_roots): codec faults of the dynamic / fixed tick views
    v.push(stdworlds::build_hot_with_roots(&stdworlds::chain_spec("c05-hot-ddd", [Enc::Dynamic, Enc::Dynamic, Enc::Dynamic], 3000, 300), &stdworlds::chain_roots()));
    if thorough {
        v.push(stdworlds::build_hot_with_roots(&stdworlds::std_spec("c05-hot-fdf", [Enc::Fixed, Enc::Dynamic, Enc::Fixed], 3000, 300), &stdworlds::std_roots()[..3]));
        v.push(stdworlds::build_with_roots(&stdworlds::chain_spec_at("c05-chain-low", [Enc::Dynamic, Enc::Fixed, Enc::Dynamic], 3000, 300, -112640), &stdworlds::chain_roots()));
        v.push(stdworlds::build_with_roots(&stdworlds::std_spec("c05-std-fdf", [Enc::Fixed, Enc::Dynamic, Enc::Fixed], 100, 0), &stdworlds::std_roots()[1..]));
    }
    let splash_roots: Vec<(&'static str, Vec<Op>)> = vec![
        ("fresh", vec![]),
        ("funded", vec![Op::Inc { pos: 0, liq: stdworlds::BIG, v2: false }, Op::Inc { pos: 1, liq: 7, v2: true }]),
    ];
    v.push(stdworlds::build_with_roots(&stdworlds::splash_spec("c05-splash"), &splash_roots));
    if thorough {
        let ts1_roots: Vec<(&'static str, Vec<Op>)> = vec![
            ("fresh", vec![]),
            ("funded", vec![Op::Inc { pos: 0, liq: stdworlds::BIG * 1000, v2: false }, Op::Inc { pos: 1, liq: stdworlds::BIG * 100, v2: true }, Op::Inc { pos: 2, liq: stdworlds::BIG * 100, v2: true }]),
        ];
        v.push(stdworlds::build_with_roots(&stdworlds::ts1_spec("c05-ts1"), &ts1_roots));
    }
    v
}

/// liquidity changes and swaps that cross / land on / stop short of ticks or run to the protocol bounds; no fee ops (irrelevant here)
fn alphabet(b: &Built) -> Vec<Op> {
    stdworlds::shift_repos(alphabet0(b), stdworlds::origin_of(&b.w))
}

fn alphabet0(b: &Built) -> Vec<Op> {
    let n = b.w.positions.len() as u8;
    if b.name.contains("dust") {
        return stdworlds::dust_alphabet(n).into_iter().filter(|o| !matches!(o, Op::Update { .. } | Op::CollectFees { .. } | Op::CollectProtocol { .. })).collect();
    }
    let mut a = vec![];
    for pos in 0..n {
        a.push(Op::Inc { pos, liq: stdworlds::BIG, v2: pos % 2 == 1 });
        a.push(Op::Dec { pos, part: crate::ops::Part::All, v2: pos % 2 == 0 });
    }
    for a_to_b in [true, false] {
        a.push(Op::Swap { a_to_b, exact_in: true, amount: u64::MAX >> 8, lim: Lim::NextTick, v2: a_to_b });
        a.push(Op::Swap { a_to_b, exact_in: true, amount: u64::MAX >> 8, lim: Lim::PastNextTick, v2: !a_to_b });
        a.push(Op::Swap { a_to_b, exact_in: true, amount: u64::MAX >> 8, lim: Lim::ShortOfNextTick, v2: a_to_b });
        a.push(Op::Swap { a_to_b, exact_in: true, amount: 20_000_000, lim: Lim::None, v2: !a_to_b });
        a.push(Op::Swap { a_to_b, exact_in: true, amount: u64::MAX >> 8, lim: Lim::Bound, v2: a_to_b });
        a.push(Op::Swap { a_to_b, exact_in: false, amount: 1_000_000, lim: Lim::None, v2: !a_to_b });
    }
    for pos in 0..n {
        a.push(Op::Inc { pos, liq: 1, v2: pos % 2 == 0 });
        a.push(Op::Dec { pos, part: crate::ops::Part::Half, v2: pos % 2 == 1 });
    }
    // deposits that name a neighbouring tick array for one bound (must be refused: the array does not hold the tick; an array
    // addressed modulo its length would book the liquidity on another tick), v1 and v2, every position, both bounds, both sides
    for pos in 0..n {
        a.push(Op::IncTa { pos, liq: 1_000 + pos as u128, lower_shift: 1, upper_shift: 0, v2: pos % 2 == 0 });
        a.push(Op::IncTa { pos, liq: 2_000 + pos as u128, lower_shift: 0, upper_shift: -1, v2: pos % 2 == 1 });
    }
    a.push(Op::IncTa { pos: 0, liq: 3_000, lower_shift: -1, upper_shift: 0, v2: true });
    a.push(Op::IncTa { pos: 0, liq: 4_000, lower_shift: 0, upper_shift: 1, v2: false });
    a.push(Op::Dec { pos: 0, part: crate::ops::Part::Wrap(5), v2: true });
    // anyone may call the tick-array initialisers: on an array that already exists (fixed or dynamic) they must leave it alone —
    // fixed and dynamic arrays share one address per (pool, start index)
    for off in [-1i8, 0, 1] {
        a.push(Op::InitTa { off, dynamic: true, idempotent: true });
        a.push(Op::InitTa { off, dynamic: true, idempotent: false });
        a.push(Op::InitTa { off, dynamic: false, idempotent: false });
    }
    if b.w.pool.tick_spacing == 64 && !b.name.contains("chain") {
        // a tick array whose start index is a multiple of the spacing but not of 88 spacings (-192 covers ticks -192..=5376, i.e.
        // both bounds of position 0): creating it must be refused; if it exists, a deposit that names it books position 0's ticks
        // where no swap will ever look
        a.push(Op::InitTaUnaligned { spacings: -3, dynamic: false });
        a.push(Op::InitTaUnaligned { spacings: -3, dynamic: true });
        a.push(Op::IncVia { pos: 0, liq: 5_000, lower_start: -192, upper_start: -192, v2: true });
        a.push(Op::IncVia { pos: 0, liq: 6_000, lower_start: -192, upper_start: -192, v2: false });
        // ... and one whose start (704 = lcm(88, 64)) is a multiple of the spacing AND of 88, but not of 88 spacings; it would hold
        // the upper bound of position 1
        a.push(Op::InitTaUnaligned { spacings: 11, dynamic: false });
        a.push(Op::InitTaUnaligned { spacings: 11, dynamic: true });
        a.push(Op::IncVia { pos: 1, liq: 5_500, lower_start: 0, upper_start: 704, v2: true });
    }
    if b.w.pool.tick_spacing == 64 && b.name.contains("std") {
        // the same at the left edge of the tick range, where the only valid array start below the lowest tick is the aligned one
        // (-444928): an array at -444864 overlaps it and would hold the lower bound (-443584) of the full-range position 2
        a.push(Op::InitTaUnaligned { spacings: -6951, dynamic: false });
        a.push(Op::InitTaUnaligned { spacings: -6951, dynamic: true });
        a.push(Op::IncVia { pos: 2, liq: 7_000, lower_start: -444864, upper_start: 78 * 5632, v2: true });
        a.push(Op::IncVia { pos: 2, liq: 8_000, lower_start: -444864, upper_start: 78 * 5632, v2: false });
    }
    if b.w.pool.tick_spacing == 64 {
        // reposition_liquidity_v2: re-range position 0 (new bounds share tick array 0 with the other positions' bounds) and back
        a.push(Op::Repos { pos: 0, lower: -64, upper: 192, liq: stdworlds::BIG / 2 });
        a.push(Op::Repos { pos: 0, lower: -128, upper: 128, liq: stdworlds::BIG });
        a.push(Op::Repos { pos: 1, lower: 128, upper: 5696 + 64, liq: 77 });
        // must be refused: an empty range [T, T) (both bound updates would land on one tick: net -L, gross L, no tokens paid) and
        // an inverted one
        a.push(Op::Repos { pos: 0, lower: 64, upper: 64, liq: 9_000 });
        a.push(Op::Repos { pos: 1, lower: 192, upper: 128, liq: 9_001 });
    }
    a
}

struct Counters {
    states_two_in_range: AtomicU64,
    states_with_ticks: AtomicU64,
    states_no_ticks: AtomicU64,
}

fn model<'a>(b: &'a Built, c: &'a Counters) -> PoolModel<'a> {
    PoolModel::new(
        &b.w,
        alphabet(b),
        Box::new(move |l: &Ledger, w: &StdWorld| {
            let s = oracles::c05_invariant(l, w)?;
            if s.in_range_positions >= 2 {
                c.states_two_in_range.fetch_add(1, Ordering::Relaxed);
            }
            if s.initialized_ticks > 0 {
                c.states_with_ticks.fetch_add(1, Ordering::Relaxed);
            } else {
                c.states_no_ticks.fetch_add(1, Ordering::Relaxed);
            }
            Ok(())
        }),
        Box::new(|_pre, st, _w, _op| {
            // crossing record consistency is C10's; here only count crossings for the vacuity guard
            let _ = st;
            Ok(())
        }),
    )
}

/// Tick spacings 1, 2 and 4 are the only ones for which the lowest tick (-443636) is itself usable. A position bounded by it,
/// a swap that runs down to the minimum price (the pool is then left at tick -443637, below every position), and liquidity
/// changes of that position while the pool sits there: the invariant after every step.
fn min_edge_case(ts: u16) -> Result<u64, String> {
    use crate::refmodel::MIN_TICK;
    let n = 88 * ts as i32;
    let start = MIN_TICK.div_euclid(n) * n;
    let t = ts as i32;
    let spec = world::StdSpec {
        label: format!("c05-min-edge-ts{ts}"),
        tick_spacing: ts,
        fee_rate: 3000,
        protocol_fee_rate: 300,
        sqrt_price: whirlpool::math::sqrt_price_from_tick_index(MIN_TICK + 10 * t),
        arrays: vec![(start / n, Enc::Dynamic)],
        positions: vec![(MIN_TICK, MIN_TICK + 20 * t, false), (MIN_TICK + 4 * t, MIN_TICK + 16 * t, true)],
        t22_a: None,
        t22_b: None,
    };
    let (l, w) = world::build_std(&spec);
    let seq = [
        Op::Inc { pos: 0, liq: 1_000_000, v2: true },
        Op::Inc { pos: 1, liq: 3_000_000, v2: false },
        Op::Swap { a_to_b: true, exact_in: true, amount: u64::MAX >> 8, lim: Lim::None, v2: true }, // down to the minimum price
        Op::Inc { pos: 0, liq: 500_000, v2: false },
        Op::Dec { pos: 0, part: crate::ops::Part::Half, v2: true },
        Op::Inc { pos: 1, liq: 7, v2: true },
        Op::Swap { a_to_b: false, exact_in: true, amount: u64::MAX >> 8, lim: Lim::Price(whirlpool::math::sqrt_price_from_tick_index(MIN_TICK + 10 * t)), v2: false }, // back up into the ranges
        Op::Dec { pos: 0, part: crate::ops::Part::All, v2: false },
    ];
    let mut cur = l;
    let mut done = 0;
    for op in &seq {
        let st = crate::ops::apply(&cur, &w, op);
        if !st.outcome.ok() {
            return Err(format!("tick spacing {ts}, position bounded by the lowest tick: {op:?} fails: {}", st.outcome.short()));
        }
        cur = st.ledger;
        oracles::c05_invariant(&cur, &w).map_err(|e| format!("tick spacing {ts}, position bounded by the lowest tick, after {op:?} (pool tick {}): {e}", w.pool.state(&cur).tick_current_index))?;
        done += 1;
    }
    Ok(done)
}

pub fn run(ctx: &Ctx) -> Report {
    let mut r = Report::new("C05", "model_checking");
    let mut edge_ops = 0u64;
    for ts in [1u16, 2, 4] {
        match min_edge_case(ts) {
            Ok(n) => edge_ops += n,
            Err(e) => {
                r.violation(format!("min_edge/{ts}"), e, serde_json::json!({"kind": "min_edge", "ts": ts}));
                return r;
            }
        }
    }
    r.guard("operations_on_positions_bounded_by_the_lowest_tick", edge_ops);
    let ws = worlds(!ctx.tier.is_quick());
    let share = ctx.budget_s * 0.95 / ws.len() as f64;
    let c = Counters { states_two_in_range: AtomicU64::new(0), states_with_ticks: AtomicU64::new(0), states_no_ticks: AtomicU64::new(0) };
    for b in &ws {
        let m = model(b, &c);
        let out = poolexplore::run_world(ctx, &mut r, b, &m, ctx.depth(3, 6), share);
        poolexplore::fold(&mut r, &b.name, &out, &m.alphabet[..3]);
        if !r.violations.is_empty() {
            break;
        }
    }
    r.set("states_with_two_or_more_positions_in_range", c.states_two_in_range.load(Ordering::Relaxed));
    r.set("states_with_initialized_ticks", c.states_with_ticks.load(Ordering::Relaxed));
    r.set("states_after_all_ticks_deinitialized", c.states_no_ticks.load(Ordering::Relaxed));
    r.guard("states_with_two_or_more_positions_in_range", c.states_two_in_range.load(Ordering::Relaxed));
    r.guard("states_with_initialized_ticks", c.states_with_ticks.load(Ordering::Relaxed));
    r.guard("states_after_all_ticks_deinitialized", c.states_no_ticks.load(Ordering::Relaxed));
    r.set("exhaustive", false);
    r.assume("svm-lite faithfully replaces the validator (DESIGN §2.1)");
    r.assume("positions are the world's fixed set (3 per pool; shared bound, adjacent, array-edge straddling, full range)");
    r
}

pub fn replay(case: &Value) -> Result<(), String> {
    if case["kind"].as_str() == Some("min_edge") {
        return min_edge_case(case["ts"].as_u64().ok_or("ts")? as u16).map(|_| ());
    }
    let ws = worlds(true);
    let name = case["world"].as_str().ok_or("world")?;
    let b = ws.iter().find(|b| b.name == name).ok_or("unknown world")?;
    let c = Counters { states_two_in_range: AtomicU64::new(0), states_with_ticks: AtomicU64::new(0), states_no_ticks: AtomicU64::new(0) };
    let m = model(b, &c);
    poolexplore::replay_ops(b, &m, case["root"].as_str().ok_or("root")?, &case["ops"])
}
