//! C14 world (DESIGN §2.6 W-adaptive): an adaptive-fee pool built with the REAL `initialize_adaptive_fee_tier` +
//! `initialize_pool_with_adaptive_fee`, a chosen liquidity layout (adjacent ranges + one zero-liquidity gap), and —
//! for the control-factor-0 differential — a static-fee twin pool over the same mints with the same layout that
//! receives the same swaps inside the same ledger.
#![allow(dead_code, clippy::too_many_arguments)]
use crate::refmodel::{MAX_SQRT_PRICE, MAX_TICK, MIN_SQRT_PRICE, MIN_TICK};
use crate::world::{self, Config, PoolRef, PosRef, SwapArgs, Wallet, WP};
use anchor_lang::{InstructionData, ToAccountMetas};
use serde::{Deserialize, Serialize};
use solana_program::{instruction::Instruction, pubkey::Pubkey, system_program, sysvar};
use svm::{keys::key, Ledger, Outcome};
use whirlpool::accounts as wa;
use whirlpool::instruction as wi;
use whirlpool::math::{sqrt_price_from_tick_index, tick_index_from_sqrt_price};
use whirlpool::verif_hooks::SwapTrace;

#[derive(Clone, Copy, Debug, PartialEq, Eq, Serialize, Deserialize)]
pub struct AfConsts {
    pub filter: u16,
    pub decay: u16,
    pub reduction: u16,
    pub control: u32,
    pub max_acc: u32,
    pub group: u16,
    pub threshold: u16,
}

#[derive(Clone, Debug)]
pub struct AfSpec {
    pub label: String,
    pub tick_spacing: u16,
    pub fee_tier_index: u16,
    pub base_fee_rate: u16,
    pub protocol_fee_rate: u16,
    pub consts: AfConsts,
    pub sqrt_price: u128,
    /// (lower, upper, liquidity) — funded on the adaptive pool and (if any) on the twin
    pub positions: Vec<(i32, i32, u128)>,
    /// array offsets (relative to array 0) that exist on chain
    pub arrays: Vec<i32>,
    pub twin: bool,
    /// Some(authority label) = permissioned tier
    pub permissioned: bool,
    pub trade_enable_timestamp: Option<u64>,
    /// Some((bps, maximum fee)): both mints are Token-2022 mints with this transfer fee (v2 instructions only)
    pub tfee: Option<(u16, u64)>,
}

#[derive(Clone)]
pub struct AfWorld {
    pub name: String,
    pub cfg: Config,
    pub pool: PoolRef,
    pub twin: Option<PoolRef>,
    pub lp: Wallet,
    pub trader: Wallet,
    pub lp_twin: Option<Wallet>,
    pub trader_twin: Option<Wallet>,
    pub positions: Vec<PosRef>,
    pub twin_positions: Vec<PosRef>,
    pub funder: Pubkey,
    pub consts: AfConsts,
    pub base_fee_rate: u16,
}

pub fn ix_init_adaptive_fee_tier(
    cfg: &Config,
    funder: Pubkey,
    fee_tier_index: u16,
    tick_spacing: u16,
    initialize_pool_authority: Pubkey,
    delegated_fee_authority: Pubkey,
    default_base_fee_rate: u16,
    c: &AfConsts,
) -> Instruction {
    world::ix(
        wa::InitializeAdaptiveFeeTier {
            whirlpools_config: cfg.addr,
            adaptive_fee_tier: world::fee_tier_addr(&cfg.addr, fee_tier_index),
            funder,
            fee_authority: cfg.fee_authority,
            system_program: system_program::ID,
        }
        .to_account_metas(None),
        wi::InitializeAdaptiveFeeTier {
            fee_tier_index,
            tick_spacing,
            initialize_pool_authority,
            delegated_fee_authority,
            default_base_fee_rate,
            filter_period: c.filter,
            decay_period: c.decay,
            reduction_factor: c.reduction,
            adaptive_fee_control_factor: c.control,
            max_volatility_accumulator: c.max_acc,
            tick_group_size: c.group,
            major_swap_threshold_ticks: c.threshold,
        }
        .data(),
    )
}

pub fn ix_init_pool_with_adaptive_fee(p: &PoolRef, funder: Pubkey, authority: Pubkey, sqrt_price: u128, trade_enable_timestamp: Option<u64>) -> Instruction {
    world::ix(
        wa::InitializePoolWithAdaptiveFee {
            whirlpools_config: p.cfg,
            token_mint_a: p.mint_a,
            token_mint_b: p.mint_b,
            token_badge_a: world::token_badge_addr(&p.cfg, &p.mint_a),
            token_badge_b: world::token_badge_addr(&p.cfg, &p.mint_b),
            funder,
            initialize_pool_authority: authority,
            whirlpool: p.addr,
            oracle: p.oracle,
            token_vault_a: p.vault_a,
            token_vault_b: p.vault_b,
            adaptive_fee_tier: world::fee_tier_addr(&p.cfg, p.fee_tier_index),
            token_program_a: p.prog_a,
            token_program_b: p.prog_b,
            system_program: system_program::ID,
            rent: sysvar::rent::ID,
        }
        .to_account_metas(None),
        wi::InitializePoolWithAdaptiveFee { initial_sqrt_price: sqrt_price, trade_enable_timestamp }.data(),
    )
}

pub fn pool_authority(label: &str) -> Pubkey {
    key(&format!("{label}/initialize_pool_authority"))
}

/// Config + mints + adaptive tier; returns what `build` and the trade-enable scenario both need.
pub struct Base {
    pub l: Ledger,
    pub cfg: Config,
    pub funder: Pubkey,
    pub mint_a: Pubkey,
    pub mint_b: Pubkey,
    pub authority: Pubkey,
}

pub fn base(spec: &AfSpec) -> Base {
    let mut l = world::base_ledger();
    let lab = &spec.label;
    let cfg = world::init_config(&mut l, lab, spec.protocol_fee_rate);
    let funder = key(&format!("{lab}/funder"));
    l.put_system(funder, world::RICH);
    let (m1, m2) = (key(&format!("{lab}/mint1")), key(&format!("{lab}/mint2")));
    let (mint_a, mint_b) = if m1 < m2 { (m1, m2) } else { (m2, m1) };
    match spec.tfee {
        None => {
            world::create_spl_mint(&mut l, mint_a, 6, None);
            world::create_spl_mint(&mut l, mint_b, 6, None);
        }
        Some((bps, max)) => {
            world::create_t22_mint(&mut l, mint_a, 6, None, &[world::T22Ext::TransferFee { bps, max }]);
            world::create_t22_mint(&mut l, mint_b, 6, None, &[world::T22Ext::TransferFee { bps, max }]);
        }
    }
    let authority = if spec.permissioned { pool_authority(lab) } else { Pubkey::default() };
    if spec.permissioned {
        l.put_system(authority, world::RICH);
    }
    world::must(
        "initialize_adaptive_fee_tier",
        svm::process(&mut l, &ix_init_adaptive_fee_tier(&cfg, funder, spec.fee_tier_index, spec.tick_spacing, authority, Pubkey::default(), spec.base_fee_rate, &spec.consts)),
    );
    Base { l, cfg, funder, mint_a, mint_b, authority }
}

pub fn build(spec: &AfSpec) -> (Ledger, AfWorld) {
    let Base { mut l, cfg, funder, mint_a, mint_b, authority } = base(spec);
    let lab = &spec.label;
    let pool = world::pool_ref(&l, &cfg.addr, lab, mint_a, mint_b, spec.tick_spacing, spec.fee_tier_index);
    let signer = if spec.permissioned { authority } else { funder };
    world::must("initialize_pool_with_adaptive_fee", svm::process(&mut l, &ix_init_pool_with_adaptive_fee(&pool, funder, signer, spec.sqrt_price, spec.trade_enable_timestamp)));
    let twin = if spec.twin {
        world::must("init_fee_tier(twin)", svm::process(&mut l, &world::ix_init_fee_tier(&cfg, funder, spec.tick_spacing, spec.base_fee_rate)));
        let t = world::pool_ref(&l, &cfg.addr, &format!("{lab}/twin"), mint_a, mint_b, spec.tick_spacing, spec.tick_spacing);
        world::must("init_pool(twin)", svm::process(&mut l, &world::ix_init_pool_v1(&t, funder, spec.sqrt_price)));
        Some(t)
    } else {
        None
    };
    let mut pools = vec![pool.clone()];
    if let Some(t) = &twin {
        pools.push(t.clone());
    }
    for p in &pools {
        for off in &spec.arrays {
            let start = off * p.ticks_in_array();
            world::must("init_tick_array", svm::process(&mut l, &world::ix_init_tick_array(p, funder, start, off.rem_euclid(2) == 1)));
        }
    }
    let lp = world::create_wallet(&mut l, &format!("{lab}/lp"), &pool, 1 << 62, 1 << 62);
    let trader = world::create_wallet(&mut l, &format!("{lab}/trader"), &pool, 1 << 61, 1 << 61);
    let (lp_twin, trader_twin) = match &twin {
        Some(t) => (Some(world::create_wallet(&mut l, &format!("{lab}/lp"), t, 1 << 62, 1 << 62)), Some(world::create_wallet(&mut l, &format!("{lab}/trader"), t, 1 << 61, 1 << 61))),
        None => (None, None),
    };
    let mut positions = vec![];
    let mut twin_positions = vec![];
    for (i, (lo, hi, liq)) in spec.positions.iter().enumerate() {
        let p = world::pos_ref(&pool, &format!("{lab}/pos{i}"), lp.owner, *lo, *hi, false);
        world::must("open_position", svm::process(&mut l, &world::ix_open_position(&p, funder)));
        world::must("increase_liquidity", svm::process(&mut l, &world::ix_increase(&p, &lp, *liq, u64::MAX, u64::MAX, i % 2 == 1 || spec.tfee.is_some())));
        positions.push(p);
        if let (Some(t), Some(lpt)) = (&twin, &lp_twin) {
            let p = world::pos_ref(t, &format!("{lab}/twin/pos{i}"), lpt.owner, *lo, *hi, false);
            world::must("open_position(twin)", svm::process(&mut l, &world::ix_open_position(&p, funder)));
            world::must("increase_liquidity(twin)", svm::process(&mut l, &world::ix_increase(&p, lpt, *liq, u64::MAX, u64::MAX, i % 2 == 1)));
            twin_positions.push(p);
        }
    }
    let w = AfWorld { name: spec.label.clone(), cfg, pool, twin, lp, trader, lp_twin, trader_twin, positions, twin_positions, funder, consts: spec.consts, base_fee_rate: spec.base_fee_rate };
    (l, w)
}

// ------------------------------------------------------------------------------------------------
// op alphabet
// ------------------------------------------------------------------------------------------------
/// Where the explicit sqrt-price limit of a swap lies, relative to the pool's price when the op is applied.
#[derive(Clone, Copy, Debug, PartialEq, Eq, Hash, Serialize, Deserialize, PartialOrd, Ord)]
pub enum Tgt {
    /// no explicit limit: the amount decides where the swap ends
    None,
    /// exactly the n-th tick-group boundary ahead of the current price in the trade direction (n >= 1)
    Edge(u8),
    /// the middle (in sqrt price) between the n-th and (n+1)-th boundary ahead; n = 0: between the current price and the first boundary
    Mid(u8),
    /// the price of this tick
    Tick(i32),
    /// the n-th boundary ahead plus a signed offset in sqrt-price units (ends next to a boundary, inside the boundary tick)
    EdgeOff(u8, i8),
}

/// Arguments of `set_adaptive_fee_constants`: every constant is optional, `None` keeps the stored value.
#[derive(Clone, Copy, Debug, Default, PartialEq, Eq, Hash, Serialize, Deserialize, PartialOrd, Ord)]
pub struct CSet {
    #[serde(default)]
    pub filter: Option<u16>,
    #[serde(default)]
    pub decay: Option<u16>,
    #[serde(default)]
    pub reduction: Option<u16>,
    #[serde(default)]
    pub control: Option<u32>,
    #[serde(default)]
    pub max_acc: Option<u32>,
    #[serde(default)]
    pub group: Option<u16>,
    #[serde(default)]
    pub threshold: Option<u16>,
}
impl CSet {
    pub fn all(c: &AfConsts) -> CSet {
        CSet { filter: Some(c.filter), decay: Some(c.decay), reduction: Some(c.reduction), control: Some(c.control), max_acc: Some(c.max_acc), group: Some(c.group), threshold: Some(c.threshold) }
    }
    /// the constants the pool is configured with after a successful call on a pool configured with `c`
    pub fn merged(&self, c: &AfConsts) -> AfConsts {
        AfConsts {
            filter: self.filter.unwrap_or(c.filter),
            decay: self.decay.unwrap_or(c.decay),
            reduction: self.reduction.unwrap_or(c.reduction),
            control: self.control.unwrap_or(c.control),
            max_acc: self.max_acc.unwrap_or(c.max_acc),
            group: self.group.unwrap_or(c.group),
            threshold: self.threshold.unwrap_or(c.threshold),
        }
    }
}

#[derive(Clone, Debug, PartialEq, Eq, Hash, Serialize, Deserialize, PartialOrd, Ord)]
pub enum AOp {
    Swap { a_to_b: bool, exact_in: bool, amount: u64, tgt: Tgt, v2: bool },
    /// advance ledger.unix_ts (same semantics as crate::ops::Op::Clock)
    Clock(i64),
    /// the REAL `set_adaptive_fee_constants`, signed by the config's fee authority, on the adaptive pool's oracle
    SetConsts(CSet),
}

/// constants currently stored in the pool's oracle account (they change under `AOp::SetConsts`)
pub fn stored_consts(l: &Ledger, w: &AfWorld) -> AfConsts {
    let o = crate::decode::oracle(l.data(&w.pool.oracle));
    AfConsts {
        filter: o.filter_period,
        decay: o.decay_period,
        reduction: o.reduction_factor,
        control: o.adaptive_fee_control_factor,
        max_acc: o.max_volatility_accumulator,
        group: o.tick_group_size,
        threshold: o.major_swap_threshold_ticks,
    }
}

pub fn ix_set_adaptive_fee_constants(w: &AfWorld, c: &CSet) -> Instruction {
    world::ix(
        wa::SetAdaptiveFeeConstants { whirlpool: w.pool.addr, whirlpools_config: w.cfg.addr, oracle: w.pool.oracle, fee_authority: w.cfg.fee_authority }.to_account_metas(None),
        wi::SetAdaptiveFeeConstants {
            filter_period: c.filter,
            decay_period: c.decay,
            reduction_factor: c.reduction,
            adaptive_fee_control_factor: c.control,
            max_volatility_accumulator: c.max_acc,
            tick_group_size: c.group,
            major_swap_threshold_ticks: c.threshold,
        }
        .data(),
    )
}

pub fn floor_div(a: i64, b: i64) -> i64 {
    a.div_euclid(b)
}

pub fn price_of_tick(t: i64) -> u128 {
    sqrt_price_from_tick_index(t.clamp(MIN_TICK as i64, MAX_TICK as i64) as i32)
}

/// (floor tick group of the price, whether the price is exactly the lower boundary price of that group)
pub fn group_of_price(p: u128, gs: i64) -> (i64, bool) {
    let t = tick_index_from_sqrt_price(&p) as i64;
    let g = floor_div(t, gs);
    (g, price_of_tick(g * gs) == p && g * gs >= MIN_TICK as i64)
}

/// Index k of the n-th group boundary (tick k*gs) strictly ahead of price p in the trade direction.
pub fn boundary_ahead(p: u128, gs: i64, a_to_b: bool, n: i64) -> i64 {
    let (g, on) = group_of_price(p, gs);
    if a_to_b {
        let first = if on { g - 1 } else { g };
        first - (n - 1)
    } else {
        g + n
    }
}

pub fn resolve_tgt(p: u128, gs: i64, a_to_b: bool, tgt: Tgt) -> u128 {
    let x = match tgt {
        Tgt::None => return 0,
        Tgt::Tick(t) => price_of_tick(t as i64),
        Tgt::Edge(n) => price_of_tick(boundary_ahead(p, gs, a_to_b, n.max(1) as i64) * gs),
        Tgt::EdgeOff(n, off) => (price_of_tick(boundary_ahead(p, gs, a_to_b, n.max(1) as i64) * gs) as i128 + off as i128) as u128,
        Tgt::Mid(0) => {
            let e = price_of_tick(boundary_ahead(p, gs, a_to_b, 1) * gs);
            if e > p {
                p + (e - p) / 2
            } else {
                e + (p - e) / 2
            }
        }
        Tgt::Mid(n) => {
            let e1 = price_of_tick(boundary_ahead(p, gs, a_to_b, n as i64) * gs);
            let e2 = price_of_tick(boundary_ahead(p, gs, a_to_b, n as i64 + 1) * gs);
            e1.min(e2) + (e1.max(e2) - e1.min(e2)) / 2
        }
    };
    x.clamp(MIN_SQRT_PRICE, MAX_SQRT_PRICE)
}

pub fn ix_swap_on(l: &Ledger, w: &AfWorld, p: &PoolRef, wallet: &Wallet, a_to_b: bool, exact_in: bool, amount: u64, limit: u128, v2: bool, adaptive: bool) -> Instruction {
    let st = p.state(l);
    let a = SwapArgs { amount, other_amount_threshold: if exact_in { 0 } else { u64::MAX }, sqrt_price_limit: limit, amount_specified_is_input: exact_in, a_to_b };
    let tas = world::swap_tick_arrays(p, st.tick_current_index, a_to_b);
    let _ = w;
    // v1 takes the writable oracle as a remaining account; v2 has it in the accounts struct
    let supp: Vec<Pubkey> = if adaptive && !v2 { vec![p.oracle] } else { vec![] };
    world::ix_swap(p, wallet, a, tas, v2, &supp)
}

pub struct AStepped {
    pub ledger: Ledger,
    pub outcome: Outcome,
    pub trace: Vec<SwapTrace>,
    pub limit: u128,
    /// outcome of the same swap on the static-fee twin (same ledger), if the world has one
    pub twin_outcome: Option<Outcome>,
}

/// Execute one op on a copy of the ledger (a failed instruction leaves the copy unchanged).
pub fn apply(l: &Ledger, w: &AfWorld, op: &AOp) -> AStepped {
    let mut n = l.clone();
    match op {
        AOp::Clock(dt) => {
            n.unix_ts += dt;
            AStepped { ledger: n, outcome: Outcome::default(), trace: vec![], limit: 0, twin_outcome: None }
        }
        AOp::Swap { a_to_b, exact_in, amount, tgt, v2 } => {
            let st = w.pool.state(l);
            // group boundaries of the CURRENTLY configured tick group size (== w.consts.group until a SetConsts changes it)
            let limit = resolve_tgt(st.sqrt_price, stored_consts(l, w).group as i64, *a_to_b, *tgt);
            // Token-2022 pools are only served by the v2 instruction
            let v2 = &(*v2 || !w.pool.is_v1_capable());
            let ix = ix_swap_on(l, w, &w.pool, &w.trader, *a_to_b, *exact_in, *amount, limit, *v2, true);
            let _ = whirlpool::verif_hooks::take_swap_trace();
            let outcome = svm::process(&mut n, &ix);
            let trace = whirlpool::verif_hooks::take_swap_trace();
            let twin_outcome = match (&w.twin, &w.trader_twin) {
                (Some(t), Some(tw)) => {
                    // same arguments; the limit is an absolute price, so it is the same number for both pools
                    let ix = ix_swap_on(l, w, t, tw, *a_to_b, *exact_in, *amount, limit, *v2, false);
                    let o = svm::process(&mut n, &ix);
                    let _ = whirlpool::verif_hooks::take_swap_trace();
                    Some(o)
                }
                _ => None,
            };
            AStepped { ledger: n, outcome, trace, limit, twin_outcome }
        }
        AOp::SetConsts(c) => {
            let outcome = svm::process(&mut n, &ix_set_adaptive_fee_constants(w, c));
            AStepped { ledger: n, outcome, trace: vec![], limit: 0, twin_outcome: None }
        }
    }
}

/// Accounts whose bytes make up the property-relevant state (graph-mode fingerprint; the clock is always hashed).
pub fn core_keys(l: &Ledger, w: &AfWorld) -> Vec<Pubkey> {
    let mut k = vec![w.pool.addr, w.pool.vault_a, w.pool.vault_b, w.pool.oracle];
    if let Some(t) = &w.twin {
        k.extend([t.addr, t.vault_a, t.vault_b]);
    }
    for p in w.positions.iter().chain(w.twin_positions.iter()) {
        k.push(p.addr);
    }
    for (key, a) in l.accts.iter() {
        if a.owner == WP && a.data.len() >= 8 && (a.data[..8] == crate::decode::FIXED_TA_DISC || a.data[..8] == crate::decode::DYN_TA_DISC) {
            k.push(*key);
        }
    }
    k
}
