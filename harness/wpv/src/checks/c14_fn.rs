//! C14 function-level part (Engine B): the real `AdaptiveFeeVariables::{update_reference, update_volatility_accumulator,
//! update_major_swap_timestamp}` and the real `FeeRateManager` driven directly over a cross product of validated
//! constants x stored variables x elapsed times x tick-group deltas, against the reference model in `c14_ref`.
//!
//! B1 update_reference; B2 accumulator + total fee rate; B3 "walks": the FeeRateManager is driven exactly as the swap
//! loop drives it (new / update / rate / bounded target / advance[_after_skip]) along a price path, and every segment's
//! rate is compared with the no-skip reference rate of EVERY tick group the segment touches; B4 major-swap threshold.
use super::c14_ref::{self as rf, RefClass, RC, RV};
use super::c14_world::{floor_div, price_of_tick};
use crate::refmodel::{MAX_SQRT_PRICE, MAX_TICK, MIN_SQRT_PRICE, MIN_TICK};
use crate::report::{Ctx, Report};
use rayon::prelude::*;
use serde_json::{json, Value};
use std::panic::{catch_unwind, AssertUnwindSafe};
use whirlpool::manager::fee_rate_manager::FeeRateManager;
use whirlpool::math::tick_index_from_sqrt_price;
use whirlpool::state::{AdaptiveFeeConstants, AdaptiveFeeInfo, AdaptiveFeeVariables};

pub const T0: u64 = 1_700_000_000;

#[derive(Clone, Copy, Debug, PartialEq, Eq)]
pub struct K {
    pub ts: u16,
    pub filter: u16,
    pub decay: u16,
    pub reduction: u16,
    pub control: u32,
    pub max_acc: u32,
    pub group: u16,
    pub threshold: u16,
}
impl K {
    pub fn rc(&self) -> RC {
        RC { filter: self.filter as u64, decay: self.decay as u64, reduction: self.reduction as u64, control: self.control as u64, max_acc: self.max_acc as u64, group: self.group as i64, threshold: self.threshold }
    }
    pub fn real(&self) -> AdaptiveFeeConstants {
        AdaptiveFeeConstants {
            filter_period: self.filter,
            decay_period: self.decay,
            reduction_factor: self.reduction,
            adaptive_fee_control_factor: self.control,
            max_volatility_accumulator: self.max_acc,
            tick_group_size: self.group,
            major_swap_threshold_ticks: self.threshold,
            reserved: [0u8; 16],
        }
    }
    pub fn valid(&self) -> bool {
        AdaptiveFeeConstants::validate_constants(self.ts, self.filter, self.decay, self.reduction, self.control, self.max_acc, self.group, self.threshold)
    }
    fn json(&self) -> Value {
        json!({"ts": self.ts, "filter": self.filter, "decay": self.decay, "reduction": self.reduction, "control": self.control, "max_acc": self.max_acc, "group": self.group, "threshold": self.threshold})
    }
    fn from_json(v: &Value) -> Option<K> {
        let g = |n: &str| v.get(n).and_then(|x| x.as_u64());
        Some(K { ts: g("ts")? as u16, filter: g("filter")? as u16, decay: g("decay")? as u16, reduction: g("reduction")? as u16, control: g("control")? as u32, max_acc: g("max_acc")? as u32, group: g("group")? as u16, threshold: g("threshold")? as u16 })
    }
}

fn real_vars(v: &RV) -> AdaptiveFeeVariables {
    AdaptiveFeeVariables {
        last_reference_update_timestamp: v.lru,
        last_major_swap_timestamp: v.lms,
        volatility_reference: v.vref as u32,
        tick_group_index_reference: v.gref as i32,
        volatility_accumulator: v.acc as u32,
        reserved: [0u8; 16],
    }
}
fn model_vars(v: &AdaptiveFeeVariables) -> RV {
    RV { lru: v.last_reference_update_timestamp, lms: v.last_major_swap_timestamp, vref: v.volatility_reference as u64, gref: v.tick_group_index_reference as i64, acc: v.volatility_accumulator as u64 }
}
fn rv_json(v: &RV) -> Value {
    json!({"lru": v.lru, "lms": v.lms, "vref": v.vref, "gref": v.gref, "acc": v.acc})
}
fn rv_from(v: &Value) -> Option<RV> {
    Some(RV { lru: v.get("lru")?.as_u64()?, lms: v.get("lms")?.as_u64()?, vref: v.get("vref")?.as_u64()?, gref: v.get("gref")?.as_i64()?, acc: v.get("acc")?.as_u64()? })
}

/// (tick spacing, group size) pairs; the "saturating boundary" max accumulator is floor(u32::MAX / group size).
const TS_GS: [(u16, u16); 5] = [(1, 1), (64, 1), (64, 16), (64, 64), (32768, 32768)];
const PERIODS: [u16; 4] = [1, 2, 30, 600];
const REDUCTIONS: [u16; 3] = [0, 5000, 9999];
const CONTROLS: [u32; 4] = [0, 1, 1500, 99_999];

fn max_accs(gs: u16) -> Vec<u32> {
    let mut v = vec![0, 1, 10_000, 350_000, (u32::MAX as u64 / gs as u64) as u32];
    v.dedup();
    v
}

/// all validated constant sets of the domain (the real validator decides; C19 checks the validator itself)
pub fn constant_sets(quick_subset: bool) -> (Vec<K>, u64) {
    let mut out = vec![];
    let mut rejected = 0u64;
    for (ts, gs) in TS_GS {
        for f in PERIODS {
            for d in PERIODS {
                if f >= d {
                    continue;
                }
                for red in REDUCTIONS {
                    for cf in CONTROLS {
                        for m in max_accs(gs) {
                            if quick_subset && !((f, d) == (1, 2) || (f, d) == (30, 600)) {
                                continue;
                            }
                            let k = K { ts, filter: f, decay: d, reduction: red, control: cf, max_acc: m, group: gs, threshold: ts.max(1) };
                            if k.valid() {
                                out.push(k);
                            } else {
                                rejected += 1;
                            }
                        }
                    }
                }
            }
        }
    }
    (out, rejected)
}

// ------------------------------------------------------------------------------------------------
// B1: update_reference
// ------------------------------------------------------------------------------------------------
pub fn check_update_reference(k: &K, v: &RV, g: i64, now: u64) -> Result<Option<RefClass>, String> {
    let want = rf::update_reference(&k.rc(), v, g, now);
    let mut real = real_vars(v);
    let c = k.real();
    let res = catch_unwind(AssertUnwindSafe(|| real.update_reference(g as i32, now, &c).is_ok()));
    match (want, res) {
        (None, _) => Ok(None), // timestamp before the stored ones: outside the quantifier
        (Some(_), Err(_)) | (Some(_), Ok(false)) => Err(format!("update_reference failed on a non-decreasing timestamp: k={k:?} v={v:?} g={g} now={now}")),
        (Some((w, class)), Ok(true)) => {
            let got = model_vars(&real);
            // update_reference must not touch the accumulator or the major-swap timestamp
            if got != w {
                return Err(format!("update_reference: k={k:?} v={v:?} g={g} now={now}: stored {got:?}, documented rules give {w:?} ({class:?})"));
            }
            Ok(Some(class))
        }
    }
}

fn elapsed_alphabet(k: &K) -> Vec<u64> {
    let (f, d) = (k.filter as u64, k.decay as u64);
    let mut v = vec![0, f - 1, f, d - 1, d, 3599, 3600, 3601, 3600 + d];
    v.sort();
    v.dedup();
    v
}

/// a tick group some price can be in (the stored reference group is always a group the pool has been in)
pub fn reachable_group(gs: i64, g: i64) -> bool {
    g >= floor_div(MIN_TICK as i64, gs) && g <= floor_div(MAX_TICK as i64, gs)
}

const B1_DELTAS: [i64; 7] = [0, 1, -1, 2, -2, 6000, -6000];
const DELTAS: [i64; 13] = [0, 1, -1, 2, -2, 28, -28, 35, -35, 36, -36, 6000, -6000];
const GREFS: [i64; 5] = [0, -1, 7, -6932, 6931];

// ------------------------------------------------------------------------------------------------
// B2: accumulator + fee rate through the real manager
// ------------------------------------------------------------------------------------------------
/// Build a manager whose reference is exactly (vref, gref) (stored timestamps == now, so `new` leaves it unchanged) and whose
/// current group is g; check the accumulator, the total rate, the bounds.
pub fn check_rate(k: &K, static_rate: u16, vref: u64, gref: i64, g: i64) -> Result<(u64, u64), String> {
    let c = k.rc();
    let gs = k.group as i64;
    let tick = g * gs;
    if tick < MIN_TICK as i64 || tick > MAX_TICK as i64 || !reachable_group(gs, gref) {
        return Ok((u64::MAX, 0));
    }
    let v = RV { lru: T0, lms: T0, vref, gref, acc: 0 };
    let info = Some(AdaptiveFeeInfo { constants: k.real(), variables: real_vars(&v) });
    let r = catch_unwind(AssertUnwindSafe(|| {
        let mut m = FeeRateManager::new(true, tick as i32, T0, static_rate, &info).ok()?;
        m.update_volatility_accumulator().ok()?;
        let rate = m.get_total_fee_rate();
        let acc = m.get_next_adaptive_fee_info().map(|i| i.variables.volatility_accumulator)?;
        Some((rate, acc))
    }));
    let (rate, acc) = match r {
        Ok(Some(x)) => x,
        _ => return Err(format!("manager failed: k={k:?} vref={vref} gref={gref} g={g}")),
    };
    let want_acc = rf::acc_of(&c, vref, gref, g);
    let want = rf::total_rate(&c, static_rate as u64, want_acc);
    if acc as u64 != want_acc {
        return Err(format!("accumulator: k={k:?} vref={vref} gref={gref} g={g}: got {acc}, min(vref + |g-gref|*10^4, max) = {want_acc}"));
    }
    if acc as u64 > c.max_acc {
        return Err(format!("accumulator {acc} above the configured maximum {}", c.max_acc));
    }
    if rate as u64 != want {
        return Err(format!("total fee rate: k={k:?} static={static_rate} acc={acc}: got {rate}, reference min(static + ceil(cf*(acc*gs)^2/10^13), 10^5) = {want}"));
    }
    if (rate as u64) < static_rate as u64 || rate as u64 > rf::HARD_LIMIT {
        return Err(format!("total fee rate {rate} outside [static {static_rate}, 100000]"));
    }
    Ok((want, want_acc))
}

// ------------------------------------------------------------------------------------------------
// B3: walks
// ------------------------------------------------------------------------------------------------
#[derive(Clone, Debug)]
pub struct Walk {
    pub k: K,
    pub v: RV,
    pub static_rate: u16,
    pub a_to_b: bool,
    pub tick_current: i32,
    pub start_price: u128,
    pub now: u64,
    pub limit: u128,
    /// initialized ticks = multiples of this (0 = none)
    pub init_every: i32,
    /// liquidity is zero while the current tick index lies in [gap.0, gap.1)
    pub gap: Option<(i32, i32)>,
    /// at this price one final step moves nothing (the whole remaining amount went to fees)
    pub dust_at: Option<u128>,
}

#[derive(Default, Clone, Debug)]
pub struct WalkStats {
    pub walks: u64,
    pub segments: u64,
    pub skipped_segments: u64,
    pub multi_group_segments: u64,
    pub saturated_segments: u64,
    pub adaptive_segments: u64,
    pub capped_segments: u64,
    pub null_steps: u64,
    pub dust_endings: u64,
    pub boundary_endings: u64,
    pub zero_liquidity_segments: u64,
    pub class_unchanged: u64,
    pub class_decayed: u64,
    pub class_reset: u64,
    pub class_forced: u64,
    pub clamped_bounds: u64,
    pub distinct_rates: u64,
}
impl WalkStats {
    pub fn merge(&mut self, o: &WalkStats) {
        self.walks += o.walks;
        self.segments += o.segments;
        self.skipped_segments += o.skipped_segments;
        self.multi_group_segments += o.multi_group_segments;
        self.saturated_segments += o.saturated_segments;
        self.adaptive_segments += o.adaptive_segments;
        self.capped_segments += o.capped_segments;
        self.null_steps += o.null_steps;
        self.dust_endings += o.dust_endings;
        self.boundary_endings += o.boundary_endings;
        self.zero_liquidity_segments += o.zero_liquidity_segments;
        self.class_unchanged += o.class_unchanged;
        self.class_decayed += o.class_decayed;
        self.class_reset += o.class_reset;
        self.class_forced += o.class_forced;
        self.clamped_bounds += o.clamped_bounds;
        self.distinct_rates += o.distinct_rates;
    }
}

fn next_init(w: &Walk, curr_tick: i32) -> i32 {
    if w.init_every == 0 {
        return if w.a_to_b { MIN_TICK } else { MAX_TICK };
    }
    let e = w.init_every as i64;
    let t = curr_tick as i64;
    let n = if w.a_to_b { floor_div(t, e) * e } else { (floor_div(t, e) + 1) * e };
    n.clamp(MIN_TICK as i64, MAX_TICK as i64) as i32
}

/// Drive the real manager along the path, exactly as swap_manager::swap does (every step trades all the way to the
/// bounded target, except the optional final dust step).
pub fn run_walk(w: &Walk, st: &mut WalkStats) -> Result<(), String> {
    let c = w.k.rc();
    let gs = c.group;
    let g0 = floor_div(w.tick_current as i64, gs);
    let (rv, class) = match rf::update_reference(&c, &w.v, g0, w.now) {
        Some(x) => x,
        None => return Ok(()),
    };
    if w.v.vref > c.max_acc || w.v.acc > c.max_acc || !reachable_group(gs, w.v.gref) {
        return Ok(()); // not a state the program can store (vref <= acc <= max; changing the constants resets the variables)
    }
    let info = Some(AdaptiveFeeInfo { constants: w.k.real(), variables: real_vars(&w.v) });
    let ctx = |m: &str| format!("walk {}: {m}", walk_json(w));
    let res: Result<Result<(), String>, _> = catch_unwind(AssertUnwindSafe(|| {
        let mut m = FeeRateManager::new(w.a_to_b, w.tick_current, w.now, w.static_rate, &info).map_err(|e| ctx(&format!("FeeRateManager::new failed: {e:?}")))?;
        if let FeeRateManager::Adaptive { core_tick_group_range_lower_bound, core_tick_group_range_upper_bound, .. } = &m {
            if core_tick_group_range_lower_bound.is_none() || core_tick_group_range_upper_bound.is_none() {
                st.clamped_bounds += 1;
            }
        }
        let mut curr_price = w.start_price;
        let mut curr_tick = w.tick_current;
        let mut last: Option<(u128, u128)> = None;
        let mut iters = 0u32;
        let mut rates_seen: Vec<u32> = vec![];
        'outer: while curr_price != w.limit {
            let nti = next_init(w, curr_tick);
            let ntp = price_of_tick(nti as i64);
            let target = if w.a_to_b { w.limit.max(ntp) } else { w.limit.min(ntp) };
            loop {
                iters += 1;
                if iters > 20_000 {
                    return Err(ctx("the manager made no progress in 20000 iterations"));
                }
                m.update_volatility_accumulator().map_err(|e| ctx(&format!("update_volatility_accumulator: {e:?}")))?;
                let rate = m.get_total_fee_rate();
                let liq: u128 = match w.gap {
                    Some((lo, hi)) if curr_tick >= lo && curr_tick < hi => 0,
                    _ => 1_000_000,
                };
                let (bounded, skipped) = m.get_bounded_sqrt_price_target(target, liq);
                if (w.a_to_b && (bounded > curr_price || bounded < target)) || (!w.a_to_b && (bounded < curr_price || bounded > target)) {
                    return Err(ctx(&format!("bounded target {bounded} outside [current {curr_price}, target {target}]")));
                }
                let acc_now = m.get_next_adaptive_fee_info().unwrap().variables.volatility_accumulator;
                if acc_now as u64 > c.max_acc {
                    return Err(ctx(&format!("accumulator {acc_now} above max")));
                }
                if (rate as u64) < w.static_rate as u64 || rate as u64 > rf::HARD_LIMIT {
                    return Err(ctx(&format!("rate {rate} outside [static, 100000]")));
                }
                let dust = w.dust_at == Some(curr_price) && bounded != curr_price;
                let next_price = if dust { curr_price } else { bounded };
                let traded = liq > 0 && (dust || next_price != curr_price);
                if traded {
                    let (glo, ghi) = rf::groups_touched(curr_price, next_price, w.a_to_b, gs);
                    let mut all_sat = true;
                    for g in glo..=ghi {
                        let a = rf::acc_of(&c, rv.vref, rv.gref, g);
                        let want = rf::total_rate(&c, w.static_rate as u64, a);
                        if want != rate as u64 {
                            return Err(ctx(&format!(
                                "segment {curr_price} -> {next_price} (skipped={skipped}) charged rate {rate}, but tick group {g} (reference group {}, vref {}) has rate {want}",
                                rv.gref, rv.vref
                            )));
                        }
                        all_sat &= a == c.max_acc;
                    }
                    st.segments += 1;
                    st.skipped_segments += skipped as u64;
                    st.multi_group_segments += (ghi > glo) as u64;
                    st.saturated_segments += all_sat as u64;
                    st.adaptive_segments += (rate as u64 > w.static_rate as u64) as u64;
                    st.capped_segments += (rate as u64 == rf::HARD_LIMIT) as u64;
                    if !rates_seen.contains(&rate) {
                        rates_seen.push(rate);
                    }
                } else if liq == 0 && next_price != curr_price {
                    st.zero_liquidity_segments += 1;
                } else {
                    st.null_steps += 1;
                }
                last = Some((curr_price, next_price));
                if next_price == ntp {
                    curr_tick = if w.a_to_b { nti - 1 } else { nti };
                } else if next_price != curr_price {
                    curr_tick = tick_index_from_sqrt_price(&next_price);
                }
                curr_price = next_price;
                if !skipped {
                    m.advance_tick_group();
                } else {
                    m.advance_tick_group_after_skip(curr_price, ntp, nti).map_err(|e| ctx(&format!("advance_tick_group_after_skip: {e:?}")))?;
                }
                if dust {
                    st.dust_endings += 1;
                    break 'outer;
                }
                if curr_price == target {
                    break;
                }
            }
        }
        st.distinct_rates += rates_seen.len() as u64;
        // stored variables
        let out = model_vars(&m.get_next_adaptive_fee_info().unwrap().variables);
        if (out.gref, out.vref, out.lru, out.lms) != (rv.gref, rv.vref, rv.lru, rv.lms) {
            return Err(ctx(&format!("stored reference {out:?}, documented rules give {rv:?} ({class:?})")));
        }
        if let Some((_p0, p1)) = last {
            let (g, edge) = rf::end_groups(p1, gs);
            let want = rf::acc_of(&c, rv.vref, rv.gref, g);
            let adj = rf::acc_of(&c, rv.vref, rv.gref, g - 1);
            st.boundary_endings += edge as u64;
            if out.acc != want && !(edge && out.acc == adj) {
                return Err(ctx(&format!("stored accumulator {} but the swap ended at {p1} in tick group {g} whose accumulator is {want} (on the boundary with group {}: {edge}, its accumulator: {adj})", out.acc, g - 1)));
            }
        }
        Ok(())
    }));
    st.walks += 1;
    match class {
        RefClass::Unchanged => st.class_unchanged += 1,
        RefClass::Decayed => st.class_decayed += 1,
        RefClass::Reset => st.class_reset += 1,
        RefClass::Forced { .. } => st.class_forced += 1,
    }
    match res {
        Ok(r) => r,
        Err(_) => Err(ctx("the manager panicked")),
    }
}

fn walk_json(w: &Walk) -> Value {
    json!({"kind": "fn_walk", "k": w.k.json(), "v": rv_json(&w.v), "static": w.static_rate, "a_to_b": w.a_to_b, "tick_current": w.tick_current,
        "start_price": w.start_price.to_string(), "now": w.now, "limit": w.limit.to_string(), "init_every": w.init_every,
        "gap": w.gap.map(|g| vec![g.0, g.1]), "dust_at": w.dust_at.map(|d| d.to_string())})
}
fn walk_from(v: &Value) -> Option<Walk> {
    Some(Walk {
        k: K::from_json(&v["k"])?,
        v: rv_from(&v["v"])?,
        static_rate: v["static"].as_u64()? as u16,
        a_to_b: v["a_to_b"].as_bool()?,
        tick_current: v["tick_current"].as_i64()? as i32,
        start_price: v["start_price"].as_str()?.parse().ok()?,
        now: v["now"].as_u64()?,
        limit: v["limit"].as_str()?.parse().ok()?,
        init_every: v["init_every"].as_i64()? as i32,
        gap: v["gap"].as_array().map(|a| (a[0].as_i64().unwrap() as i32, a[1].as_i64().unwrap() as i32)),
        dust_at: v["dust_at"].as_str().and_then(|s| s.parse().ok()),
    })
}

/// All walks of one constant set.
fn walks_of(k: &K, out: &mut Vec<Walk>) {
    let c = k.rc();
    let gs = c.group;
    let ts = k.ts as i64;
    let max = c.max_acc;
    let mut vrefs = vec![0, 5000.min(max), max.saturating_sub(15_000), max];
    vrefs.sort();
    vrefs.dedup();
    let mut starts: Vec<i64> = vec![0, gs / 2, -gs - 1, 2 * ts, MAX_TICK as i64 - 2 * gs - 1, MIN_TICK as i64 + 2 * gs + 1];
    starts.retain(|t| *t > MIN_TICK as i64 && *t < MAX_TICK as i64);
    starts.sort();
    starts.dedup();
    // (lru, lms, now): unchanged / decayed / reset
    let times = [(T0, T0 - 5, T0), (T0, T0 - 5, T0 + c.filter), (T0 - 7, T0, T0 + c.decay)];
    for vref in &vrefs {
        for goff in [0i64, -1, 2, -40, 40] {
            for (lru, lms, now) in times {
                for t0 in &starts {
                    for shifted in [false, true] {
                        if shifted && t0.rem_euclid(ts) != 0 {
                            continue;
                        }
                        let tick_current = if shifted { *t0 - 1 } else { *t0 };
                        let start_price = price_of_tick(*t0);
                        let g0 = floor_div(*t0, gs);
                        let v = RV { lru, lms, vref: *vref, gref: g0 + goff, acc: max };
                        for a_to_b in [true, false] {
                            let dir: i64 = if a_to_b { -1 } else { 1 };
                            // limits: inside the group, exactly the first boundary, 3.x groups, 45.x groups
                            let first_b = super::c14_world::boundary_ahead(start_price, gs, a_to_b, 1);
                            let mut limits: Vec<u128> = vec![];
                            let pb = price_of_tick(first_b * gs);
                            limits.push(if pb > start_price { start_price + (pb - start_price) / 3 } else { pb + (start_price - pb) * 2 / 3 });
                            limits.push(pb);
                            // one price unit short of / past the boundary (inside the boundary tick, not on the boundary)
                            limits.push(pb + 1);
                            limits.push(pb - 1);
                            let pb3 = price_of_tick((first_b + dir * 3) * gs);
                            limits.push((pb3 as i128 + dir as i128) as u128);
                            for n in [3i64, 45] {
                                let a = price_of_tick((first_b + dir * n) * gs);
                                let b = price_of_tick((first_b + dir * (n + 1)) * gs);
                                limits.push(a.min(b) + (a.max(b) - a.min(b)) / 3);
                            }
                            limits.retain(|l| *l != start_price && *l >= MIN_SQRT_PRICE && *l <= MAX_SQRT_PRICE && ((a_to_b && *l < start_price) || (!a_to_b && *l > start_price)));
                            limits.dedup();
                            for limit in limits {
                                // layouts: sparse / dense / dense with a zero-liquidity gap one spacing ahead
                                let gap_lo = if a_to_b { (floor_div(*t0, ts) - 2) * ts } else { (floor_div(*t0, ts) + 1) * ts };
                                for (init_every, gap) in [(0i32, None), (k.ts as i32, None), (k.ts as i32, Some((gap_lo as i32, (gap_lo + ts) as i32)))] {
                                    for dust_at in [None, Some(pb)] {
                                        if let Some(d) = dust_at {
                                            // the dust step must lie strictly before the limit
                                            if (a_to_b && d <= limit) || (!a_to_b && d >= limit) {
                                                continue;
                                            }
                                        }
                                        out.push(Walk { k: *k, v, static_rate: 3000, a_to_b, tick_current: tick_current as i32, start_price, now, limit, init_every, gap, dust_at });
                                    }
                                }
                            }
                        }
                    }
                }
            }
        }
    }
}

// ------------------------------------------------------------------------------------------------
// B4: major swap threshold
// ------------------------------------------------------------------------------------------------
pub fn check_major(threshold: u16, pre: u128, post: u128, lms: u64, now: u64) -> Result<Option<bool>, String> {
    let want = match rf::is_major(pre, post, threshold) {
        Some(x) => x,
        None => return Ok(None),
    };
    let k = K { ts: 64, filter: 1, decay: 2, reduction: 0, control: 0, max_acc: 0, group: 1, threshold };
    let mut v = real_vars(&RV { lru: 5, lms, vref: 3, gref: -2, acc: 1 });
    let c = k.real();
    let r = catch_unwind(AssertUnwindSafe(|| v.update_major_swap_timestamp(pre, post, now, &c).is_ok()));
    match r {
        Ok(true) => {}
        _ => return Ok(None), // failed computation: not constrained
    }
    let got = model_vars(&v);
    let want_lms = if want { now } else { lms };
    if got != (RV { lru: 5, lms: want_lms, vref: 3, gref: -2, acc: 1 }) {
        return Err(format!("major swap: threshold={threshold} pre={pre} post={post}: stored {got:?}; documented test (larger >= floor(smaller * p(threshold) / 2^64)) says major={want}"));
    }
    Ok(Some(want))
}

// ------------------------------------------------------------------------------------------------
pub fn run_fn(ctx: &Ctx, r: &mut Report) {
    let quick = ctx.tier.is_quick();
    let (ks, rejected) = constant_sets(false);
    r.set("fn_constant_sets", ks.len() as u64);
    r.set("fn_constant_sets_rejected_by_validator", rejected);
    r.guard("fn_constant_sets", ks.len() as u64);

    // ---- B1 ----
    // periods/reduction/max matter here; control factor and group size do not -> one representative of each
    let mut b1: Vec<K> = ks.iter().filter(|k| k.control == 1500 && (k.ts, k.group) == (64, 16)).cloned().collect();
    b1.extend(ks.iter().filter(|k| k.control == 0 && (k.ts, k.group) == (1, 1) && k.reduction == 9999).cloned());
    let res: Vec<(u64, [u64; 5], Option<(String, Value)>)> = b1
        .par_iter()
        .map(|k| {
            let max = k.max_acc as u64;
            let mut n = 0u64;
            let mut cls = [0u64; 5];
            let mut bad = None;
            let mut vals = vec![0u64, 1, 4999, 10_000, max / 2, max.saturating_sub(1), max];
            vals.retain(|x| *x <= max);
            vals.sort();
            vals.dedup();
            for vref in &vals {
                for acc in &vals {
                    for gref in [0i64, -6932, 7] {
                        for dl in [-100i64, 0, 5, 3599, 3600, 3601] {
                            let lru = T0;
                            let lms = (T0 as i64 + dl) as u64;
                            for lms in [lms, 0] {
                                for e in elapsed_alphabet(k) {
                                    let now = lru.max(lms) + e;
                                    for d in B1_DELTAS {
                                        let v = RV { lru, lms, vref: *vref, gref, acc: *acc };
                                        n += 1;
                                        match check_update_reference(k, &v, gref + d, now) {
                                            Ok(Some(RefClass::Unchanged)) => cls[0] += 1,
                                            Ok(Some(RefClass::Decayed)) => cls[1] += 1,
                                            Ok(Some(RefClass::Reset)) => cls[2] += 1,
                                            Ok(Some(RefClass::Forced { overrides })) => cls[3 + overrides as usize] += 1,
                                            Ok(None) => {}
                                            Err(e) => {
                                                if bad.is_none() {
                                                    bad = Some((e, json!({"kind": "fn_update_reference", "k": k.json(), "v": rv_json(&v), "g": gref + d, "now": now})));
                                                }
                                            }
                                        }
                                    }
                                }
                            }
                        }
                    }
                }
            }
            (n, cls, bad)
        })
        .collect();
    let mut evals = 0u64;
    let mut cls = [0u64; 5];
    for (n, c, bad) in res {
        evals += n;
        for i in 0..5 {
            cls[i] += c[i];
        }
        if let Some((e, case)) = bad {
            if r.violations.len() < 3 {
                r.violation(format!("fn_update_reference:{case}"), e, case);
            }
        }
    }
    r.set("fn_update_reference_cases", evals);
    r.guard("fn_ref_unchanged", cls[0]);
    r.guard("fn_ref_decayed", cls[1]);
    r.guard("fn_ref_reset", cls[2]);
    r.guard("fn_ref_forced_reset_age", cls[3]);
    r.guard("fn_ref_forced_reset_overriding_filter_or_decay_rule", cls[4]);
    let mut total = evals;

    // ---- B2 ----
    let b2: Vec<K> = ks.iter().filter(|k| (k.filter, k.decay) == (30, 600) && k.reduction == 5000).cloned().collect();
    let res: Vec<(u64, u64, u64, u64, u64, Vec<u64>, Option<(String, Value)>)> = b2
        .par_iter()
        .map(|k| {
            let max = k.max_acc as u64;
            let (mut n, mut sat, mut capped, mut capped_total_only, mut adaptive) = (0u64, 0u64, 0u64, 0u64, 0u64);
            let mut rates = vec![];
            let mut bad = None;
            let mut vrefs = vec![0u64, 1, 4999, 5000, max / 2, max.saturating_sub(1), max];
            vrefs.retain(|x| *x <= max);
            vrefs.sort();
            vrefs.dedup();
            for st in [0u16, 1, 3000, 60_000] {
                for vref in &vrefs {
                    for gref in GREFS {
                        for d in DELTAS {
                            match check_rate(k, st, *vref, gref, gref + d) {
                                Ok((u64::MAX, _)) => {}
                                Ok((rate, acc)) => {
                                    n += 1;
                                    sat += (acc == max) as u64;
                                    adaptive += (rate > st as u64) as u64;
                                    if rate == rf::HARD_LIMIT {
                                        capped += 1;
                                        let a = rf::adaptive_rate(&k.rc(), acc);
                                        if a < rf::HARD_LIMIT as u128 {
                                            capped_total_only += 1;
                                        }
                                    }
                                    if !rates.contains(&rate) {
                                        rates.push(rate);
                                    }
                                }
                                Err(e) => {
                                    if bad.is_none() {
                                        bad = Some((e, json!({"kind": "fn_rate", "k": k.json(), "static": st, "vref": vref, "gref": gref, "g": gref + d})));
                                    }
                                }
                            }
                        }
                    }
                }
            }
            (n, sat, capped, capped_total_only, adaptive, rates, bad)
        })
        .collect();
    let (mut n2, mut sat, mut capped, mut cto, mut adaptive, mut distinct) = (0u64, 0u64, 0u64, 0u64, 0u64, 0u64);
    let mut zero_cf_ok = 0u64;
    for (k, (n, s, c, ct, a, rates, bad)) in b2.iter().zip(res) {
        n2 += n;
        sat += s;
        capped += c;
        cto += ct;
        adaptive += a;
        distinct += rates.len() as u64;
        if k.control == 0 {
            zero_cf_ok += n; // check_rate already required rate == static + 0
        }
        if let Some((e, case)) = bad {
            if r.violations.len() < 3 {
                r.violation(format!("fn_rate:{case}"), e, case);
            }
        }
    }
    // ---- B2b: the widths of the rate computation ----
    // The uncapped adaptive rate ceil(cf * (acc*gs)^2 / 10^13) needs up to 38 bits for valid constants (acc*gs < 2^32, cf < 10^5),
    // while the result is a u32 capped at 10^5. For every (group size, control factor) of a small alphabet and every k >= 1 the
    // smallest accumulator whose uncapped rate reaches k * 2^32 is computed (and its two neighbours): there a rate truncated to 32
    // bits before the cap would read as a small number. All such accumulators below the validity bound are enumerated.
    let mut wn = 0u64;
    let mut wwin = 0u64;
    let mut wbad: Option<(String, Value)> = None;
    for (ts, gs) in [(1u16, 1u16), (64, 1), (64, 64), (128, 2), (512, 512), (4096, 4096), (32768, 32768), (32768, 1)] {
        for cf in [1u32, 1_500, 4_000, 25_000, 64_000, 99_999] {
            let max_acc = (u32::MAX as u64 / gs as u64) as u32;
            let k = K { ts, filter: 30, decay: 600, reduction: 5000, control: cf, max_acc, group: gs, threshold: gs };
            let unc = |acc: u64| -> u128 {
                let x = (acc as u128) * (gs as u128);
                (cf as u128 * x * x + 9_999_999_999_999) / 10_000_000_000_000
            };
            let mut kk: u128 = 1;
            loop {
                let target = kk << 32;
                if unc(max_acc as u64) < target {
                    break;
                }
                // smallest acc with unc(acc) >= target, by bisection
                let (mut lo, mut hi) = (0u64, max_acc as u64);
                while lo < hi {
                    let mid = lo + (hi - lo) / 2;
                    if unc(mid) >= target {
                        hi = mid;
                    } else {
                        lo = mid + 1;
                    }
                }
                for acc in [lo.saturating_sub(1), lo, (lo + 1).min(max_acc as u64)] {
                    for st in [0u16, 3000] {
                        wn += 1;
                        if unc(acc) >= target && (unc(acc) & 0xffff_ffff) < rf::HARD_LIMIT as u128 {
                            wwin += 1;
                        }
                        if let Err(e) = check_rate(&k, st, acc, 0, 0) {
                            if wbad.is_none() {
                                wbad = Some((e, json!({"kind": "fn_rate", "k": k.json(), "static": st, "vref": acc, "gref": 0, "g": 0})));
                            }
                        }
                    }
                }
                kk += 1;
            }
        }
    }
    if let Some((e, case)) = wbad {
        if r.violations.len() < 3 {
            r.violation(format!("fn_rate:{case}"), e, case);
        }
    }
    r.set("fn_rate_width_cases", wn);
    r.guard("fn_rate_cases_whose_uncapped_rate_reads_small_in_32_bits", wwin);
    total += wn;
    r.set("fn_rate_cases", n2);
    r.guard("fn_rate_saturated", sat);
    r.guard("fn_rate_hard_limit", capped);
    r.guard("fn_rate_hard_limit_total_only", cto);
    r.guard("fn_rate_adaptive_positive", adaptive);
    r.guard("fn_rate_control_factor_zero", zero_cf_ok);
    total += n2;

    // ---- B3 ----
    let (wk, _) = constant_sets(true);
    let wk: Vec<K> = if quick { wk.into_iter().filter(|k| k.reduction != 0 && k.control != 1 && (k.ts, k.group) != (64, 1)).collect() } else { wk };
    let out: Vec<(WalkStats, Option<(String, Value)>)> = wk
        .par_iter()
        .map(|k| {
            let mut ws = vec![];
            walks_of(k, &mut ws);
            let mut st = WalkStats::default();
            let mut bad = None;
            for w in &ws {
                if let Err(e) = run_walk(w, &mut st) {
                    if bad.is_none() {
                        bad = Some((e, walk_json(w)));
                    }
                }
            }
            (st, bad)
        })
        .collect();
    let mut st = WalkStats::default();
    for (s, bad) in out {
        st.merge(&s);
        if let Some((e, case)) = bad {
            if r.violations.len() < 3 {
                r.violation(format!("fn_walk:{case}"), e, case);
            }
        }
    }
    r.set("fn_walk_constant_sets", wk.len() as u64);
    r.set("fn_walks", st.walks);
    r.set("fn_walk_segments", st.segments);
    r.guard("fn_walk_segments", st.segments);
    r.guard("fn_walk_skipped_segments", st.skipped_segments);
    r.guard("fn_walk_multi_group_segments", st.multi_group_segments);
    r.guard("fn_walk_saturated_segments", st.saturated_segments);
    r.guard("fn_walk_adaptive_segments", st.adaptive_segments);
    r.guard("fn_walk_hard_limit_segments", st.capped_segments);
    r.guard("fn_walk_null_steps", st.null_steps);
    r.guard("fn_walk_dust_endings", st.dust_endings);
    r.guard("fn_walk_boundary_endings", st.boundary_endings);
    r.guard("fn_walk_zero_liquidity_segments", st.zero_liquidity_segments);
    r.guard("fn_walk_ref_unchanged", st.class_unchanged);
    r.guard("fn_walk_ref_decayed", st.class_decayed);
    r.guard("fn_walk_ref_reset", st.class_reset);
    r.guard("fn_walk_core_range_bound_clamped", st.clamped_bounds);
    total += st.walks;

    // ---- B4 ----
    let mut n4 = 0u64;
    let (mut maj, mut notmaj) = (0u64, 0u64);
    let ticks: [i64; 15] = [0, 1, -1, 63, 64, 65, -64, 5632, -5632, 443_635, 443_636, -443_636, -443_635, 100_000, -300_000];
    for threshold in [1u16, 2, 64, 128, 5632, 65_535] {
        let f = price_of_tick(threshold as i64);
        for t in ticks {
            for dp in [0i128, 1, -1] {
                let base = price_of_tick(t) as i128 + dp;
                if base < MIN_SQRT_PRICE as i128 || base > MAX_SQRT_PRICE as i128 {
                    continue;
                }
                let base = base as u128;
                // candidates for the other price: the exact documented target +-1 (up), the inverse boundary +-1 (down), tick-sum price
                let up: u128 = ((crate::refmodel::bu(base) * crate::refmodel::bu(f)) >> 64u32).try_into().unwrap_or(u128::MAX);
                let down: u128 = ((crate::refmodel::bu(base) << 64u32) / crate::refmodel::bu(f)).try_into().unwrap_or(0);
                let mut others = vec![base, price_of_tick(t + threshold as i64), price_of_tick(t - threshold as i64)];
                for x in [up, down] {
                    for d in [-2i128, -1, 0, 1, 2] {
                        let y = x as i128 + d;
                        if y >= MIN_SQRT_PRICE as i128 && y <= MAX_SQRT_PRICE as i128 {
                            others.push(y as u128);
                        }
                    }
                }
                for o in others {
                    for (pre, post) in [(base, o), (o, base)] {
                        for (lms, now) in [(T0 - 3, T0), (T0, T0)] {
                            n4 += 1;
                            match check_major(threshold, pre, post, lms, now) {
                                Ok(Some(true)) => maj += 1,
                                Ok(Some(false)) => notmaj += 1,
                                Ok(None) => {}
                                Err(e) => {
                                    if r.violations.len() < 3 {
                                        let case = json!({"kind": "fn_major", "threshold": threshold, "pre": pre.to_string(), "post": post.to_string(), "lms": lms, "now": now});
                                        r.violation(format!("fn_major:{case}"), e, case);
                                    }
                                }
                            }
                        }
                    }
                }
            }
        }
    }
    r.set("fn_major_cases", n4);
    r.guard("fn_major_true", maj);
    r.guard("fn_major_false", notmaj);
    total += n4;

    r.set("evaluations", total);
    r.set("distinct_nontrivial", cls.iter().sum::<u64>() + distinct + st.distinct_rates + maj + notmaj);
    r.set(
        "fn_rule",
        "distinct = update_reference cases that executed a rule (by class) + distinct total-rate values per constant set (B2) + distinct rates charged per walk (B3) + decided major-swap tests",
    );
    r.sample(json!({"fn": "update_reference", "classes [unchanged, decayed, reset, forced(age only), forced(overriding)]": cls.to_vec()}));
    if let Some(k) = wk.first() {
        let mut ws = vec![];
        walks_of(k, &mut ws);
        if let Some(w) = ws.get(ws.len() / 2) {
            r.sample(walk_json(w));
        }
    }
}

pub fn replay_fn(case: &Value) -> Option<Result<(), String>> {
    match case["kind"].as_str()? {
        "fn_update_reference" => {
            let k = K::from_json(&case["k"])?;
            let v = rv_from(&case["v"])?;
            Some(check_update_reference(&k, &v, case["g"].as_i64()?, case["now"].as_u64()?).map(|_| ()))
        }
        "fn_rate" => {
            let k = K::from_json(&case["k"])?;
            Some(check_rate(&k, case["static"].as_u64()? as u16, case["vref"].as_u64()?, case["gref"].as_i64()?, case["g"].as_i64()?).map(|_| ()))
        }
        "fn_walk" => {
            let w = walk_from(case)?;
            let mut st = WalkStats::default();
            Some(run_walk(&w, &mut st))
        }
        "fn_major" => Some(
            check_major(case["threshold"].as_u64()? as u16, case["pre"].as_str()?.parse().ok()?, case["post"].as_str()?.parse().ok()?, case["lms"].as_u64()?, case["now"].as_u64()?).map(|_| ()),
        ),
        _ => None,
    }
}
