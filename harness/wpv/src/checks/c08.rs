//! C08 — liquidity <-> token amounts. Function-level part in `c08_fn` (exact oracle over boundary cross products + small box,
//! Anchor vs Pinocchio). Handler-level part (here, Engine A): explicit-state search over W-std / chain / ts=1 worlds; every
//! successful increase / decrease transition is judged from real balances (vault and wallet deltas == the exact amounts
//! rounded up / down, only one token outside the range, event == amounts moved) and re-executed with caller maxima / minima one
//! below, equal to and one above the realised amounts; increase_liquidity_by_token_amounts_v2 is executed in every state over a
//! maxima alphabet and must add the largest liquidity whose cost fits both maxima.
use crate::liqhandlers::{self, AmtStats};
use crate::ops::{Lim, Op, Part, Stepped};
use crate::poolexplore::{self, PoolModel};
use crate::refmodel::*;
use crate::report::{Ctx, Report};
use crate::stdworlds::{self, Built};
use crate::world::{self, balance, Enc, StdWorld};
use serde_json::Value;
use std::sync::Mutex;
use svm::Ledger;
use whirlpool::math::sqrt_price_from_tick_index;

fn worlds(thorough: bool) -> Vec<Built> {
    let roots = stdworlds::std_roots();
    let mut v = vec![stdworlds::build_with_roots(&stdworlds::std_spec("c08-std-dfd", [Enc::Dynamic, Enc::Fixed, Enc::Dynamic], 3000, 300), &roots)];
    v.push(stdworlds::build_with_roots(&stdworlds::chain_spec("c08-chain-fdf", [Enc::Fixed, Enc::Dynamic, Enc::Fixed], 100, 0), &stdworlds::chain_roots()));
    v.push(stdworlds::build_with_roots(&stdworlds::chain_spec_at("c08-chain-low", [Enc::Dynamic, Enc::Fixed, Enc::Dynamic], 3000, 300, -112640), &stdworlds::chain_roots()[1..]));
    if thorough {
        v.push(stdworlds::build_with_roots(&stdworlds::chain_spec_at("c08-chain-high", [Enc::Fixed, Enc::Dynamic, Enc::Fixed], 100, 2500, 225280), &stdworlds::chain_roots()));
        let ts1_roots: Vec<(&'static str, Vec<Op>)> = vec![
            ("fresh", vec![]),
            ("funded", vec![Op::Inc { pos: 0, liq: stdworlds::BIG * 1000, v2: false }, Op::Inc { pos: 1, liq: stdworlds::BIG * 100, v2: true }, Op::Inc { pos: 2, liq: stdworlds::BIG * 100, v2: true }]),
        ];
        v.push(stdworlds::build_with_roots(&stdworlds::ts1_spec("c08-ts1"), &ts1_roots));
        let splash_roots: Vec<(&'static str, Vec<Op>)> = vec![("fresh", vec![]), ("funded", vec![Op::Inc { pos: 0, liq: stdworlds::BIG, v2: false }])];
        v.push(stdworlds::build_with_roots(&stdworlds::splash_spec("c08-splash"), &splash_roots));
    }
    v
}

fn alphabet(b: &Built) -> Vec<Op> {
    stdworlds::shift_repos(alphabet0(b), stdworlds::origin_of(&b.w))
}

fn alphabet0(b: &Built) -> Vec<Op> {
    let n = b.w.positions.len() as u8;
    let mut a = vec![];
    for pos in 0..n {
        a.push(Op::Inc { pos, liq: stdworlds::BIG, v2: pos % 2 == 0 });
        a.push(Op::Inc { pos, liq: 1, v2: pos % 2 == 1 });
        a.push(Op::Inc { pos, liq: 987_654_321_987, v2: true });
        a.push(Op::Dec { pos, part: Part::All, v2: pos % 2 == 1 });
        a.push(Op::Dec { pos, part: Part::Half, v2: pos % 2 == 0 });
        a.push(Op::Dec { pos, part: Part::One, v2: true });
        // 2^128 - x as the amount to remove: must be refused (as a signed delta it would read +x and turn into a deposit paid OUT)
        a.push(Op::Dec { pos, part: Part::Wrap(1_000_000_007 + pos as u64), v2: pos % 2 == 0 });
    }
    a.push(Op::Dec { pos: 0, part: Part::Wrap(1), v2: false });
    a.push(Op::Dec { pos: 1, part: Part::Over(1), v2: true });
    a.push(Op::Dec { pos: 0, part: Part::Over(u64::MAX), v2: false });
    a.push(Op::Inc { pos: 0, liq: 0, v2: false });
    a.push(Op::Inc { pos: 1, liq: (1u128 << 127) + 5, v2: true });
    a.push(Op::Inc { pos: 2, liq: u128::MAX, v2: false });
    if b.w.pool.tick_spacing == 64 {
        a.push(Op::Repos { pos: 0, lower: -64, upper: 192, liq: 123_456_789 });
        a.push(Op::Repos { pos: 0, lower: -128, upper: 128, liq: stdworlds::BIG });
        a.push(Op::Repos { pos: 1, lower: 192, upper: 5696, liq: 1 });
    }
    for a_to_b in [true, false] {
        a.push(Op::Swap { a_to_b, exact_in: true, amount: u64::MAX >> 8, lim: Lim::NextTick, v2: a_to_b }); // exactly on a bound / shifted state
        a.push(Op::Swap { a_to_b, exact_in: true, amount: 3_000_000, lim: Lim::None, v2: !a_to_b });
        a.push(Op::Swap { a_to_b, exact_in: true, amount: u64::MAX >> 8, lim: Lim::PastNextTick, v2: a_to_b });
    }
    a
}

#[derive(Default, Clone, Debug)]
struct ByAmt {
    executed: u64,
    ok: u64,
    liquidity_zero: u64,
    a_binding: u64,
    b_binding: u64,
}

const MAXIMA: [(u64, u64); 6] = [(1_000_000, 1_000_000), (1, 1_000_000_000), (1_000_000_000, 1), (0, 5), (5, 0), (u64::MAX >> 12, 777)];

/// increase_liquidity_by_token_amounts_v2 in one state for every position and maxima pair.
fn by_token_amounts(l: &Ledger, w: &StdWorld, s: &mut ByAmt) -> Result<(), String> {
    let pool = w.pool.state(l);
    for p in &w.positions {
        if !p.exists(l) {
            continue;
        }
        let p = &p.at(l);
        let (pl, pu) = (sqrt_price_from_tick_index(p.lower), sqrt_price_from_tick_index(p.upper));
        let cost = |liq: u128| -> (num_bigint::BigUint, num_bigint::BigUint) {
            let (qa, qb) = if pool.tick_current_index < p.lower {
                (exact_delta_a(pl, pu, liq), Q::zero())
            } else if pool.tick_current_index < p.upper {
                (exact_delta_a(pool.sqrt_price, pu, liq), exact_delta_b(pl, pool.sqrt_price, liq))
            } else {
                (Q::zero(), exact_delta_b(pl, pu, liq))
            };
            (qa.ceil(), qb.ceil())
        };
        for (ma, mb) in MAXIMA {
            let ix = world::ix_increase_by_token_amounts(p, &w.lp, ma, mb, MIN_SQRT_PRICE, MAX_SQRT_PRICE);
            let mut c = l.clone();
            let o = svm::process(&mut c, &ix);
            s.executed += 1;
            let before = p.state(l).liquidity;
            if o.ok() {
                s.ok += 1;
                let added = p.state(&c).liquidity - before;
                let (ca, cb) = cost(added);
                let da = balance(l, &w.lp.acct_a) - balance(&c, &w.lp.acct_a);
                let db = balance(l, &w.lp.acct_b) - balance(&c, &w.lp.acct_b);
                if bu(da as u128) != ca || bu(db as u128) != cb {
                    return Err(format!("by-token-amounts({ma},{mb}) on [{}..{}) added {added} and took {da}/{db}, exact cost rounded up is {ca}/{cb}", p.lower, p.upper));
                }
                if da > ma || db > mb {
                    return Err(format!("by-token-amounts({ma},{mb}) took {da}/{db}: above the caller's maximum"));
                }
                if added == 0 {
                    return Err("by-token-amounts succeeded adding zero liquidity".into());
                }
                // largest liquidity whose cost fits both maxima
                let (na, nb) = cost(added + 1);
                let a_over = na > bu(ma as u128);
                let b_over = nb > bu(mb as u128);
                if !a_over && !b_over {
                    return Err(format!(
                        "by-token-amounts({ma},{mb}) on [{}..{}) added {added}, but {} would also fit (cost {na}/{nb})",
                        p.lower, p.upper, added + 1
                    ));
                }
                if a_over {
                    s.a_binding += 1;
                }
                if b_over {
                    s.b_binding += 1;
                }
            } else if o.code() == Some(crate::oracles::ec(whirlpool::errors::ErrorCode::LiquidityZero)) {
                s.liquidity_zero += 1;
                let (na, nb) = cost(1);
                if na <= bu(ma as u128) && nb <= bu(mb as u128) {
                    return Err(format!("by-token-amounts({ma},{mb}) on [{}..{}) refused with LiquidityZero although liquidity 1 costs {na}/{nb}", p.lower, p.upper));
                }
            }
            else if o.code() == Some(crate::oracles::ec(whirlpool::errors::ErrorCode::TokenMaxExceeded)) {
                // the instruction derives the liquidity from the maxima itself: "exceeds the maximum" can only be the answer when not
                // even one unit of liquidity fits
                let (na, nb) = cost(1);
                if na <= bu(ma as u128) && nb <= bu(mb as u128) {
                    return Err(format!("by-token-amounts({ma},{mb}) on [{}..{}) refused with TokenMaxExceeded although liquidity 1 costs {na}/{nb}, within the maxima", p.lower, p.upper));
                }
            }
            // other failures (overflow in the estimate etc.) are unconstrained: "for which the computation succeeds"
        }
        // price slippage bounds: current price outside [min,max] must be refused
        for (lo, hi) in [(pool.sqrt_price + 1, MAX_SQRT_PRICE), (MIN_SQRT_PRICE, pool.sqrt_price - 1)] {
            let ix = world::ix_increase_by_token_amounts(p, &w.lp, 1_000_000, 1_000_000, lo, hi);
            let mut c = l.clone();
            let o = svm::process(&mut c, &ix);
            s.executed += 1;
            if o.ok() {
                return Err(format!("by-token-amounts accepted price {} outside the caller's bounds [{lo},{hi}]", pool.sqrt_price));
            }
        }
    }
    Ok(())
}

fn model<'a>(b: &'a Built, stats: &'a Mutex<AmtStats>, by: &'a Mutex<ByAmt>, by_every: u128) -> PoolModel<'a> {
    PoolModel::new(
        &b.w,
        alphabet(b),
        Box::new(move |l: &Ledger, w: &StdWorld| {
            // quick tier: every state whose fingerprint is 0 mod 4; thorough: every state
            if by_every > 1 && l.fingerprint_of(&crate::ops::core_keys(l, w), false) % by_every != 0 {
                return Ok(());
            }
            let mut local = ByAmt::default();
            let r = by_token_amounts(l, w, &mut local);
            let mut g = by.lock().unwrap();
            g.executed += local.executed;
            g.ok += local.ok;
            g.liquidity_zero += local.liquidity_zero;
            g.a_binding += local.a_binding;
            g.b_binding += local.b_binding;
            r
        }),
        Box::new(move |pre: &Ledger, st: &Stepped, w: &StdWorld, op: &Op| {
            if let Op::Repos { pos, lower, upper, liq } = op {
                let mut local = AmtStats::default();
                let r = liqhandlers::reposition_oracle(pre, st, w, &w.positions[*pos as usize].at(pre), *lower, *upper, *liq, &mut local);
                let mut g = stats.lock().unwrap();
                g.increases += local.increases;
                g.decreases += local.decreases;
                g.below += local.below;
                g.inside += local.inside;
                g.above += local.above;
                g.bound_reruns += local.bound_reruns;
                g.bound_failures += local.bound_failures;
                return r;
            }
            let (pos, liq, increase, v2) = match op {
                Op::Inc { pos, liq, v2 } => (*pos as usize, *liq, true, *v2),
                Op::Dec { pos, part, v2 } => {
                    let cur = w.positions[*pos as usize].state(pre).liquidity;
                    (*pos as usize, part.amount(cur), false, *v2)
                }
                _ => return Ok(()),
            };
            let p = &w.positions[pos].at(pre);
            let v2 = v2 || !w.pool.is_v1_capable();
            let ix_of = |a: u64, b: u64| if increase { world::ix_increase(p, &w.lp, liq, a, b, v2) } else { world::ix_decrease(p, &w.lp, liq, a, b, v2) };
            let mut local = AmtStats::default();
            let r = liqhandlers::amounts_oracle(pre, st, w, p, liq, increase, &ix_of, &mut local);
            let mut g = stats.lock().unwrap();
            g.increases += local.increases;
            g.decreases += local.decreases;
            g.below += local.below;
            g.inside += local.inside;
            g.above += local.above;
            g.bound_reruns += local.bound_reruns;
            g.bound_failures += local.bound_failures;
            g.nonzero_remainder += local.nonzero_remainder;
            r
        }),
    )
}

pub fn run(ctx: &Ctx) -> Report {
    let mut r = Report::new("C08", "model_checking");
    super::c08_fn::run_fn(ctx, &mut r);
    let fn_rule = r.coverage.get("fn_rule").and_then(|v| v.as_str()).unwrap_or("").to_string();
    r.set("rule", fn_rule);
    if r.violations.is_empty() {
        let ws = worlds(!ctx.tier.is_quick());
        let share = ctx.left() * 0.9 / ws.len() as f64;
        let stats = Mutex::new(AmtStats::default());
        let by = Mutex::new(ByAmt::default());
        for b in &ws {
            let m = model(b, &stats, &by, ctx.pick(4, 1));
            let out = poolexplore::run_world(ctx, &mut r, b, &m, ctx.depth(3, 5), share);
            poolexplore::fold(&mut r, &b.name, &out, &m.alphabet[..3]);
            if !r.violations.is_empty() {
                break;
            }
        }
        let s = stats.lock().unwrap().clone();
        let bs = by.lock().unwrap().clone();
        r.set("handler_increases_checked", s.increases);
        r.set("handler_decreases_checked", s.decreases);
        r.set("handler_bound_reexecutions", s.bound_reruns);
        r.set("by_token_amounts_executions", bs.executed);
        r.guard("handler_increases_checked", s.increases);
        r.guard("handler_decreases_checked", s.decreases);
        r.guard("handler_price_below_range", s.below);
        r.guard("handler_price_inside_range", s.inside);
        r.guard("handler_price_above_range", s.above);
        r.guard("handler_nonzero_remainder", s.nonzero_remainder);
        r.guard("handler_bound_failures_seen", s.bound_failures);
        r.guard("by_token_amounts_ok", bs.ok);
        r.guard("by_token_amounts_liquidity_zero", bs.liquidity_zero);
        r.guard("by_token_amounts_token_a_binding", bs.a_binding);
        r.guard("by_token_amounts_token_b_binding", bs.b_binding);
    }
    r.set("exhaustive", false);
    r.assume("svm-lite faithfully replaces the validator (DESIGN §2.1); plain SPL mints here (transfer-fee mints are C16)");
    r
}

pub fn replay(case: &Value) -> Result<(), String> {
    if let Some(res) = super::c08_fn::replay_fn(case) {
        return res;
    }
    match case["kind"].as_str() {
        Some("ops") => {
            let ws = worlds(true);
            let name = case["world"].as_str().ok_or("world")?;
            let b = ws.iter().find(|b| b.name == name).ok_or("unknown world")?;
            let stats = Mutex::new(AmtStats::default());
            let by = Mutex::new(ByAmt::default());
            let m = model(b, &stats, &by, 1);
            poolexplore::replay_ops(b, &m, case["root"].as_str().ok_or("root")?, &case["ops"])
        }
        _ => Err("bad case".into()),
    }
}
