//! C08 — liquidity <-> token amounts. Function-level part in `c08_fn`; the handler-level part (real token
//! transfers, token_max / token_min) is added here by the main agent.
use crate::report::{Ctx, Report};
use serde_json::Value;

pub fn run(ctx: &Ctx) -> Report {
    let mut r = Report::new("C08", "exploration");
    super::c08_fn::run_fn(ctx, &mut r);
    let fn_rule = r.coverage.get("fn_rule").and_then(|v| v.as_str()).unwrap_or("").to_string();
    r.set("rule", fn_rule);
    r.set("exhaustive", false);
    r
}

pub fn replay(case: &Value) -> Result<(), String> {
    match super::c08_fn::replay_fn(case) {
        Some(res) => res,
        None => Err("bad case".into()),
    }
}
