//! C02 — one swap step is priced on the exact curve and rounded only in the pool's favour (DESIGN §C02).
//!
//! Engine B (bounded exhaustive input enumeration of the REAL `compute_swap`, `get_amount_delta_a/b`, `U256Muldiv`)
//! against exact rationals (num-bigint). Nothing is sampled: every phase is a full cross product of explicit finite sets.
//!
//!  (i)   boundary cross product: ordered price pairs x liquidity x (amount alphabet U instance-derived amounts: the exact
//!        capacity of the step to its target +-1, its gross-of-fee variants +-1, half / third of the capacity) x fee x mode;
//!        the direction is implied by the pair (equal prices are run in both directions).
//!  (ii)  complete boxes: (a) L,amount in 1..=48 on the tick prices -3..=3 and their +-1 neighbours; (b) "unit" boxes in which
//!        one token unit moves the price by about one representable unit, so every rounding boundary is crossed:
//!        L ~ 2^63, 2^64, 2^65 with prices 2^64+i (both token paths non-degenerate), L in 1..=K with prices MIN+i
//!        (token-A path, 256-bit division with non-zero remainders), L ~ 2^64 with prices MAX-i (token-B path).
//!  (iii) U256Muldiv: div (both remainder modes), mul, add, sub, comparisons for every pair of 256-bit values whose
//!        64-bit words come from a boundary alphabet; shifts, add-inverse, down-cast, Display for every single value;
//!        division by zero must panic "divide by zero" (the in-tree behaviour) rather than return a value; a panic for a
//!        non-zero divisor is a violation.
//!
//! Oracle on every SUCCESSFUL step (errors and panics of the code under test are counted, not constrained):
//!   * next_price lies between current and target (inclusive): moves only in the trade direction, never past the target;
//!   * amount_in  == ceil(exact_in(current, next_price));
//!   * amount_out == floor(exact_out(current, next_price)), or the smaller requested amount in exact-out mode;
//!   * exact-in: amount_in <= floor(remaining*(10^6-fee)/10^6) (the net budget is never exceeded);
//!     stops short of target => amount_in + fee_amount == remaining, and moving further is not affordable
//!     (violation only if TWO units further are still affordable: the statement grants one unit; the number of cases that
//!     need that unit is reported as `tightness_needing_slack`, 0 on the pinned tree);
//!   * exact-out: stops short of target => amount_out == requested; whenever the request (not the target) limited the
//!     step, a price two units less far delivers < requested (one unit: counted as above);
//!   * fee_amount == ceil(amount_in*fee/(10^6-fee)) on steps that reach the target and on exact-out steps.
//! History: on the tree before commit 730ae7e `U256Muldiv::div` panicked (index out of bounds) whenever the Knuth-D add-back fired
//! on the first quotient digit of a 4-word dividend (e.g. 2^192 / (2^128+1), reachable from compute_swap(1, 0, 2^64, 2^64+1, MIN,
//! exact-in, a->b)). Part (iii) flags a panic of `div` on a non-zero divisor as a violation (its oracle is q*d+r == n for every
//! non-zero divisor); at the swap-step level panics are counted (`swap_steps_panic`) but not constrained.
//! compute_swap can reach the target in exact-out mode although the request is smaller than what the segment can deliver
//! (get_next_sqrt_price rounds onto the target): then amount_out is the capped request; the oracle handles that
//! (`max_by_rounding_onto_target`).
use crate::refmodel::{bu, ceil_div, exact_delta_a, exact_delta_b, Q, MAX_SQRT_PRICE, MIN_SQRT_PRICE};
use crate::report::{Ctx, Report};
use num_bigint::BigUint;
use num_traits::{One, ToPrimitive, Zero};
use rayon::prelude::*;
use serde_json::{json, Value};
use std::collections::BTreeMap;
use std::panic::{catch_unwind, AssertUnwindSafe};
use std::sync::atomic::{AtomicBool, Ordering};
use whirlpool::math::{compute_swap, get_amount_delta_a, get_amount_delta_b, mul_u256, sqrt_price_from_tick_index, U256Muldiv};

const FEE_DEN: u128 = 1_000_000;

#[derive(Clone, Copy, Debug, PartialEq, Eq)]
struct Case {
    amount: u64,
    fee: u32,
    liq: u128,
    p0: u128,
    pt: u128,
    exact_in: bool,
    a_to_b: bool,
}
impl Case {
    fn key(&self) -> String {
        format!("swap:{}:{}:{}:{}:{}:{}:{}", self.amount, self.fee, self.liq, self.p0, self.pt, self.exact_in, self.a_to_b)
    }
    fn json(&self) -> Value {
        json!({"kind":"swap","amount":self.amount.to_string(),"fee_rate":self.fee,"liquidity":self.liq.to_string(),
               "sqrt_price_current":self.p0.to_string(),"sqrt_price_target":self.pt.to_string(),
               "amount_specified_is_input":self.exact_in,"a_to_b":self.a_to_b})
    }
    fn from_json(v: &Value) -> Option<Case> {
        let s = |k: &str| v.get(k)?.as_str().map(|x| x.to_string());
        Some(Case {
            amount: s("amount")?.parse().ok()?,
            fee: v.get("fee_rate")?.as_u64()? as u32,
            liq: s("liquidity")?.parse().ok()?,
            p0: s("sqrt_price_current")?.parse().ok()?,
            pt: s("sqrt_price_target")?.parse().ok()?,
            exact_in: v.get("amount_specified_is_input")?.as_bool()?,
            a_to_b: v.get("a_to_b")?.as_bool()?,
        })
    }
    fn exact_in_q(&self, p1: u128) -> Q {
        if self.a_to_b {
            exact_delta_a(self.p0, p1, self.liq)
        } else {
            exact_delta_b(self.p0, p1, self.liq)
        }
    }
    fn exact_out_q(&self, p1: u128) -> Q {
        if self.a_to_b {
            exact_delta_b(self.p0, p1, self.liq)
        } else {
            exact_delta_a(self.p0, p1, self.liq)
        }
    }
    /// `p` moved `k` representable units toward the target, not past it.
    fn further(&self, p: u128, k: u128) -> u128 {
        if self.a_to_b {
            p.saturating_sub(k).max(self.pt)
        } else {
            p.saturating_add(k).min(self.pt)
        }
    }
    /// `p` moved `k` representable units back toward the current price, not past it.
    fn nearer(&self, p: u128, k: u128) -> u128 {
        if self.a_to_b {
            p.saturating_add(k).min(self.p0)
        } else {
            p.saturating_sub(k).max(self.p0)
        }
    }
}

// ---- counters -------------------------------------------------------------------------------------------------------
const BR: usize = 0; // 8 slots: (max?4:0) | (a_to_b?2:0) | (exact_in?1:0)
const EVALS: usize = 8;
const OK: usize = 9;
const ERR: usize = 10;
const PANIC: usize = 11;
const NONTRIVIAL: usize = 12;
const EXCEEDS_RECOVERY: usize = 13;
const MAX_BY_ROUNDING: usize = 14;
const OUT_CAPPED: usize = 15;
const NEED_SLACK: usize = 16;
const REM: usize = 17; // 8 slots: (token B?4:0) | (round up?2:0) | (remainder non-zero?1:0)
const ZERO_LIQ_OK: usize = 25;
const SKIPPED_OVERLAP: usize = 26;
const DELTA_EVALS: usize = 27;
const TIGHT_IN: usize = 28;
const TIGHT_OUT: usize = 29;
const PARTIAL_MOVED: usize = 30;
const DELTA_OK: usize = 31;
const NEAR_INT: usize = 32;
const BAND: usize = 33;
const NC: usize = 34;

#[derive(Clone)]
struct Stats {
    c: [u64; NC],
    errs: BTreeMap<String, u64>,
    panics: BTreeMap<String, u64>,
    panic_sample: Option<Value>,
    viol: Vec<(String, String, Value)>,
    samples: [Option<Value>; 8],
}
impl Default for Stats {
    fn default() -> Self {
        Stats { c: [0; NC], errs: BTreeMap::new(), panics: BTreeMap::new(), panic_sample: None, viol: vec![], samples: Default::default() }
    }
}
impl Stats {
    fn merge(mut self, o: Stats) -> Stats {
        for i in 0..NC {
            self.c[i] += o.c[i];
        }
        for (k, v) in o.errs {
            *self.errs.entry(k).or_insert(0) += v;
        }
        for (k, v) in o.panics {
            *self.panics.entry(k).or_insert(0) += v;
        }
        if self.panic_sample.is_none() {
            self.panic_sample = o.panic_sample;
        }
        for v in o.viol {
            if self.viol.len() < 6 {
                self.viol.push(v);
            }
        }
        for i in 0..8 {
            if self.samples[i].is_none() {
                self.samples[i] = o.samples[i].clone();
            }
        }
        self
    }
    fn violation(&mut self, key: String, detail: String, case: Value) {
        if self.viol.len() < 2 {
            self.viol.push((key, detail, case));
        }
    }
}

struct StepOut {
    amount_in: u64,
    amount_out: u64,
    next_price: u128,
    fee_amount: u64,
}

enum Outcome {
    Ok(StepOut),
    Err(String),
    Panic(String),
}

fn call(c: &Case) -> Outcome {
    let r = catch_unwind(AssertUnwindSafe(|| compute_swap(c.amount, c.fee, c.liq, c.p0, c.pt, c.exact_in, c.a_to_b)));
    match r {
        Err(p) => Outcome::Panic(panic_msg(&p)),
        Ok(Err(e)) => Outcome::Err(format!("{:?}", e)),
        Ok(Ok(s)) => Outcome::Ok(StepOut { amount_in: s.amount_in, amount_out: s.amount_out, next_price: s.next_price, fee_amount: s.fee_amount }),
    }
}

fn panic_msg(p: &Box<dyn std::any::Any + Send>) -> String {
    p.downcast_ref::<&str>().map(|s| s.to_string()).or_else(|| p.downcast_ref::<String>().cloned()).unwrap_or_default()
}

fn net_budget(c: &Case) -> BigUint {
    bu(c.amount as u128) * bu(FEE_DEN - c.fee as u128) / bu(FEE_DEN)
}

fn rem_slot(token_b: bool, round_up: bool, q: &Q) -> Option<usize> {
    if q.n.is_zero() {
        return None;
    }
    Some(REM + if token_b { 4 } else { 0 } + if round_up { 2 } else { 0 } + if q.is_int() { 0 } else { 1 })
}

/// The property on one successful step. Err(detail) iff violated. Counters are only touched on success paths.
fn oracle(c: &Case, s: &StepOut, st: &mut Stats) -> Result<(), String> {
    let nx = s.next_price;
    // -- direction / never past target
    let inside = if c.a_to_b { c.pt <= nx && nx <= c.p0 } else { c.p0 <= nx && nx <= c.pt };
    if !inside {
        return Err(format!(
            "next_price {nx} is not between current {} and target {} (a_to_b={}): moved against the trade direction or past the target",
            c.p0, c.pt, c.a_to_b
        ));
    }
    let is_max = nx == c.pt;
    // -- amounts on the exact curve
    let ein = c.exact_in_q(nx);
    let eout = c.exact_out_q(nx);
    let exp_in = ein.ceil();
    let fl_out = eout.floor();
    let req = bu(c.amount as u128);
    let exp_out = if c.exact_in || fl_out <= req { fl_out.clone() } else { req.clone() };
    if bu(s.amount_in as u128) != exp_in {
        return Err(format!(
            "amount_in {} != ceil(exact input {} = {:.6}) for the move {} -> {nx}",
            s.amount_in,
            exp_in,
            ein.to_f64(),
            c.p0
        ));
    }
    if bu(s.amount_out as u128) != exp_out {
        return Err(format!(
            "amount_out {} != {} = min(floor(exact output {:.6}), requested) for the move {} -> {nx}",
            s.amount_out,
            exp_out,
            eout.to_f64(),
            c.p0
        ));
    }
    let fee_formula = |amount_in: u64| ceil_div(&(bu(amount_in as u128) * bu(c.fee as u128)), &bu(FEE_DEN - c.fee as u128));
    let mut need_slack = false;
    if c.exact_in {
        let net = net_budget(c);
        if exp_in > net {
            return Err(format!("exact-in: amount_in {} exceeds the budget net of fee {} (remaining {}, fee rate {})", s.amount_in, net, c.amount, c.fee));
        }
        if !is_max {
            if s.amount_in as u128 + s.fee_amount as u128 != c.amount as u128 {
                return Err(format!(
                    "exact-in step stopped short of its target but amount_in {} + fee {} != remaining {}",
                    s.amount_in, s.fee_amount, c.amount
                ));
            }
            st.c[TIGHT_IN] += 1;
            let f1 = c.further(nx, 1);
            if c.exact_in_q(f1).ceil() <= net {
                need_slack = true;
                let f2 = c.further(nx, 2);
                if c.exact_in_q(f2).ceil() <= net {
                    return Err(format!(
                        "exact-in step stopped at {nx} but the net budget {} also pays for the move to {f2} (needs {}), more than one price unit further",
                        net,
                        c.exact_in_q(f2).ceil()
                    ));
                }
            }
        } else if bu(s.fee_amount as u128) != fee_formula(s.amount_in) {
            return Err(format!("fee_amount {} != ceil(amount_in*fee/(10^6-fee)) = {} on a step reaching its target", s.fee_amount, fee_formula(s.amount_in)));
        }
    } else {
        let cap_target = c.exact_out_q(c.pt).floor();
        if !is_max && s.amount_out != c.amount {
            return Err(format!("exact-out step stopped short of its target but delivered {} of the requested {}", s.amount_out, c.amount));
        }
        let limited_by_request = req < cap_target || !is_max;
        if limited_by_request && nx != c.p0 {
            st.c[TIGHT_OUT] += 1;
            let n1 = c.nearer(nx, 1);
            if c.exact_out_q(n1).floor() >= req {
                need_slack = true;
                let n2 = c.nearer(nx, 2);
                if n2 != nx && n2 != n1 && c.exact_out_q(n2).floor() >= req {
                    return Err(format!(
                        "exact-out step moved to {nx} but {n2}, more than one price unit less far, already delivers the requested {}",
                        c.amount
                    ));
                }
            }
        }
        if bu(s.fee_amount as u128) != fee_formula(s.amount_in) {
            return Err(format!("fee_amount {} != ceil(amount_in*fee/(10^6-fee)) = {} on an exact-out step", s.fee_amount, fee_formula(s.amount_in)));
        }
        if is_max && req < cap_target {
            st.c[MAX_BY_ROUNDING] += 1;
        }
        if fl_out > req {
            st.c[OUT_CAPPED] += 1;
        }
    }
    // -- bookkeeping (branch coverage)
    if need_slack {
        st.c[NEED_SLACK] += 1;
    }
    let slot = BR + if is_max { 4 } else { 0 } + if c.a_to_b { 2 } else { 0 } + if c.exact_in { 1 } else { 0 };
    st.c[slot] += 1;
    if !is_max && nx != c.p0 {
        st.c[PARTIAL_MOVED] += 1;
    }
    if s.amount_in > 0 || s.amount_out > 0 {
        st.c[NONTRIVIAL] += 1;
        if st.samples[slot - BR].is_none() && s.amount_in > 1 && s.amount_out > 1 {
            st.samples[slot - BR] = Some(json!({"input": c.json(), "result": {"amount_in": s.amount_in.to_string(), "amount_out": s.amount_out.to_string(),
                "next_price": nx.to_string(), "fee_amount": s.fee_amount.to_string()}, "branch": if is_max {"max"} else {"partial"}}));
        }
    }
    if c.liq == 0 {
        st.c[ZERO_LIQ_OK] += 1;
    }
    // input token is A iff a_to_b; it is rounded up, the output token down
    if let Some(i) = rem_slot(!c.a_to_b, true, &ein) {
        st.c[i] += 1;
    }
    if let Some(i) = rem_slot(c.a_to_b, false, &eout) {
        st.c[i] += 1;
    }
    // the fixed-side amount to the target does not fit u64, yet the step succeeded (ExceedsMax recovery path)
    let fixed_full = if c.exact_in { c.exact_in_q(c.pt).ceil() } else { c.exact_out_q(c.pt).floor() };
    if fixed_full > bu(u64::MAX as u128) {
        st.c[EXCEEDS_RECOVERY] += 1;
    }
    Ok(())
}

fn eval_case(c: &Case, st: &mut Stats) {
    st.c[EVALS] += 1;
    match call(c) {
        Outcome::Panic(m) => {
            st.c[PANIC] += 1;
            *st.panics.entry(m.clone()).or_insert(0) += 1;
            if st.panic_sample.is_none() {
                st.panic_sample = Some(json!({"input": c.json(), "panic": m}));
            }
        }
        Outcome::Err(e) => {
            st.c[ERR] += 1;
            *st.errs.entry(e).or_insert(0) += 1;
        }
        Outcome::Ok(s) => {
            st.c[OK] += 1;
            if let Err(d) = oracle(c, &s, st) {
                let detail = format!(
                    "{d} | got amount_in={} amount_out={} next_price={} fee_amount={}",
                    s.amount_in, s.amount_out, s.next_price, s.fee_amount
                );
                st.violation(c.key(), detail, c.json());
            }
        }
    }
}

/// Direct check of the two amount functions on one (p0, p1, L) triple, both rounding modes.
fn delta_ok(token_b: bool, p0: u128, p1: u128, liq: u128, round_up: bool) -> Result<Option<(u64, Q)>, String> {
    let r = catch_unwind(|| if token_b { get_amount_delta_b(p0, p1, liq, round_up) } else { get_amount_delta_a(p0, p1, liq, round_up) });
    let v = match r {
        Ok(Ok(v)) => v,
        _ => return Ok(None),
    };
    let q = if token_b { exact_delta_b(p0, p1, liq) } else { exact_delta_a(p0, p1, liq) };
    let want = if round_up { q.ceil() } else { q.floor() };
    if bu(v as u128) != want {
        return Err(format!(
            "get_amount_delta_{}({p0}, {p1}, {liq}, round_up={round_up}) = {v}, exact {:.6} rounds to {want}",
            if token_b { "b" } else { "a" },
            q.to_f64()
        ));
    }
    Ok(Some((v, q)))
}

fn eval_deltas(p0: u128, p1: u128, liq: u128, st: &mut Stats) {
    for token_b in [false, true] {
        for round_up in [false, true] {
            st.c[DELTA_EVALS] += 1;
            match delta_ok(token_b, p0, p1, liq, round_up) {
                Ok(Some(_)) => st.c[DELTA_OK] += 1,
                Ok(None) => {}
                Err(d) => st.violation(
                    format!("delta:{token_b}:{p0}:{p1}:{liq}:{round_up}"),
                    d,
                    json!({"kind":"delta","token_b":token_b,"p0":p0.to_string(),"p1":p1.to_string(),"liquidity":liq.to_string(),"round_up":round_up}),
                ),
            }
        }
    }
}

// ---- alphabets ------------------------------------------------------------------------------------------------------
fn sorted<T: Ord>(mut v: Vec<T>) -> Vec<T> {
    v.sort();
    v.dedup();
    v
}

/// quick: the alphabet of the design (tick prices 0, +-1, +-2, +-63, +-64, +-65, +-5632, +-443635, +-443636, each +-1).
/// thorough: additionally every power-of-two tick (the bit boundaries of sqrt_price_from_tick_index), a few more ticks,
/// and powers of two of the price itself, each +-1.
fn price_alphabet(quick: bool) -> Vec<u128> {
    let mut ticks: Vec<i32> = vec![0, 1, 2, 63, 64, 65, 5632, 443635, 443636];
    let mut v = vec![MIN_SQRT_PRICE, MAX_SQRT_PRICE, 1u128 << 64];
    if !quick {
        ticks.extend((2..=18).map(|k| 1i32 << k));
        ticks.extend([3, 88, 1000, 100000, 223027, 300000, 443634]);
        for k in [33u32, 48, 63, 65, 80, 95] {
            for q in [(1u128 << k) - 1, 1u128 << k, (1u128 << k) + 1] {
                v.push(q);
            }
        }
    }
    let ticks: Vec<i32> = sorted(ticks.iter().flat_map(|&t| [t, -t]).collect());
    for &t in &ticks {
        let p = sqrt_price_from_tick_index(t);
        for q in [p - 1, p, p + 1] {
            if (MIN_SQRT_PRICE..=MAX_SQRT_PRICE).contains(&q) {
                v.push(q);
            }
        }
    }
    sorted(v)
}

fn liquidity_alphabet(quick: bool) -> Vec<u128> {
    let mut v = vec![0, 1, 2, 1 << 32, (1 << 64) - 1, 1 << 64, (1 << 64) + 1, 1 << 96, 1 << 127, u128::MAX];
    if !quick {
        v.extend([3, (1 << 32) - 1, (1 << 32) + 1, 1 << 48, 1 << 63, 1 << 65, 1 << 80, (1 << 96) - 1, (1 << 96) + 1, 1 << 112, (1 << 127) - 1, (1 << 127) + 1, u128::MAX - (u64::MAX as u128), u128::MAX - 1]);
    }
    sorted(v)
}

fn amount_alphabet() -> Vec<u64> {
    sorted(vec![0, 1, 2, 3, (1 << 32) - 1, (1 << 32) + 1, (1 << 63) - 1, (1 << 63) + 1, u64::MAX - 1, u64::MAX])
}

const FEES_FULL: [u32; 6] = [0, 1, 3000, 60000, 99999, 100000];
const FEES_BOX: [u32; 4] = [0, 3000, 60000, 100000];

/// Base alphabet plus the instance-derived amounts of (p0, pt, L): capacity of the step +-1, gross-of-fee variants +-1,
/// half and third of the capacities (so that large-liquidity instances have partial steps that really move the price).
fn amounts_for(p0: u128, pt: u128, liq: u128, base: &[u64], fees: &[u32]) -> Vec<u64> {
    let mut v: Vec<u64> = base.to_vec();
    if p0 != pt {
        let c = Case { amount: 0, fee: 0, liq, p0, pt, exact_in: true, a_to_b: pt < p0 };
        let in_cap = c.exact_in_q(pt).ceil();
        let out_cap = c.exact_out_q(pt).floor();
        let mut push3 = |x: &BigUint| {
            for d in [-1i32, 0, 1] {
                let y = if d < 0 {
                    if x.is_zero() {
                        continue;
                    }
                    x - 1u32
                } else {
                    x + d as u32
                };
                if let Some(z) = y.to_u64() {
                    v.push(z);
                }
            }
        };
        push3(&in_cap);
        push3(&out_cap);
        for &f in fees {
            if f != 0 {
                let g = ceil_div(&(&in_cap * bu(FEE_DEN)), &bu(FEE_DEN - f as u128));
                push3(&g);
            }
        }
        for x in [&in_cap / 2u32, &in_cap / 3u32, &out_cap / 2u32] {
            if let Some(z) = x.to_u64() {
                v.push(z);
            }
        }
    }
    sorted(v)
}

struct Phase1 {
    prices: Vec<u128>,
    liqs: Vec<u128>,
    base: Vec<u64>,
    fees: Vec<u32>,
}
impl Phase1 {
    fn contains(&self, c: &Case) -> bool {
        self.prices.binary_search(&c.p0).is_ok()
            && self.prices.binary_search(&c.pt).is_ok()
            && self.liqs.binary_search(&c.liq).is_ok()
            && self.fees.contains(&c.fee)
            && amounts_for(c.p0, c.pt, c.liq, &self.base, &self.fees).binary_search(&c.amount).is_ok()
    }
}

fn directions(p0: u128, pt: u128) -> &'static [bool] {
    if pt < p0 {
        &[true]
    } else if pt > p0 {
        &[false]
    } else {
        &[true, false]
    }
}

/// One work item = one (p0, pt, L) triple; everything below it is enumerated sequentially.
fn run_triple(p0: u128, pt: u128, liq: u128, amounts: &[u64], fees: &[u32], skip: Option<&Phase1>) -> Stats {
    let mut st = Stats::default();
    eval_deltas(p0, pt, liq, &mut st);
    for &a_to_b in directions(p0, pt) {
        for &amount in amounts {
            for &fee in fees {
                for exact_in in [true, false] {
                    let c = Case { amount, fee, liq, p0, pt, exact_in, a_to_b };
                    if let Some(p1) = skip {
                        if p1.contains(&c) {
                            st.c[SKIPPED_OVERLAP] += 1;
                            continue;
                        }
                    }
                    eval_case(&c, &mut st);
                }
            }
        }
    }
    st
}

fn run_box(ctx: &Ctx, capped: &AtomicBool, prices: &[u128], liqs: &[u128], amounts: &[u64], fees: &[u32], p1: &Phase1) -> Stats {
    let np = prices.len();
    (0..np * np * liqs.len())
        .into_par_iter()
        .map(|i| {
            if ctx.left() < 0.0 {
                capped.store(true, Ordering::Relaxed);
                return Stats::default();
            }
            let (pi, rest) = (i / (np * liqs.len()), i % (np * liqs.len()));
            let (ti, li) = (rest / liqs.len(), rest % liqs.len());
            run_triple(prices[pi], prices[ti], liqs[li], amounts, fees, Some(p1))
        })
        .reduce(Stats::default, Stats::merge)
}

// ---- near-integer liquidities --------------------------------------------------------------------------------------
/// Denominators of the continued-fraction convergents of num/den (den > 0), up to `max`: the values q for which q*num/den is
/// closest to an integer among all smaller multipliers. With num/den = (p_hi - p_lo)*2^64 / (p_lo*p_hi) these are the
/// liquidities whose exact token-A amount lies within 1/(p_lo*p_hi)*den/q' of an integer — from below and from above
/// alternately — which is where a rounding done in two steps, on a truncated intermediate, or in the wrong direction shows.
fn convergent_denominators(num: &BigUint, den: &BigUint, max: &BigUint) -> Vec<u128> {
    let (mut n, mut d) = (num % den, den.clone());
    let (mut q_prev, mut q_cur) = (BigUint::one(), BigUint::zero()); // q_{-2}, q_{-1}
    let mut out = vec![];
    // first partial quotient is floor(num/den) (dropped by the reduction above: it only shifts the integer part)
    let mut first = true;
    while !d.is_zero() {
        let a = if first { BigUint::zero() } else { &n / &d };
        if !first {
            let r = &n % &d;
            n = std::mem::replace(&mut d, r);
        } else {
            // x = n/d < 1: a_0 = 0, continue with d/n
            std::mem::swap(&mut n, &mut d);
        }
        first = false;
        let q_next = &a * &q_cur + &q_prev;
        q_prev = std::mem::replace(&mut q_cur, q_next);
        if &q_cur > max {
            break;
        }
        if let Some(q) = q_cur.to_u128() {
            if q > 0 {
                out.push(q);
            }
        }
    }
    out.dedup();
    out
}

/// (p_lo, p_hi, L) triples with L a near-integer liquidity of the pair (plus the liquidities around the u64 boundary of the amount), for token A (x = L*d*2^64 / (p_lo*p_hi)) and for
/// token B (x = L*d / 2^64).
fn near_integer_triples(quick: bool) -> Vec<(u128, u128, u128)> {
    let mut ticks: Vec<i32> = vec![-443636, -443635, -5632, -128, -64, -3, -2, -1, 0, 1, 2, 63, 64, 5632, 443634];
    if !quick {
        ticks.extend((2..=18).flat_map(|k| [1i32 << k, -(1i32 << k)]));
        ticks.extend([-300000, -223027, -100000, -1000, 88, 1000, 100000, 223027, 300000]);
    }
    let ticks = sorted(ticks);
    let widths: &[i32] = if quick { &[1, 64] } else { &[1, 2, 8, 64, 128, 32896] };
    let max = BigUint::one() << 100u32;
    let mut v = vec![];
    for &t in &ticks {
        for &w in widths {
            if t + w > 443636 {
                continue;
            }
            let (lo, hi) = (sqrt_price_from_tick_index(t), sqrt_price_from_tick_index(t + w));
            let d = bu(hi - lo);
            for q in convergent_denominators(&(&d << 64u32), &(bu(lo) * bu(hi)), &max) {
                v.push((lo, hi, q));
            }
            for q in convergent_denominators(&d, &(BigUint::one() << 64u32), &max) {
                v.push((lo, hi, q));
            }
            // liquidities at which the exact amount passes the largest representable one (2^64 - 1): token A and token B
            let two64 = BigUint::one() << 64u32;
            for lstar in [(&two64 * bu(lo) * bu(hi)) / (&d << 64u32), (&two64 * &two64) / &d] {
                for k in 0..6u32 {
                    let x = &lstar + k;
                    if x > bu(3) {
                        if let Some(q) = (x - 3u32).to_u128() {
                            v.push((lo, hi, q));
                        }
                    }
                }
            }
        }
    }
    sorted(v)
}

// ---- U256Muldiv -----------------------------------------------------------------------------------------------------
fn words_to_big(w: &[u64; 4]) -> BigUint {
    let mut b = [0u8; 32];
    for i in 0..4 {
        b[i * 8..i * 8 + 8].copy_from_slice(&w[i].to_le_bytes());
    }
    BigUint::from_bytes_le(&b)
}
fn u256(w: &[u64; 4]) -> U256Muldiv {
    U256Muldiv { items: *w }
}
fn nwords(w: &[u64]) -> usize {
    (0..w.len()).rev().find(|&i| w[i] != 0).map(|i| i + 1).unwrap_or(0)
}

#[derive(Default, Clone)]
struct DivClass {
    path: usize,          // 0 zero dividend, 1 fewer words, 2 u128 path, 3 single-word divisor, 4 Knuth D
    qhat_corrected: bool, // the q-hat correction loop ran at least once
    add_back: bool,       // the estimate was still one too large: add-back executed
    add_back_top: bool,   // ... on the step that uses the dividend carry space
}

/// Shadow of the in-tree Knuth-D loop (same normalisation, same q-hat test) used ONLY to classify which branches a
/// division exercises. The verdict on the real result comes from num-bigint, never from this shadow.
fn classify_div(n: &[u64; 4], d: &[u64; 4]) -> DivClass {
    let (m, k) = (nwords(n), nwords(d));
    let mut c = DivClass::default();
    if m == 0 {
        return c;
    }
    if m < k {
        c.path = 1;
        return c;
    }
    if m < 3 {
        c.path = 2;
        return c;
    }
    if k == 1 {
        c.path = 3;
        return c;
    }
    c.path = 4;
    let s = d[k - 1].leading_zeros();
    let mut u = [0u64; 5];
    let mut v = [0u64; 4];
    if s == 0 {
        u[..4].copy_from_slice(n);
        v = *d;
    } else {
        u[4] = n[3] >> (64 - s);
        for i in (1..4).rev() {
            u[i] = (n[i] << s) | (n[i - 1] >> (64 - s));
            v[i] = (d[i] << s) | (d[i - 1] >> (64 - s));
        }
        u[0] = n[0] << s;
        v[0] = d[0] << s;
    }
    let lo = |x: u128| x as u64 as u128;
    for j in (0..=m - k).rev() {
        let d0 = ((u[j + k] as u128) << 64) | u[j + k - 1] as u128;
        let d1 = v[k - 1] as u128;
        let mut qhat = d0 / d1;
        let mut rhat = d0 - d1 * qhat;
        let d0_2 = u[j + k - 2] as u128;
        let d1_2 = v[k - 2] as u128;
        let mut cmp1 = (lo(rhat) << 64) | d0_2;
        let mut cmp2 = qhat.wrapping_mul(d1_2);
        while (qhat >> 64) != 0 || cmp2 > cmp1 {
            c.qhat_corrected = true;
            qhat -= 1;
            rhat += d1;
            if (rhat >> 64) != 0 {
                break;
            }
            cmp1 = (lo(rhat) << 64) | lo(cmp1);
            cmp2 = cmp2.wrapping_sub(d1_2);
        }
        let mut kk: u128 = 0;
        for i in 0..k {
            let p = qhat.wrapping_mul(v[i] as u128);
            let t = (u[j + i] as u128).wrapping_sub(kk).wrapping_sub(lo(p));
            u[j + i] = t as u64;
            kk = ((p >> 64) as u64).wrapping_sub((t >> 64) as u64) as u128;
        }
        let d_head = u[j + k] as u128;
        u[j + k] = d_head.wrapping_sub(kk) as u64;
        if kk > d_head {
            c.add_back = true;
            if j + k == 4 {
                c.add_back_top = true;
            }
            let mut carry: u128 = 0;
            for i in 0..k {
                let t = (u[j + i] as u128).wrapping_add(v[i] as u128).wrapping_add(carry);
                u[j + i] = t as u64;
                carry = t >> 64;
            }
            u[j + k] = (u[j + k] as u128).wrapping_add(carry) as u64;
        }
    }
    c
}

const U_EVALS: usize = 0;
const U_DIV_OK: usize = 1;
const U_DIV_PANIC_NONZERO: usize = 2;
const U_DIV_ZERO_PANICS: usize = 3;
const U_PATH: usize = 4; // 5 slots
const U_QHAT: usize = 9;
const U_ADDBACK: usize = 10;
const U_ADDBACK_TOP: usize = 11;
const U_REM_ZERO: usize = 12;
const U_REM_NONZERO: usize = 13;
const U_MUL_OVERFLOW: usize = 14;
const U_MUL_EXACT: usize = 15;
const U_UNARY: usize = 16;
const U_NC: usize = 17;

#[derive(Clone)]
struct UStats {
    c: [u64; U_NC],
    viol: Vec<(String, String, Value)>,
}
impl Default for UStats {
    fn default() -> Self {
        UStats { c: [0; U_NC], viol: vec![] }
    }
}
impl UStats {
    fn merge(mut self, o: UStats) -> UStats {
        for i in 0..U_NC {
            self.c[i] += o.c[i];
        }
        for v in o.viol {
            if self.viol.len() < 6 {
                self.viol.push(v);
            }
        }
        self
    }
}

fn wjson(w: &[u64; 4]) -> Value {
    json!(w.iter().map(|x| x.to_string()).collect::<Vec<_>>())
}
fn wparse(v: &Value) -> Option<[u64; 4]> {
    let a = v.as_array()?;
    let mut w = [0u64; 4];
    for i in 0..4 {
        w[i] = a.get(i)?.as_str()?.parse().ok()?;
    }
    Some(w)
}

enum DivRes {
    Ok,
    ZeroPanics,
}

/// All binary operations on one (n, d) pair against num-bigint. Err((op, detail)) iff a successful result is wrong.
fn u256_pair_ok(n: &[u64; 4], d: &[u64; 4], nb: &BigUint, db: &BigUint) -> Result<(DivRes, bool), (String, String)> {
    let (x, y) = (u256(n), u256(d));
    let m256 = BigUint::one() << 256u32;
    // division
    let r = catch_unwind(|| {
        let a = x.div(y, true);
        let b = x.div(y, false);
        (a.0.items, a.1.items, b.0.items, b.1.items)
    });
    let div_res = if db.is_zero() {
        match r {
            Err(p) => {
                let msg = panic_msg(&p);
                if !msg.contains("divide by zero") {
                    return Err(("div".into(), format!("division by zero panicked with '{msg}', not 'divide by zero'")));
                }
                DivRes::ZeroPanics
            }
            Ok(v) => return Err(("div".into(), format!("division by zero returned a value: q={:?} r={:?}", v.0, v.1))),
        }
    } else {
        match r {
            // the oracle of part (iii) is q*d + r == n for EVERY non-zero divisor: a panic is a wrong answer here
            Err(p) => return Err(("div_panic".into(), format!("div panicked ('{}') for n={nb} d={db}, a non-zero divisor", panic_msg(&p)))),
            Ok((q, rem, q2, rem2)) => {
                let (qb, rb) = (words_to_big(&q), words_to_big(&rem));
                if &qb * db + &rb != *nb || rb >= *db {
                    return Err(("div".into(), format!("div(return_remainder=true): q={qb} r={rb} but n={nb} d={db} (need q*d+r == n and r < d)")));
                }
                if q2 != q || rem2 != [0u64; 4] {
                    return Err(("div".into(), format!("div(return_remainder=false): q={} (expected {qb}), r={:?} (expected 0)", words_to_big(&q2), rem2)));
                }
                DivRes::Ok
            }
        }
    };
    // add / sub wrap modulo 2^256 (as documented: "overflows"/"underflows")
    let s = x.add(y).items;
    if words_to_big(&s) != (nb + db) % &m256 {
        return Err(("add".into(), format!("add: {nb} + {db} gave {}", words_to_big(&s))));
    }
    let s = x.sub(y).items;
    if words_to_big(&s) != (&m256 + nb - db) % &m256 {
        return Err(("sub".into(), format!("sub: {nb} - {db} gave {}", words_to_big(&s))));
    }
    // mul: constrained when the product fits 256 bits (the only documented use)
    let prod = nb * db;
    let fits = prod < m256;
    if fits {
        let s = x.mul(y).items;
        if words_to_big(&s) != prod {
            return Err(("mul".into(), format!("mul: {nb} * {db} gave {}", words_to_big(&s))));
        }
    }
    // comparisons
    let ord = nb.cmp(db);
    use std::cmp::Ordering as O;
    if x.lt(y) != (ord == O::Less) || x.gt(y) != (ord == O::Greater) || x.lte(y) != (ord != O::Greater) || x.gte(y) != (ord != O::Less) || x.eq(y) != (ord == O::Equal) {
        return Err(("cmp".into(), format!("comparison of {nb} and {db} disagrees with the integers")));
    }
    Ok((div_res, fits))
}

const SHIFTS: [u32; 14] = [0, 1, 31, 63, 64, 65, 127, 128, 129, 191, 192, 193, 255, 256];

fn u256_unary_ok(n: &[u64; 4], nb: &BigUint) -> Result<(), String> {
    let x = u256(n);
    let m256 = BigUint::one() << 256u32;
    for s in SHIFTS {
        let l = x.shift_left(s).items;
        if words_to_big(&l) != (nb << s) % &m256 {
            return Err(format!("shift_left({s}) of {nb} gave {}", words_to_big(&l)));
        }
        let r = x.shift_right(s).items;
        if words_to_big(&r) != nb >> s {
            return Err(format!("shift_right({s}) of {nb} gave {}", words_to_big(&r)));
        }
    }
    if words_to_big(&x.shift_word_left().items) != (nb << 64u32) % &m256 {
        return Err(format!("shift_word_left of {nb}"));
    }
    if words_to_big(&x.shift_word_right().items) != nb >> 64u32 {
        return Err(format!("shift_word_right of {nb}"));
    }
    match x.checked_shift_word_left() {
        Some(v) => {
            if n[3] != 0 || words_to_big(&v.items) != nb << 64u32 {
                return Err(format!("checked_shift_word_left of {nb} returned a truncated value"));
            }
        }
        None => {
            if n[3] == 0 {
                return Err(format!("checked_shift_word_left of {nb} refused a value that fits"));
            }
        }
    }
    if words_to_big(&x.get_add_inverse().items) != (&m256 - nb) % &m256 {
        return Err(format!("get_add_inverse of {nb}"));
    }
    match x.try_into_u128() {
        Ok(v) => {
            if bu(v) != *nb {
                return Err(format!("try_into_u128 of {nb} gave {v}"));
            }
        }
        Err(_) => {
            if nb.bits() <= 128 {
                return Err(format!("try_into_u128 of {nb} failed although it fits"));
            }
        }
    }
    if x.is_zero() != nb.is_zero() {
        return Err(format!("is_zero of {nb}"));
    }
    if format!("{x}") != nb.to_string() {
        return Err(format!("Display of {nb} printed {x}"));
    }
    Ok(())
}

fn operand(words: &[u64], idx: usize) -> [u64; 4] {
    let k = words.len();
    [words[idx % k], words[idx / k % k], words[idx / (k * k) % k], words[idx / (k * k * k) % k]]
}

fn run_u256(ctx: &Ctx, capped: &AtomicBool, words: &[u64]) -> UStats {
    let k = words.len();
    let n_ops = k * k * k * k;
    let bigs: Vec<BigUint> = (0..n_ops).map(|i| words_to_big(&operand(words, i))).collect();
    (0..n_ops)
        .into_par_iter()
        .map(|i| {
            let mut st = UStats::default();
            if ctx.left() < 0.0 {
                capped.store(true, Ordering::Relaxed);
                return st;
            }
            let n = operand(words, i);
            st.c[U_UNARY] += 1;
            if let Err(d) = u256_unary_ok(&n, &bigs[i]) {
                st.viol.push((format!("u256:unary:{:?}", n), d, json!({"kind":"u256_unary","n":wjson(&n)})));
            }
            for j in 0..n_ops {
                let d = operand(words, j);
                st.c[U_EVALS] += 1;
                match u256_pair_ok(&n, &d, &bigs[i], &bigs[j]) {
                    Err((op, detail)) => {
                        if op == "div_panic" {
                            st.c[U_DIV_PANIC_NONZERO] += 1;
                        }
                        if st.viol.len() < 2 {
                            st.viol.push((format!("u256:{op}:{:?}:{:?}", n, d), detail, json!({"kind":"u256_pair","n":wjson(&n),"d":wjson(&d)})));
                        }
                    }
                    Ok((res, fits)) => {
                        st.c[if fits { U_MUL_EXACT } else { U_MUL_OVERFLOW }] += 1;
                        match res {
                            DivRes::ZeroPanics => st.c[U_DIV_ZERO_PANICS] += 1,
                            DivRes::Ok => {
                                st.c[U_DIV_OK] += 1;
                                if (&bigs[i] % &bigs[j]).is_zero() {
                                    st.c[U_REM_ZERO] += 1;
                                } else {
                                    st.c[U_REM_NONZERO] += 1;
                                }
                            }
                        }
                        if !matches!(res, DivRes::ZeroPanics) {
                            let cl = classify_div(&n, &d);
                            st.c[U_PATH + cl.path] += 1;
                            st.c[U_QHAT] += cl.qhat_corrected as u64;
                            st.c[U_ADDBACK] += cl.add_back as u64;
                            st.c[U_ADDBACK_TOP] += cl.add_back_top as u64;
                        }
                    }
                }
            }
            st
        })
        .reduce(UStats::default, UStats::merge)
}

/// mul_u256(u128, u128) over every pair of two-word values from the alphabet.
fn run_mul_u256(words: &[u64]) -> (u64, Option<(String, String, Value)>) {
    let k = words.len();
    let vals: Vec<u128> = (0..k * k).map(|i| ((words[i / k] as u128) << 64) | words[i % k] as u128).collect();
    let bad: Vec<(u128, u128)> = vals
        .par_iter()
        .flat_map_iter(|&a| {
            let vals = &vals;
            vals.iter().filter_map(move |&b| if words_to_big(&mul_u256(a, b).items) != bu(a) * bu(b) { Some((a, b)) } else { None })
        })
        .collect();
    let n = (vals.len() * vals.len()) as u64;
    (n, bad.first().map(|&(a, b)| (format!("u256:mul_u256:{a}:{b}"), format!("mul_u256({a}, {b}) != exact product"), json!({"kind":"mul_u256","a":a.to_string(),"b":b.to_string()}))))
}

// ---- driver ---------------------------------------------------------------------------------------------------------
pub fn run(ctx: &Ctx) -> Report {
    let mut r = Report::new("C02", "exploration");
    let quick = ctx.tier.is_quick();
    let capped = AtomicBool::new(false);
    let prev_hook = std::panic::take_hook();
    std::panic::set_hook(Box::new(|_| {})); // panics of the code under test are caught and counted, not printed

    // ---- (i) boundary cross product ----
    let p1 = Phase1 { prices: price_alphabet(quick), liqs: liquidity_alphabet(quick), base: amount_alphabet(), fees: FEES_FULL.to_vec() };
    let np = p1.prices.len();
    let nl = p1.liqs.len();
    let s1 = (0..np * np * nl)
        .into_par_iter()
        .map(|i| {
            if ctx.left() < 0.0 {
                capped.store(true, Ordering::Relaxed);
                return Stats::default();
            }
            let (pi, rest) = (i / (np * nl), i % (np * nl));
            let (ti, li) = (rest / nl, rest % nl);
            let (p0, pt, liq) = (p1.prices[pi], p1.prices[ti], p1.liqs[li]);
            let amounts = amounts_for(p0, pt, liq, &p1.base, &p1.fees);
            run_triple(p0, pt, liq, &amounts, &p1.fees, None)
        })
        .reduce(Stats::default, Stats::merge);
    let t1 = ctx.elapsed();

    // ---- (ii) complete boxes ----
    let kmax: u64 = ctx.pick(24, 48);
    let kmin: u64 = ctx.pick(24, 64);
    let tick_box: Vec<u128> = sorted((-3..=3).flat_map(|t| { let p = sqrt_price_from_tick_index(t); [p - 1, p, p + 1] }).collect());
    let small: Vec<u128> = (1..=kmax as u128).collect();
    let small_amt: Vec<u64> = (1..=kmax).collect();
    let s2a = run_box(ctx, &capped, &tick_box, &small, &small_amt, &FEES_BOX, &p1);

    let w: i128 = ctx.pick(6, 24);
    let one = 1i128 << 64;
    let unit_prices: Vec<u128> = (-w..=w).map(|i| (one + i) as u128).collect();
    let mut unit_liqs: Vec<u128> = vec![];
    for base in [1u128 << 63, 1u128 << 64, 3u128 << 63, 1u128 << 65] {
        for j in -2i128..=2 {
            unit_liqs.push((base as i128 + j) as u128);
        }
    }
    let unit_liqs = sorted(unit_liqs);
    let unit_amt: Vec<u64> = (0..=(2 * w as u64 + 3)).collect();
    let s2b = run_box(ctx, &capped, &unit_prices, &unit_liqs, &unit_amt, &FEES_BOX, &p1);

    let wm: u128 = ctx.pick(8, 24);
    let min_prices: Vec<u128> = (0..=wm).map(|i| MIN_SQRT_PRICE + i).collect();
    let min_liqs: Vec<u128> = (1..=kmin as u128).collect();
    let min_amt: Vec<u64> = (0..=kmin).collect();
    let s2c = run_box(ctx, &capped, &min_prices, &min_liqs, &min_amt, &FEES_BOX, &p1);

    let max_prices: Vec<u128> = (0..=w as u128).map(|i| MAX_SQRT_PRICE - i).collect();
    let max_liqs: Vec<u128> = sorted(vec![(1 << 64) - 1, 1 << 64, (1 << 64) + 1, 3 << 63, 1 << 65]);
    let s2d = run_box(ctx, &capped, &max_prices, &max_liqs, &unit_amt, &FEES_BOX, &p1);
    let t2 = ctx.elapsed();

    // ---- (ii-b) near-integer liquidities (continued-fraction convergents) of tick-price pairs, both directions ----
    let near = near_integer_triples(quick);
    let s2e = near
        .par_iter()
        .map(|&(lo, hi, liq)| {
            if ctx.left() < 0.0 {
                capped.store(true, Ordering::Relaxed);
                return Stats::default();
            }
            let mut st = run_triple(lo, hi, liq, &amounts_for(lo, hi, liq, &p1.base, &FEES_BOX), &FEES_BOX, Some(&p1));
            st = st.merge(run_triple(hi, lo, liq, &amounts_for(hi, lo, liq, &p1.base, &FEES_BOX), &FEES_BOX, Some(&p1)));
            // how close to an integer the exact token-A amount really is (vacuity guard: within 2^-32)
            let q = exact_delta_a(lo, hi, liq);
            let r = &q.n % &q.d;
            if !r.is_zero() && q.floor().bits() <= 64 && ((&r << 32u32) < q.d || ((&q.d - &r) << 32u32) < q.d) {
                st.c[NEAR_INT] += 1;
            }
            st
        })
        .reduce(Stats::default, Stats::merge);

    // ---- (ii-c) the boundaries of the 256-bit numerator of the token-A amount: liquidity x price width around 2^192 and 2^193 (the
    // exact amounts there exceed u64 by far: every evaluation must be an error, a success is a wrapped value) and around 2^128 ----
    let band: Vec<(u128, u128, u128)> = {
        let ps = &p1.prices;
        let mut v = vec![];
        for (i, &lo) in ps.iter().enumerate() {
            for &hi in &ps[i + 1..] {
                let w = bu(hi - lo);
                let mut ls: Vec<u128> = vec![];
                for e in [128u32, 192, 193] {
                    if let Some(x) = crate::refmodel::ceil_div(&(BigUint::one() << e), &w).to_u128() {
                        ls.extend([x.saturating_sub(1), x, x.saturating_add(1)]);
                    }
                }
                if let Some(x) = ((BigUint::from(3u32) << 191u32) / &w).to_u128() {
                    ls.push(x);
                }
                for l in sorted(ls) {
                    if l > 0 {
                        v.push((lo, hi, l));
                    }
                }
            }
        }
        v
    };
    let s2f = band
        .par_iter()
        .map(|&(lo, hi, liq)| {
            if ctx.left() < 0.0 {
                capped.store(true, Ordering::Relaxed);
                return Stats::default();
            }
            let mut st = Stats::default();
            eval_deltas(lo, hi, liq, &mut st);
            eval_deltas(hi, lo, liq, &mut st);
            if (bu(liq) * bu(hi - lo)).bits() >= 193 {
                st.c[BAND] += 1;
            }
            // one swap step in each direction and mode over the same triple
            for (p0, pt) in [(lo, hi), (hi, lo)] {
                for exact_in in [true, false] {
                    eval_case(&Case { amount: u64::MAX, fee: 3000, liq, p0, pt, exact_in, a_to_b: pt < p0 }, &mut st);
                }
            }
            st
        })
        .reduce(Stats::default, Stats::merge);

    // ---- (iii) U256Muldiv ----
    let words: Vec<u64> = if quick {
        vec![0, 1, (1 << 63) - 1, 1 << 63, u64::MAX - 1, u64::MAX]
    } else {
        vec![0, 1, 2, 1 << 32, (1 << 63) - 1, 1 << 63, (1 << 63) + 1, u64::MAX - (u32::MAX as u64), u64::MAX - 1, u64::MAX]
    };
    let us = run_u256(ctx, &capped, &words);
    let (mul_n, mul_bad) = run_mul_u256(&words);
    let t3 = ctx.elapsed();
    std::panic::set_hook(prev_hook);

    // ---- report ----
    let phases = [("cross", &s1), ("box_ticks", &s2a), ("box_unit_2^64", &s2b), ("box_unit_min", &s2c), ("box_unit_max", &s2d), ("near_integer", &s2e), ("product_band", &s2f)];
    let mut tot = Stats::default();
    for (name, s) in phases.iter() {
        r.set(&format!("steps_{name}"), s.c[EVALS]);
        r.set(&format!("steps_ok_{name}"), s.c[OK]);
        tot = tot.merge((*s).clone());
    }
    for (k, d, c) in tot.viol.iter().take(4) {
        r.violation(k.clone(), d.clone(), c.clone());
    }
    for (k, d, c) in us.viol.iter().take(3) {
        r.violation(k.clone(), d.clone(), c.clone());
    }
    if let Some((k, d, c)) = mul_bad {
        r.violation(k, d, c);
    }
    for s in tot.samples.iter().flatten() {
        r.sample(s.clone());
    }
    // one evaluation = one call tuple: a swap step, an amount-delta call, a U256 operand pair (div x2, add, sub, mul, 5 comparisons), a unary U256 value
    let evaluations = tot.c[EVALS] + tot.c[DELTA_EVALS] + us.c[U_EVALS] + us.c[U_UNARY] + mul_n;
    r.set("evaluations", evaluations);
    r.set("swap_steps", tot.c[EVALS]);
    r.set("swap_steps_ok", tot.c[OK]);
    r.set("swap_steps_err", tot.c[ERR]);
    r.set("swap_steps_panic", tot.c[PANIC]);
    r.set("swap_error_kinds", json!(tot.errs));
    r.set("swap_panic_kinds", json!(tot.panics));
    if let Some(s) = &tot.panic_sample {
        r.set("swap_panic_sample", s.clone());
    }
    r.set("amount_delta_calls", tot.c[DELTA_EVALS]);
    r.set("amount_delta_calls_ok", tot.c[DELTA_OK]);
    r.set("distinct_nontrivial", tot.c[NONTRIVIAL] + us.c[U_PATH + 4]);
    r.set(
        "rule",
        "swap steps: input tuples (amount, fee, L, current, target, mode, direction) are distinct by construction (alphabets are \
         de-duplicated sets; box tuples that also belong to the cross product are skipped, see skipped_overlap); a tuple is \
         non-trivial iff compute_swap succeeded with amount_in > 0 or amount_out > 0. U256: (dividend, divisor) pairs that go \
         through the multi-word Knuth-D path (all pairs are distinct).",
    );
    r.set("skipped_overlap", tot.c[SKIPPED_OVERLAP]);
    r.set("tightness_checked_exact_in", tot.c[TIGHT_IN]);
    r.set("tightness_checked_exact_out", tot.c[TIGHT_OUT]);
    r.set("tightness_needing_slack", tot.c[NEED_SLACK]);
    r.set("partial_steps_that_moved_the_price", tot.c[PARTIAL_MOVED]);
    r.set("max_by_rounding_onto_target", tot.c[MAX_BY_ROUNDING]);
    r.set("exact_out_capped", tot.c[OUT_CAPPED]);
    r.set("zero_liquidity_ok", tot.c[ZERO_LIQ_OK]);
    r.set("price_alphabet", p1.prices.len() as u64);
    r.set("u256_word_alphabet", words.len() as u64);
    r.set("u256_pairs", us.c[U_EVALS]);
    r.set("u256_div_ok", us.c[U_DIV_OK]);
    r.set("u256_div_by_zero_panics", us.c[U_DIV_ZERO_PANICS]);
    r.set("u256_div_panics_nonzero_divisor", us.c[U_DIV_PANIC_NONZERO]);
    r.set("u256_div_paths", json!({"zero_dividend": us.c[U_PATH], "fewer_words": us.c[U_PATH+1], "u128": us.c[U_PATH+2], "single_word_divisor": us.c[U_PATH+3], "knuth_d": us.c[U_PATH+4]}));
    r.set("u256_mul_overflowing_unconstrained", us.c[U_MUL_OVERFLOW]);
    r.set("u256_mul_u256_pairs", mul_n);
    r.set("phase_seconds", json!({"cross": t1, "boxes": t2 - t1, "u256": t3 - t2}));
    let was_capped = capped.load(Ordering::Relaxed);
    r.set("budget_cap_hit", was_capped);
    r.set("exhaustive", false);
    r.set(
        "exhaustive_scope",
        "every listed finite set is enumerated completely (cross product, boxes, U256 word alphabet); the u64 x u128 x price^2 domain itself is not",
    );

    let names = ["partial_b2a_exact_out", "partial_b2a_exact_in", "partial_a2b_exact_out", "partial_a2b_exact_in", "max_b2a_exact_out", "max_b2a_exact_in", "max_a2b_exact_out", "max_a2b_exact_in"];
    for (i, n) in names.iter().enumerate() {
        r.guard(n, tot.c[BR + i]);
    }
    r.guard("partial_steps_that_moved", tot.c[PARTIAL_MOVED]);
    r.guard("error_results", tot.c[ERR]);
    r.guard("exceeds_max_recovery", tot.c[EXCEEDS_RECOVERY]);
    r.guard("max_by_rounding_onto_target", tot.c[MAX_BY_ROUNDING]);
    r.guard("exact_out_capped", tot.c[OUT_CAPPED]);
    let rn = ["a_down_rem_zero", "a_down_rem_nonzero", "a_up_rem_zero", "a_up_rem_nonzero", "b_down_rem_zero", "b_down_rem_nonzero", "b_up_rem_zero", "b_up_rem_nonzero"];
    for (i, n) in rn.iter().enumerate() {
        r.guard(n, tot.c[REM + i]);
    }
    r.guard("tightness_exact_in", tot.c[TIGHT_IN]);
    r.guard("tightness_exact_out", tot.c[TIGHT_OUT]);
    r.guard("amount_delta_ok", tot.c[DELTA_OK]);
    r.set("near_integer_triples", near.len() as u64);
    r.guard("near_integer_triples_with_u64_amount_a", tot.c[NEAR_INT]);
    r.guard("triples_with_liquidity_x_width_at_or_above_2_pow_192", tot.c[BAND]);
    r.guard("u256_knuth_d", us.c[U_PATH + 4]);
    r.guard("u256_single_word_divisor", us.c[U_PATH + 3]);
    r.guard("u256_qhat_corrected", us.c[U_QHAT]);
    r.guard("u256_add_back", us.c[U_ADDBACK]);
    r.guard("u256_div_rem_zero", us.c[U_REM_ZERO]);
    r.guard("u256_div_rem_nonzero", us.c[U_REM_NONZERO]);
    r.guard("u256_div_by_zero", us.c[U_DIV_ZERO_PANICS]);
    r.set("u256_add_back_on_carry_step", us.c[U_ADDBACK_TOP]);
    if tot.c[PANIC] > 0 {
        r.set(
            "note_panics",
            "compute_swap panicked on some inputs (see swap_panic_kinds / swap_panic_sample): failed computations, which the statement does not \
             constrain at the step level; a panic of U256Muldiv::div on a non-zero divisor IS a violation of part (iii)",
        );
    }
    r.assume("the budget net of fee of an exact-in step is floor(remaining*(10^6-fee)/10^6)");
    r.assume("errors and panics of the code under test are failed computations and are not constrained (statement: only successful computations)");
    r.assume("U256Muldiv::mul is only constrained when the product fits 256 bits");
    r
}

pub fn replay(case: &Value) -> Result<(), String> {
    match case["kind"].as_str() {
        Some("swap") => {
            let c = Case::from_json(case).ok_or("bad swap case")?;
            let prev = std::panic::take_hook();
            std::panic::set_hook(Box::new(|_| {}));
            let out = call(&c);
            std::panic::set_hook(prev);
            match out {
                Outcome::Ok(s) => {
                    let mut st = Stats::default();
                    oracle(&c, &s, &mut st).map_err(|d| {
                        format!("{d} | got amount_in={} amount_out={} next_price={} fee_amount={}", s.amount_in, s.amount_out, s.next_price, s.fee_amount)
                    })
                }
                _ => Ok(()), // failed computations are not constrained
            }
        }
        Some("delta") => {
            let g = |k: &str| -> Result<u128, String> { case[k].as_str().ok_or("bad delta case")?.parse::<u128>().map_err(|e| e.to_string()) };
            delta_ok(case["token_b"].as_bool().ok_or("bad")?, g("p0")?, g("p1")?, g("liquidity")?, case["round_up"].as_bool().ok_or("bad")?).map(|_| ())
        }
        Some("u256_pair") => {
            let n = wparse(&case["n"]).ok_or("bad n")?;
            let d = wparse(&case["d"]).ok_or("bad d")?;
            let prev = std::panic::take_hook();
            std::panic::set_hook(Box::new(|_| {}));
            let r = u256_pair_ok(&n, &d, &words_to_big(&n), &words_to_big(&d));
            std::panic::set_hook(prev);
            r.map(|_| ()).map_err(|(_, d)| d)
        }
        Some("u256_unary") => {
            let n = wparse(&case["n"]).ok_or("bad n")?;
            u256_unary_ok(&n, &words_to_big(&n))
        }
        Some("mul_u256") => {
            let a: u128 = case["a"].as_str().ok_or("bad")?.parse().map_err(|_| "bad")?;
            let b: u128 = case["b"].as_str().ok_or("bad")?.parse().map_err(|_| "bad")?;
            if words_to_big(&mul_u256(a, b).items) != bu(a) * bu(b) {
                Err(format!("mul_u256({a}, {b}) != exact product"))
            } else {
                Ok(())
            }
        }
        _ => Err("bad case".into()),
    }
}
