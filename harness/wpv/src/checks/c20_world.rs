//! C20 helpers: SDK facades filled from the harness's own account decoders, the adaptive-fee pool world
//! (real initialize_adaptive_fee_tier + initialize_pool_with_adaptive_fee), and the per-state differential
//! "real swap instruction vs rust-sdk/core quote on the same pre-state bytes".
#![allow(dead_code)]
use crate::decode;
use crate::ops::{self, Lim};
use crate::oracles;
use crate::world::{self, Enc, PoolRef, StdWorld, SwapArgs};
use anchor_lang::{InstructionData, ToAccountMetas};
use orca_whirlpools_core as sdk;
use sdk::{
    AdaptiveFeeConstantsFacade, AdaptiveFeeInfo, AdaptiveFeeVariablesFacade, OracleFacade, TickArrayFacade, TickArraySequence, TickArrays, TickFacade,
    TransferFee, WhirlpoolFacade, WhirlpoolRewardInfoFacade,
};
use serde::{Deserialize, Serialize};
use solana_program::pubkey::Pubkey;
use solana_program::{system_program, sysvar};
use std::panic::{catch_unwind, AssertUnwindSafe};
use std::sync::atomic::{AtomicU64, Ordering};
use svm::keys::key;
use svm::Ledger;
use whirlpool::accounts as wa;
use whirlpool::instruction as wi;
use whirlpool::verif_hooks::SwapTrace;

// ------------------------------------------------------------------------------------------------
// facades (what rust-sdk/client's `impl From<Whirlpool> for WhirlpoolFacade` etc. do, from our own decoders)
// ------------------------------------------------------------------------------------------------
pub fn pool_facade(p: &decode::Pool) -> WhirlpoolFacade {
    let ri = |i: usize| WhirlpoolRewardInfoFacade { emissions_per_second_x64: p.reward_infos[i].emissions_per_second_x64, growth_global_x64: p.reward_infos[i].growth_global_x64 };
    WhirlpoolFacade {
        fee_tier_index_seed: p.fee_tier_index_seed,
        tick_spacing: p.tick_spacing,
        fee_rate: p.fee_rate,
        protocol_fee_rate: p.protocol_fee_rate,
        liquidity: p.liquidity,
        sqrt_price: p.sqrt_price,
        tick_current_index: p.tick_current_index,
        fee_growth_global_a: p.fee_growth_global_a,
        fee_growth_global_b: p.fee_growth_global_b,
        reward_last_updated_timestamp: p.reward_last_updated_timestamp,
        reward_infos: [ri(0), ri(1), ri(2)],
    }
}

pub fn tick_array_facade(ta: &decode::TickArray) -> TickArrayFacade {
    let mut ticks = [TickFacade::default(); 88];
    for (i, t) in ta.ticks.iter().enumerate() {
        ticks[i] = TickFacade {
            initialized: t.initialized,
            liquidity_net: t.liquidity_net,
            liquidity_gross: t.liquidity_gross,
            fee_growth_outside_a: t.fee_growth_outside_a,
            fee_growth_outside_b: t.fee_growth_outside_b,
            reward_growths_outside: t.reward_growths_outside,
        };
    }
    TickArrayFacade { start_tick_index: ta.start_tick_index, ticks }
}

/// What rust-sdk/whirlpool's `fetch_tick_arrays_or_default` substitutes for an account that does not exist.
pub fn uninitialized_tick_array(start: i32) -> TickArrayFacade {
    TickArrayFacade { start_tick_index: start, ticks: [TickFacade::default(); 88] }
}

pub fn oracle_facade(o: &decode::Oracle) -> OracleFacade {
    OracleFacade {
        trade_enable_timestamp: o.trade_enable_timestamp,
        adaptive_fee_constants: AdaptiveFeeConstantsFacade {
            filter_period: o.filter_period,
            decay_period: o.decay_period,
            reduction_factor: o.reduction_factor,
            adaptive_fee_control_factor: o.adaptive_fee_control_factor,
            max_volatility_accumulator: o.max_volatility_accumulator,
            tick_group_size: o.tick_group_size,
            major_swap_threshold_ticks: o.major_swap_threshold_ticks,
        },
        adaptive_fee_variables: AdaptiveFeeVariablesFacade {
            last_reference_update_timestamp: o.last_reference_update_timestamp,
            last_major_swap_timestamp: o.last_major_swap_timestamp,
            volatility_reference: o.volatility_reference,
            tick_group_index_reference: o.tick_group_index_reference,
            volatility_accumulator: o.volatility_accumulator,
        },
    }
}

/// Start tick indexes of the three tick arrays `world::swap_tick_arrays` hands to the instruction.
pub fn swap_array_starts(p: &PoolRef, tick_current: i32, a_to_b: bool) -> [i32; 3] {
    let n = p.ticks_in_array();
    let shift = if a_to_b { 0 } else { p.tick_spacing as i32 };
    let s0 = (tick_current + shift).div_euclid(n) * n;
    let d = if a_to_b { -n } else { n };
    [s0, s0 + d, s0 + 2 * d]
}

/// Facades of exactly the three tick arrays the instruction is given, decoded from the same account bytes;
/// an address that holds no tick array becomes the SDK's default (all-uninitialized) array, as the SDK client does.
pub fn swap_array_facades(l: &Ledger, p: &PoolRef, tick_current: i32, a_to_b: bool) -> ([TickArrayFacade; 3], u32) {
    let starts = swap_array_starts(p, tick_current, a_to_b);
    let mut missing = 0;
    let f = |s: i32, missing: &mut u32| -> TickArrayFacade {
        let k = p.tick_array(s);
        match l.get(&k) {
            Some(a) if a.owner == world::WP && a.data.len() >= 8 => match decode::tick_array(&a.data) {
                Ok(ta) => tick_array_facade(&ta),
                Err(_) => {
                    *missing += 1;
                    uninitialized_tick_array(s)
                }
            },
            _ => {
                *missing += 1;
                uninitialized_tick_array(s)
            }
        }
    };
    let a = [f(starts[0], &mut missing), f(starts[1], &mut missing), f(starts[2], &mut missing)];
    (a, missing)
}

pub fn oracle_of(l: &Ledger, p: &PoolRef) -> Option<OracleFacade> {
    match l.get(&p.oracle) {
        Some(a) if a.owner == world::WP && a.data.len() >= 8 + 32 + 8 + 34 + 44 => Some(oracle_facade(&decode::oracle(&a.data))),
        _ => None,
    }
}

// ------------------------------------------------------------------------------------------------
// adaptive-fee world
// ------------------------------------------------------------------------------------------------
#[derive(Clone, Debug)]
pub struct AfSpec {
    pub label: String,
    pub tick_spacing: u16,
    pub fee_tier_index: u16,
    pub base_fee_rate: u16,
    pub protocol_fee_rate: u16,
    pub filter_period: u16,
    pub decay_period: u16,
    pub reduction_factor: u16,
    pub control_factor: u32,
    pub max_volatility_accumulator: u32,
    pub tick_group_size: u16,
    pub major_swap_threshold_ticks: u16,
    /// Some(dt): permissioned tier, trading enabled dt seconds after pool creation
    pub trade_enable_in: Option<u64>,
    pub sqrt_price: u128,
    pub arrays: Vec<(i32, Enc)>,
    pub positions: Vec<(i32, i32, bool)>,
}

pub fn build_af(spec: &AfSpec) -> (Ledger, StdWorld) {
    let mut l = world::base_ledger();
    let lab = &spec.label;
    let cfg = world::init_config(&mut l, lab, spec.protocol_fee_rate);
    let funder = key(&format!("{lab}/funder"));
    l.put_system(funder, world::RICH);
    let pool_auth = if spec.trade_enable_in.is_some() { key(&format!("{lab}/init_pool_authority")) } else { Pubkey::default() };
    if spec.trade_enable_in.is_some() {
        l.put_system(pool_auth, world::RICH);
    }
    let tier = world::fee_tier_addr(&cfg.addr, spec.fee_tier_index);
    let i = world::ix(
        wa::InitializeAdaptiveFeeTier { whirlpools_config: cfg.addr, adaptive_fee_tier: tier, funder, fee_authority: cfg.fee_authority, system_program: system_program::ID }
            .to_account_metas(None),
        wi::InitializeAdaptiveFeeTier {
            fee_tier_index: spec.fee_tier_index,
            tick_spacing: spec.tick_spacing,
            initialize_pool_authority: pool_auth,
            delegated_fee_authority: Pubkey::default(),
            default_base_fee_rate: spec.base_fee_rate,
            filter_period: spec.filter_period,
            decay_period: spec.decay_period,
            reduction_factor: spec.reduction_factor,
            adaptive_fee_control_factor: spec.control_factor,
            max_volatility_accumulator: spec.max_volatility_accumulator,
            tick_group_size: spec.tick_group_size,
            major_swap_threshold_ticks: spec.major_swap_threshold_ticks,
        }
        .data(),
    );
    world::must("initialize_adaptive_fee_tier", svm::process(&mut l, &i));
    let (m1, m2) = (key(&format!("{lab}/mint1")), key(&format!("{lab}/mint2")));
    let (ma, mb) = if m1 < m2 { (m1, m2) } else { (m2, m1) };
    world::create_spl_mint(&mut l, ma, 6, None);
    world::create_spl_mint(&mut l, mb, 6, None);
    let pool = world::pool_ref(&l, &cfg.addr, lab, ma, mb, spec.tick_spacing, spec.fee_tier_index);
    let signer = if spec.trade_enable_in.is_some() { pool_auth } else { funder };
    let i = world::ix(
        wa::InitializePoolWithAdaptiveFee {
            whirlpools_config: cfg.addr,
            token_mint_a: ma,
            token_mint_b: mb,
            token_badge_a: world::token_badge_addr(&cfg.addr, &ma),
            token_badge_b: world::token_badge_addr(&cfg.addr, &mb),
            funder,
            initialize_pool_authority: signer,
            whirlpool: pool.addr,
            oracle: pool.oracle,
            token_vault_a: pool.vault_a,
            token_vault_b: pool.vault_b,
            adaptive_fee_tier: tier,
            token_program_a: world::TOKEN,
            token_program_b: world::TOKEN,
            system_program: system_program::ID,
            rent: sysvar::rent::ID,
        }
        .to_account_metas(None),
        wi::InitializePoolWithAdaptiveFee { initial_sqrt_price: spec.sqrt_price, trade_enable_timestamp: spec.trade_enable_in.map(|dt| l.unix_ts as u64 + dt) }.data(),
    );
    world::must("initialize_pool_with_adaptive_fee", svm::process(&mut l, &i));
    for (off, enc) in &spec.arrays {
        let start = off * pool.ticks_in_array();
        world::must("init_tick_array", svm::process(&mut l, &world::ix_init_tick_array(&pool, funder, start, *enc == Enc::Dynamic)));
    }
    let lp = world::create_wallet(&mut l, &format!("{lab}/lp"), &pool, 1 << 62, 1 << 62);
    let trader = world::create_wallet(&mut l, &format!("{lab}/trader"), &pool, 1 << 62, 1 << 62);
    let fee_dest = world::create_wallet(&mut l, &format!("{lab}/feedest"), &pool, 0, 0);
    let mut positions = vec![];
    for (i, (lo, hi, t22)) in spec.positions.iter().enumerate() {
        let p = world::pos_ref(&pool, &format!("{lab}/pos{i}"), lp.owner, *lo, *hi, *t22);
        world::must("open_position", svm::process(&mut l, &world::ix_open_position(&p, funder)));
        positions.push(p);
    }
    // the facade decoder must see exactly the constants that were configured (self-check of decode::oracle's offsets)
    let o = decode::oracle(l.data(&pool.oracle));
    assert_eq!(
        (o.whirlpool, o.filter_period, o.decay_period, o.reduction_factor, o.adaptive_fee_control_factor, o.max_volatility_accumulator, o.tick_group_size, o.major_swap_threshold_ticks),
        (
            pool.addr,
            spec.filter_period,
            spec.decay_period,
            spec.reduction_factor,
            spec.control_factor,
            spec.max_volatility_accumulator,
            spec.tick_group_size,
            spec.major_swap_threshold_ticks
        ),
        "oracle decoder disagrees with the configured constants"
    );
    let st = pool.state(&l);
    assert_eq!(u16::from_le_bytes(st.fee_tier_index_seed), spec.fee_tier_index);
    (l, StdWorld { cfg, pool, lp, trader, fee_dest, positions, funder })
}

// ------------------------------------------------------------------------------------------------
// the differential
// ------------------------------------------------------------------------------------------------
#[derive(Clone, Copy, Debug, PartialEq, Eq, Serialize, Deserialize)]
pub struct SwapSpec {
    pub a_to_b: bool,
    pub exact_in: bool,
    pub amount: u64,
    pub lim: Lim,
    pub v2: bool,
}

#[derive(Clone, Copy, Debug, Default)]
pub struct Fees {
    pub a: Option<TransferFee>,
    pub b: Option<TransferFee>,
}
impl Fees {
    pub fn any(&self) -> bool {
        self.a.is_some() || self.b.is_some()
    }
}

#[derive(Default)]
pub struct DiffStats {
    pub compared_ok: [AtomicU64; 4], // [a2b-in, a2b-out, b2a-in, b2a-out] program success, SDK compared
    pub quotes_ok: AtomicU64,        // swap_quote_by_* wrappers compared (Lim::None)
    pub slippage_checks: AtomicU64,
    pub crossings: AtomicU64,        // initialized-tick crossings inside compared successful swaps
    pub multi_step: AtomicU64,       // compared swaps with >= 2 loop steps
    pub partial_limit_fills: AtomicU64,
    pub adaptive_ok: AtomicU64,      // compared successful swaps on a pool with an oracle
    pub adaptive_skips: AtomicU64,   // ... whose trace contains a skipped step
    pub adaptive_rate_varied: AtomicU64, // ... whose trace shows >= 2 distinct fee rates
    pub transfer_fee_ok: AtomicU64,  // compared successful swaps with a TransferFee facade
    pub fail_partial_fill: AtomicU64,
    pub fail_off_arrays: AtomicU64,
    pub fail_other: AtomicU64,
    pub fail_other_codes: std::sync::Mutex<std::collections::BTreeMap<String, u64>>,
    pub fail_noncustom: AtomicU64, // CPI / runtime failures: not a refusal of the swap computation; SDK not constrained
    pub sdk_ok_on_partial_fill: AtomicU64,
    pub sdk_ok_off_arrays: AtomicU64,
    pub sdk_err_on_fail: AtomicU64,
    pub missing_arrays: AtomicU64,
    pub evaluations: AtomicU64,
    pub nonzero_fee: AtomicU64,
    /// classified disagreements that do not stop the exploration: class -> (smallest detail, count)
    pub findings: std::sync::Mutex<std::collections::BTreeMap<String, (String, u64)>>,
}
impl DiffStats {
    pub fn note_finding(&self, class: &str, detail: String) {
        let mut m = self.findings.lock().unwrap();
        match m.get_mut(class) {
            None => {
                m.insert(class.to_string(), (detail, 1));
            }
            Some(cur) => {
                cur.1 += 1;
                if (detail.len(), &detail) < (cur.0.len(), &cur.0) {
                    cur.0 = detail;
                }
            }
        }
    }
}
pub const T22_TOKEN_IN_CLASS: &str = "t22-exact-in-quote-token-in-below-real-debit";
fn inc(a: &AtomicU64) {
    a.fetch_add(1, Ordering::Relaxed);
}
pub fn get(a: &AtomicU64) -> u64 {
    a.load(Ordering::Relaxed)
}

#[derive(Clone, Debug, PartialEq, Eq)]
pub struct Amounts {
    pub amt_in: u64,
    pub amt_out: u64,
    pub fee: u64,
}

pub const SLIPPAGES: [u16; 4] = [0, 1, 100, 10_000];

thread_local! {
    pub static QUIET: std::cell::Cell<bool> = const { std::cell::Cell::new(false) };
}
fn guard<T>(f: impl FnOnce() -> Result<T, sdk::CoreError>) -> Result<T, String> {
    let was = QUIET.with(|q| q.replace(true));
    let r = catch_unwind(AssertUnwindSafe(f));
    QUIET.with(|q| q.set(was));
    match r {
        Ok(Ok(v)) => Ok(v),
        Ok(Err(e)) => Err(format!("Err({e})")),
        Err(_) => Err("panic".to_string()),
    }
}

/// SDK `compute_swap` on the given facades (no transfer fees): amounts in / out and total trade fee.
pub fn sdk_compute(pool: WhirlpoolFacade, tas: [TickArrayFacade; 3], oracle: Option<OracleFacade>, ts: u64, s: &SwapSpec, limit: u128) -> Result<Amounts, String> {
    guard(|| {
        let seq = TickArraySequence::<3>::new([Some(tas[0]), Some(tas[1]), Some(tas[2])], pool.tick_spacing)?;
        let info: Option<AdaptiveFeeInfo> = oracle.map(|o| o.into());
        let r = sdk::compute_swap(s.amount, limit, pool, seq, s.a_to_b, s.exact_in, ts, info)?;
        let (i, o) = if s.a_to_b { (r.token_a, r.token_b) } else { (r.token_b, r.token_a) };
        Ok(Amounts { amt_in: i, amt_out: o, fee: r.trade_fee })
    })
}

pub struct Quote {
    pub amounts: Amounts,
    pub est: u64,
    pub bound: u64,
}

/// SDK `swap_quote_by_input_token` / `swap_quote_by_output_token` (no price limit exists in this API).
pub fn sdk_quote(pool: WhirlpoolFacade, tas: [TickArrayFacade; 3], oracle: Option<OracleFacade>, ts: u64, s: &SwapSpec, slippage: u16, fees: &Fees) -> Result<Quote, String> {
    guard(|| {
        let arrays: TickArrays = tas.into();
        if s.exact_in {
            let q = sdk::swap_quote_by_input_token(s.amount, s.a_to_b, slippage, pool, oracle, arrays, ts, fees.a, fees.b)?;
            Ok(Quote { amounts: Amounts { amt_in: q.token_in, amt_out: q.token_est_out, fee: q.trade_fee }, est: q.token_est_out, bound: q.token_min_out })
        } else {
            let q = sdk::swap_quote_by_output_token(s.amount, !s.a_to_b, slippage, pool, oracle, arrays, ts, fees.a, fees.b)?;
            Ok(Quote { amounts: Amounts { amt_in: q.token_est_in, amt_out: q.token_out, fee: q.trade_fee }, est: q.token_est_in, bound: q.token_max_in })
        }
    })
}

pub struct Executed {
    pub post: Ledger,
    pub outcome: svm::Outcome,
    pub trace: Vec<SwapTrace>,
    pub limit: u128,
}

/// Execute the real swap instruction for `s` on a copy of `l`.
pub fn exec_swap(l: &Ledger, w: &StdWorld, s: &SwapSpec) -> Executed {
    let st = w.pool.state(l);
    let limit = ops::resolve_limit(l, &w.pool, s.a_to_b, s.lim);
    let args = SwapArgs { amount: s.amount, other_amount_threshold: if s.exact_in { 0 } else { u64::MAX }, sqrt_price_limit: limit, amount_specified_is_input: s.exact_in, a_to_b: s.a_to_b };
    let tas = world::swap_tick_arrays(&w.pool, st.tick_current_index, s.a_to_b);
    let v2 = s.v2 || !w.pool.is_v1_capable();
    // v1 on an adaptive-fee pool needs the oracle writable: it is passed as a remaining account
    let has_oracle = l.get(&w.pool.oracle).map(|a| a.owner == world::WP).unwrap_or(false);
    let supp: Vec<Pubkey> = if !v2 && has_oracle { vec![w.pool.oracle] } else { vec![] };
    let ix = world::ix_swap(&w.pool, &w.trader, args, tas, v2, &supp);
    let mut n = l.clone();
    let _ = whirlpool::verif_hooks::take_swap_trace();
    let outcome = svm::process(&mut n, &ix);
    let trace = whirlpool::verif_hooks::take_swap_trace();
    Executed { post: n, outcome, trace, limit }
}

fn spec_str(s: &SwapSpec, limit: u128) -> String {
    format!(
        "{} {} amount={} limit={:?}(={}) {}",
        if s.a_to_b { "a->b" } else { "b->a" },
        if s.exact_in { "exact-in" } else { "exact-out" },
        s.amount,
        s.lim,
        limit,
        if s.v2 { "v2" } else { "v1" }
    )
}

/// Compare one executed swap with the SDK on the pre-state. `Err` = C20 violated.
pub fn compare(pre: &Ledger, w: &StdWorld, s: &SwapSpec, ex: &Executed, fees: &Fees, st: &DiffStats) -> Result<(), String> {
    inc(&st.evaluations);
    let p0 = w.pool.state(pre);
    let pool = pool_facade(&p0);
    let (tas, missing) = swap_array_facades(pre, &w.pool, p0.tick_current_index, s.a_to_b);
    st.missing_arrays.fetch_add(missing as u64, Ordering::Relaxed);
    let oracle = oracle_of(pre, &w.pool);
    let ts = pre.unix_ts as u64;
    let limit = ex.limit;
    let what = || format!("[{} | pool: price {} tick {} liq {} fee {} | ts {}]", spec_str(s, limit), p0.sqrt_price, p0.tick_current_index, p0.liquidity, p0.fee_rate, ts);
    // the price-limit-free wrappers are only comparable when the instruction was given no limit
    let use_quote = s.lim == Lim::None;
    let raw = if fees.any() { None } else { Some(sdk_compute(pool, tas, oracle, ts, s, limit)) };

    match &ex.outcome.result {
        None => {
            // what the program did: real balances, H2 trace, Traded event
            let o = oracles::observe_swap(pre, &ex.post, w, s.a_to_b, s.exact_in, s.amount, limit);
            let mut fee_sum: u128 = 0;
            let (mut steps, mut crosses, mut skipped) = (0u64, 0u64, false);
            let mut rates = std::collections::BTreeSet::new();
            for t in &ex.trace {
                match t {
                    SwapTrace::Step(x) => {
                        fee_sum += x.fee_amount as u128;
                        steps += 1;
                        skipped |= x.skipped;
                        rates.insert(x.total_fee_rate);
                    }
                    SwapTrace::Cross(_) => crosses += 1,
                    SwapTrace::Begin { .. } => {}
                }
            }
            let evs: Vec<oracles::Traded> = ex.outcome.events.iter().filter_map(|e| oracles::decode_traded(e)).collect();
            if evs.len() != 1 {
                return Err(format!("{}: {} Traded events for one successful swap", what(), evs.len()));
            }
            let ev_fee = evs[0].lp_fee as u128 + evs[0].protocol_fee as u128;
            if ev_fee != fee_sum {
                return Err(format!("{}: program's Traded event reports total fee {ev_fee} but its steps charged {fee_sum}", what()));
            }
            if evs[0].input_amount != o.trader_in {
                return Err(format!("{}: Traded.input_amount {} but the trader was debited {}", what(), evs[0].input_amount, o.trader_in));
            }
            let prog = Amounts { amt_in: o.trader_in, amt_out: o.trader_out, fee: fee_sum as u64 };
            if let Some(raw) = &raw {
                match raw {
                    Err(e) => return Err(format!("{}: program succeeded (in {} out {} fee {}) but SDK compute_swap failed: {e}", what(), prog.amt_in, prog.amt_out, prog.fee)),
                    Ok(a) if *a != prog => {
                        return Err(format!(
                            "{}: program in/out/fee = {}/{}/{} but SDK compute_swap = {}/{}/{}",
                            what(),
                            prog.amt_in,
                            prog.amt_out,
                            prog.fee,
                            a.amt_in,
                            a.amt_out,
                            a.fee
                        ))
                    }
                    Ok(_) => {}
                }
            }
            if use_quote {
                for sl in SLIPPAGES {
                    match sdk_quote(pool, tas, oracle, ts, s, sl, fees) {
                        Err(e) => return Err(format!("{}: program succeeded (in {} out {} fee {}) but SDK swap_quote (slippage {sl} bps) failed: {e}", what(), prog.amt_in, prog.amt_out, prog.fee)),
                        Ok(q) => {
                            // Classified disagreement (kept out of the way of the exploration, reported once at the end):
                            // a fully filled exact-in swap of a transfer-fee token debits the specified amount, the quote reports
                            // reverse(apply(amount)), which is smaller whenever `amount` is not minimal for its post-fee value.
                            let fee_in = (if s.a_to_b { fees.a } else { fees.b }).unwrap_or_default();
                            if fees.any()
                                && s.exact_in
                                && q.amounts.amt_out == prog.amt_out
                                && q.amounts.fee == prog.fee
                                && prog.amt_in == s.amount
                                && q.amounts.amt_in < prog.amt_in
                                && sdk::try_apply_transfer_fee(q.amounts.amt_in, fee_in) == sdk::try_apply_transfer_fee(s.amount, fee_in)
                            {
                                if sl == SLIPPAGES[0] {
                                    st.note_finding(
                                        T22_TOKEN_IN_CLASS,
                                        format!(
                                            "{}: the instruction debits the trader the specified {} (transfer fee {} bps max {}), swap_quote_by_input_token reports token_in = {} (out {} and fee {} agree)",
                                            what(),
                                            prog.amt_in,
                                            fee_in.fee_bps,
                                            fee_in.max_fee,
                                            q.amounts.amt_in,
                                            prog.amt_out,
                                            prog.fee
                                        ),
                                    );
                                }
                                let safe = q.bound <= q.est;
                                if !safe {
                                    return Err(format!("{}: slippage {sl} bps: bound {} is on the unsafe side of the estimate {}", what(), q.bound, q.est));
                                }
                                inc(&st.slippage_checks);
                                continue;
                            }
                            if q.amounts != prog {
                                return Err(format!(
                                    "{}: program in/out/fee = {}/{}/{} (trader's real debit / credit) but SDK swap_quote = {}/{}/{}",
                                    what(),
                                    prog.amt_in,
                                    prog.amt_out,
                                    prog.fee,
                                    q.amounts.amt_in,
                                    q.amounts.amt_out,
                                    q.amounts.fee
                                ));
                            }
                            let safe = if s.exact_in { q.bound <= q.est } else { q.bound >= q.est };
                            if !safe {
                                return Err(format!("{}: slippage {sl} bps: bound {} is on the unsafe side of the estimate {}", what(), q.bound, q.est));
                            }
                            inc(&st.slippage_checks);
                        }
                    }
                }
                inc(&st.quotes_ok);
            } else if raw.is_none() {
                return Ok(()); // transfer-fee world with a price limit: no SDK API takes both
            }
            let k = (if s.a_to_b { 0 } else { 2 }) + (if s.exact_in { 0 } else { 1 });
            inc(&st.compared_ok[k]);
            st.crossings.fetch_add(crosses, Ordering::Relaxed);
            if steps >= 2 {
                inc(&st.multi_step);
            }
            if prog.fee > 0 {
                inc(&st.nonzero_fee);
            }
            let used = if s.exact_in { prog.amt_in } else { prog.amt_out };
            if !fees.any() && used < s.amount {
                inc(&st.partial_limit_fills);
            }
            if oracle.is_some() {
                inc(&st.adaptive_ok);
                if skipped {
                    inc(&st.adaptive_skips);
                }
                if rates.len() >= 2 {
                    inc(&st.adaptive_rate_varied);
                }
            }
            if fees.any() {
                inc(&st.transfer_fee_ok);
            }
            Ok(())
        }
        Some(e) => {
            let code = e.custom();
            let sdk_res: Option<Result<Amounts, String>> = match (&raw, use_quote) {
                (Some(r), _) => Some(r.clone()),
                (None, true) => Some(sdk_quote(pool, tas, oracle, ts, s, 100, fees).map(|q| q.amounts)),
                (None, false) => None,
            };
            let Some(sdk_res) = sdk_res else { return Ok(()) };
            match code {
                Some(6057) => {
                    inc(&st.fail_partial_fill);
                    if sdk_res.is_ok() {
                        inc(&st.sdk_ok_on_partial_fill);
                    } else {
                        inc(&st.sdk_err_on_fail);
                    }
                    Ok(())
                }
                Some(6038) | Some(6003) => {
                    inc(&st.fail_off_arrays);
                    if sdk_res.is_ok() {
                        inc(&st.sdk_ok_off_arrays);
                    } else {
                        inc(&st.sdk_err_on_fail);
                    }
                    Ok(())
                }
                Some(c) => {
                    inc(&st.fail_other);
                    *st.fail_other_codes.lock().unwrap().entry(format!("{c}")).or_insert(0) += 1;
                    match sdk_res {
                        Ok(a) => Err(format!(
                            "{}: program refused the swap with error {c} (neither a partial exact-out fill nor running off the tick arrays) but the SDK produced in/out/fee = {}/{}/{}",
                            what(),
                            a.amt_in,
                            a.amt_out,
                            a.fee
                        )),
                        Err(_) => {
                            inc(&st.sdk_err_on_fail);
                            Ok(())
                        }
                    }
                }
                None => {
                    // panic / CPI / runtime failure (e.g. a token transfer): not a verdict of the swap computation on this state
                    inc(&st.fail_noncustom);
                    *st.fail_other_codes.lock().unwrap().entry(e.short()).or_insert(0) += 1;
                    Ok(())
                }
            }
        }
    }
}

/// All swaps of `specs` in state `l`: execute + compare.
pub fn diff_state(l: &Ledger, w: &StdWorld, specs: &[SwapSpec], fees: &Fees, st: &DiffStats) -> Result<(), String> {
    for s in specs {
        let ex = exec_swap(l, w, s);
        compare(l, w, s, &ex, fees, st)?;
    }
    Ok(())
}
