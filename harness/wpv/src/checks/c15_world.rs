//! W-twin (DESIGN §2.6): two complete universes U1 / U2 on ONE ledger, built from different label seeds, plus the
//! instruction builders that `world.rs` does not have (two-hop v1/v2, reposition, adaptive-fee tier / pool).
//!
//! Each universe has: its own config and fee tier (ts = 64), an adaptive-fee tier (index 1024, ts = 64), three
//! pool mints m0 < m1 < m2, two reward mints, three pools
//!   P1 = (m0, m1) static fee,   PA = (m0, m1) adaptive fee with an initialised oracle,   P2 = (m1, m2) static fee,
//! (P1 and PA share BOTH mints, the tick spacing and therefore all tick-array start indexes: the most tempting
//! substitutes; P1 and P2 share the intermediate mint m1 for two-hop), six tick arrays per pool (fixed and dynamic
//! alternating), per pool two narrow positions with the same range plus one wide position (all with liquidity),
//! rewards at indexes 0, 1 (the SAME mint, so only the address check separates the two vaults) and 2; on P1 / PA the
//! rewards are paid in the pool's own tokens (A, A, B), so the pool PDA owns several token accounts of each pool mint
//! (see `Uni::reward_mint_id`); on P2 in two third-party reward mints. Vaults are funded, emissions run, LP fees,
//! protocol fees and rewards have accrued.
//! The pools start at tick 5600: for ts = 64 that is the "shifted" zone of array 0, so an a->b swap uses arrays
//! {0, -5632, -11264} and a b->a swap uses {5632, 11264, 16896}: disjoint sets, which makes a two-hop over the
//! same pool twice executable if the program's duplicate-pool check were missing.
#![allow(dead_code, clippy::too_many_arguments)]
use crate::decode;
use crate::refmodel::{MAX_SQRT_PRICE, MIN_SQRT_PRICE};
use crate::world::*;
use anchor_lang::{InstructionData, ToAccountMetas};
use solana_program::{
    instruction::{AccountMeta, Instruction},
    pubkey::Pubkey,
    system_program, sysvar,
};
use std::collections::BTreeMap;
use svm::{keys::key, Ledger};
use whirlpool::accounts as wa;
use whirlpool::instruction as wi;
use whirlpool::util::{AccountsType, RemainingAccountsInfo, RemainingAccountsSlice};

pub const P1: usize = 0;
pub const PA: usize = 1;
pub const P2: usize = 2;
pub const POOL_NAMES: [&str; 3] = ["P1", "PA", "P2"];
pub const TS: u16 = 64;
pub const N: i32 = 88 * 64;
pub const ARRAY_STARTS: [i32; 6] = [-2 * N, -N, 0, N, 2 * N, 3 * N];
pub const TICK0: i32 = 5600;
/// narrow positions (index 0 and 1 of every pool): lower tick in array 0, upper tick in array 5632
pub const NARROW: (i32, i32) = (5120, 6144);
/// wide position (index 2): lower tick in array -11264, upper tick in array 11264
pub const WIDE: (i32, i32) = (-8448, 14080);
/// the range `reposition_liquidity_v2` moves position 0 to (same two arrays)
pub const NEW_RANGE: (i32, i32) = (4992, 6272);
pub const ADAPTIVE_TIER_INDEX: u16 = 1024;
pub const LIQ: u128 = 20_000_000_000;

#[derive(Clone, Copy, Debug, PartialEq, Eq, PartialOrd, Ord)]
pub enum Variant {
    /// every mint is a plain SPL Token mint (v1 and v2 instructions)
    Spl,
    /// m0 SPL, m1 and m2 Token-2022, reward mint 0 Token-2022, reward mint 1 SPL (v2 instructions only)
    Mixed,
}
impl Variant {
    pub fn name(&self) -> &'static str {
        match self {
            Variant::Spl => "spl",
            Variant::Mixed => "mixed",
        }
    }
    pub fn parse(s: &str) -> Option<Variant> {
        match s {
            "spl" => Some(Variant::Spl),
            "mixed" => Some(Variant::Mixed),
            _ => None,
        }
    }
}

/// One of the five mints of a universe.
#[derive(Clone, Copy, Debug, PartialEq, Eq, PartialOrd, Ord)]
pub enum MintId {
    M(usize),
    R(usize),
}
pub const ALL_MINTS: [MintId; 5] = [MintId::M(0), MintId::M(1), MintId::M(2), MintId::R(0), MintId::R(1)];

#[derive(Clone, Debug)]
pub struct Party {
    pub name: &'static str,
    pub owner: Pubkey,
    pub acct: BTreeMap<Pubkey, Pubkey>,
    /// a second account per mint, same owner
    pub alt: BTreeMap<Pubkey, Pubkey>,
}
impl Party {
    pub fn of(&self, mint: &Pubkey) -> Pubkey {
        self.acct[mint]
    }
    pub fn alt_of(&self, mint: &Pubkey) -> Pubkey {
        self.alt[mint]
    }
    pub fn wallet(&self, p: &PoolRef) -> Wallet {
        Wallet { owner: self.owner, acct_a: self.of(&p.mint_a), acct_b: self.of(&p.mint_b) }
    }
}

#[derive(Clone, Debug)]
pub struct Uni {
    pub label: String,
    pub cfg: Config,
    pub funder: Pubkey,
    pub mints: [Pubkey; 3],
    pub rmints: [Pubkey; 2],
    pub pools: Vec<PoolRef>,
    pub lp: Party,
    pub trader: Party,
    pub other: Party,
    pub feedest: Party,
    /// pos[pool] = [narrow A, narrow B, wide]
    pub pos: Vec<Vec<PosRef>>,
    /// empty[pool] = [narrow, wide]: positions of the same owner that were opened and never funded (liquidity 0, nothing owed)
    pub empty: Vec<Vec<PosRef>>,
    /// rvault[pool][reward index]
    pub rvault: Vec<[Pubkey; 3]>,
}
impl Uni {
    pub fn mint(&self, id: MintId) -> Pubkey {
        match id {
            MintId::M(i) => self.mints[i],
            MintId::R(i) => self.rmints[i],
        }
    }
    /// P1 and PA: reward indexes 0 and 1 pay in the pool's own token A, index 2 in its token B. So (i) two reward
    /// vaults hold the same mint and only their address separates them, and (ii) the pool PDA owns further token
    /// accounts of mint A and of mint B besides its vaults: nothing but the address checks keeps liquidity, fee and
    /// reward money apart. P2: indexes 0 and 1 pay in reward mint 0, index 2 in reward mint 1 (third-party mints).
    pub fn reward_mint_id(pool: usize, idx: usize) -> MintId {
        if pool == P2 {
            MintId::R(if idx < 2 { 0 } else { 1 })
        } else {
            Self::pool_mint_id(pool, idx < 2)
        }
    }
    pub fn reward_mint(&self, pool: usize, idx: usize) -> Pubkey {
        self.mint(Self::reward_mint_id(pool, idx))
    }
    pub fn pool_mint_id(pool: usize, is_a: bool) -> MintId {
        match (pool, is_a) {
            (P1, true) | (PA, true) => MintId::M(0),
            (P1, false) | (PA, false) => MintId::M(1),
            (_, true) => MintId::M(1),
            (_, false) => MintId::M(2),
        }
    }
    pub fn party(&self, name: &str) -> &Party {
        match name {
            "lp" => &self.lp,
            "trader" => &self.trader,
            "other" => &self.other,
            _ => &self.feedest,
        }
    }
}

pub fn prog_of(l: &Ledger, mint: &Pubkey) -> Pubkey {
    l.get(mint).expect("mint exists").owner
}

fn party(l: &mut Ledger, label: &str, name: &'static str, mints: &[Pubkey], amount: u64) -> Party {
    let owner = key(&format!("{label}/{name}/owner"));
    l.put_system(owner, RICH);
    let mut acct = BTreeMap::new();
    let mut alt = BTreeMap::new();
    for m in mints {
        let k = key(&format!("{label}/{name}/acct/{m}"));
        create_token_account(l, k, *m, owner, amount);
        acct.insert(*m, k);
        let k = key(&format!("{label}/{name}/alt/{m}"));
        create_token_account(l, k, *m, owner, amount);
        alt.insert(*m, k);
    }
    Party { name, owner, acct, alt }
}

// ------------------------------------------------------------------------------------------------
// instruction builders missing from world.rs
// ------------------------------------------------------------------------------------------------
pub fn ix_init_adaptive_fee_tier(cfg: &Config, funder: Pubkey, index: u16, tick_spacing: u16) -> Instruction {
    ix(
        wa::InitializeAdaptiveFeeTier {
            whirlpools_config: cfg.addr,
            adaptive_fee_tier: fee_tier_addr(&cfg.addr, index),
            funder,
            fee_authority: cfg.fee_authority,
            system_program: system_program::ID,
        }
        .to_account_metas(None),
        wi::InitializeAdaptiveFeeTier {
            fee_tier_index: index,
            tick_spacing,
            initialize_pool_authority: Pubkey::default(),
            delegated_fee_authority: Pubkey::default(),
            default_base_fee_rate: 3000,
            filter_period: 30,
            decay_period: 600,
            reduction_factor: 500,
            adaptive_fee_control_factor: 4000,
            max_volatility_accumulator: 350_000,
            tick_group_size: tick_spacing,
            major_swap_threshold_ticks: tick_spacing,
        }
        .data(),
    )
}

pub fn ix_init_pool_adaptive(p: &PoolRef, funder: Pubkey, sqrt_price: u128) -> Instruction {
    ix(
        wa::InitializePoolWithAdaptiveFee {
            whirlpools_config: p.cfg,
            token_mint_a: p.mint_a,
            token_mint_b: p.mint_b,
            token_badge_a: token_badge_addr(&p.cfg, &p.mint_a),
            token_badge_b: token_badge_addr(&p.cfg, &p.mint_b),
            funder,
            initialize_pool_authority: funder,
            whirlpool: p.addr,
            oracle: p.oracle,
            token_vault_a: p.vault_a,
            token_vault_b: p.vault_b,
            adaptive_fee_tier: fee_tier_addr(&p.cfg, p.fee_tier_index),
            token_program_a: p.prog_a,
            token_program_b: p.prog_b,
            system_program: system_program::ID,
            rent: sysvar::rent::ID,
        }
        .to_account_metas(None),
        wi::InitializePoolWithAdaptiveFee { initial_sqrt_price: sqrt_price, trade_enable_timestamp: None }.data(),
    )
}

#[derive(Clone, Copy, Debug, PartialEq, Eq)]
pub struct TwoHopArgs {
    pub amount: u64,
    pub other_amount_threshold: u64,
    pub amount_specified_is_input: bool,
    pub a_to_b_one: bool,
    pub a_to_b_two: bool,
}

fn limit_for(a_to_b: bool) -> u128 {
    if a_to_b {
        MIN_SQRT_PRICE
    } else {
        MAX_SQRT_PRICE
    }
}

/// v1 two-hop. `w1`/`w2`: the trader's (a, b) accounts for each pool.
pub fn ix_two_hop_v1(p1: &PoolRef, p2: &PoolRef, authority: Pubkey, w1: &Wallet, w2: &Wallet, tas1: [Pubkey; 3], tas2: [Pubkey; 3], a: TwoHopArgs, remaining: &[Pubkey]) -> Instruction {
    let mut metas = wa::TwoHopSwap {
        token_program: TOKEN,
        token_authority: authority,
        whirlpool_one: p1.addr,
        whirlpool_two: p2.addr,
        token_owner_account_one_a: w1.acct_a,
        token_vault_one_a: p1.vault_a,
        token_owner_account_one_b: w1.acct_b,
        token_vault_one_b: p1.vault_b,
        token_owner_account_two_a: w2.acct_a,
        token_vault_two_a: p2.vault_a,
        token_owner_account_two_b: w2.acct_b,
        token_vault_two_b: p2.vault_b,
        tick_array_one_0: tas1[0],
        tick_array_one_1: tas1[1],
        tick_array_one_2: tas1[2],
        tick_array_two_0: tas2[0],
        tick_array_two_1: tas2[1],
        tick_array_two_2: tas2[2],
        oracle_one: p1.oracle,
        oracle_two: p2.oracle,
    }
    .to_account_metas(None);
    for r in remaining {
        metas.push(AccountMeta::new(*r, false));
    }
    ix(
        metas,
        wi::TwoHopSwap {
            amount: a.amount,
            other_amount_threshold: a.other_amount_threshold,
            amount_specified_is_input: a.amount_specified_is_input,
            a_to_b_one: a.a_to_b_one,
            a_to_b_two: a.a_to_b_two,
            sqrt_price_limit_one: limit_for(a.a_to_b_one),
            sqrt_price_limit_two: limit_for(a.a_to_b_two),
        }
        .data(),
    )
}

/// v2 two-hop. Mints / vaults follow from the directions; `acct_in` / `acct_out` are the trader's accounts.
pub fn ix_two_hop_v2(l: &Ledger, p1: &PoolRef, p2: &PoolRef, authority: Pubkey, acct_in: Pubkey, acct_out: Pubkey, tas1: [Pubkey; 3], tas2: [Pubkey; 3], a: TwoHopArgs, supp1: &[Pubkey], supp2: &[Pubkey]) -> Instruction {
    let (min, mmid_1, vin, vmid1) = if a.a_to_b_one { (p1.mint_a, p1.mint_b, p1.vault_a, p1.vault_b) } else { (p1.mint_b, p1.mint_a, p1.vault_b, p1.vault_a) };
    let (_mmid_2, mout, vmid2, vout) = if a.a_to_b_two { (p2.mint_a, p2.mint_b, p2.vault_a, p2.vault_b) } else { (p2.mint_b, p2.mint_a, p2.vault_b, p2.vault_a) };
    let mut metas = wa::TwoHopSwapV2 {
        whirlpool_one: p1.addr,
        whirlpool_two: p2.addr,
        token_mint_input: min,
        token_mint_intermediate: mmid_1,
        token_mint_output: mout,
        token_program_input: prog_of(l, &min),
        token_program_intermediate: prog_of(l, &mmid_1),
        token_program_output: prog_of(l, &mout),
        token_owner_account_input: acct_in,
        token_vault_one_input: vin,
        token_vault_one_intermediate: vmid1,
        token_vault_two_intermediate: vmid2,
        token_vault_two_output: vout,
        token_owner_account_output: acct_out,
        token_authority: authority,
        tick_array_one_0: tas1[0],
        tick_array_one_1: tas1[1],
        tick_array_one_2: tas1[2],
        tick_array_two_0: tas2[0],
        tick_array_two_1: tas2[1],
        tick_array_two_2: tas2[2],
        oracle_one: p1.oracle,
        oracle_two: p2.oracle,
        memo_program: MEMO,
    }
    .to_account_metas(None);
    let mut slices = vec![];
    if !supp1.is_empty() {
        slices.push(RemainingAccountsSlice { accounts_type: AccountsType::SupplementalTickArraysOne, length: supp1.len() as u8 });
        for s in supp1 {
            metas.push(AccountMeta::new(*s, false));
        }
    }
    if !supp2.is_empty() {
        slices.push(RemainingAccountsSlice { accounts_type: AccountsType::SupplementalTickArraysTwo, length: supp2.len() as u8 });
        for s in supp2 {
            metas.push(AccountMeta::new(*s, false));
        }
    }
    ix(
        metas,
        wi::TwoHopSwapV2 {
            amount: a.amount,
            other_amount_threshold: a.other_amount_threshold,
            amount_specified_is_input: a.amount_specified_is_input,
            a_to_b_one: a.a_to_b_one,
            a_to_b_two: a.a_to_b_two,
            sqrt_price_limit_one: limit_for(a.a_to_b_one),
            sqrt_price_limit_two: limit_for(a.a_to_b_two),
            remaining_accounts_info: if slices.is_empty() { None } else { Some(RemainingAccountsInfo { slices }) },
        }
        .data(),
    )
}

pub fn ix_reposition(pos: &PosRef, w: &Wallet, funder: Pubkey, new_lower: i32, new_upper: i32, liquidity: u128) -> Instruction {
    let p = &pos.pool;
    ix(
        wa::RepositionLiquidityV2 {
            whirlpool: p.addr,
            token_program_a: p.prog_a,
            token_program_b: p.prog_b,
            memo_program: MEMO,
            position_authority: w.owner,
            funder,
            position: pos.addr,
            position_token_account: pos.token_account,
            token_mint_a: p.mint_a,
            token_mint_b: p.mint_b,
            token_owner_account_a: w.acct_a,
            token_owner_account_b: w.acct_b,
            token_vault_a: p.vault_a,
            token_vault_b: p.vault_b,
            existing_tick_array_lower: pos.ta_lower(),
            existing_tick_array_upper: pos.ta_upper(),
            new_tick_array_lower: p.tick_array(p.array_start(new_lower)),
            new_tick_array_upper: p.tick_array(p.array_start(new_upper)),
            system_program: system_program::ID,
        }
        .to_account_metas(None),
        wi::RepositionLiquidityV2 {
            new_tick_lower_index: new_lower,
            new_tick_upper_index: new_upper,
            method: whirlpool::instructions::RepositionLiquidityMethod::ByLiquidity {
                new_liquidity_amount: liquidity,
                existing_range_token_min_a: 0,
                existing_range_token_min_b: 0,
                new_range_token_max_a: u64::MAX,
                new_range_token_max_b: u64::MAX,
            },
            remaining_accounts_info: None,
        }
        .data(),
    )
}

pub fn swap_args(amount: u64, a_to_b: bool, exact_in: bool) -> SwapArgs {
    SwapArgs {
        amount,
        other_amount_threshold: if exact_in { 0 } else { u64::MAX },
        sqrt_price_limit: limit_for(a_to_b),
        amount_specified_is_input: exact_in,
        a_to_b,
    }
}

/// The swap's three tick arrays for the pool's current state.
pub fn tas_now(l: &Ledger, p: &PoolRef, a_to_b: bool) -> [Pubkey; 3] {
    swap_tick_arrays(p, p.state(l).tick_current_index, a_to_b)
}

// ------------------------------------------------------------------------------------------------
// universe builder
// ------------------------------------------------------------------------------------------------
pub fn build_uni(l: &mut Ledger, label: &str, v: Variant) -> Uni {
    let cfg = init_config(l, label, 300);
    let funder = key(&format!("{label}/funder"));
    l.put_system(funder, RICH);
    must("init_fee_tier", svm::process(l, &ix_init_fee_tier(&cfg, funder, TS, 3000)));
    must("init_adaptive_fee_tier", svm::process(l, &ix_init_adaptive_fee_tier(&cfg, funder, ADAPTIVE_TIER_INDEX, TS)));

    let mut mk: Vec<Pubkey> = (0..3).map(|i| key(&format!("{label}/mint{i}"))).collect();
    mk.sort();
    let mints = [mk[0], mk[1], mk[2]];
    let rmints = [key(&format!("{label}/reward_mint0")), key(&format!("{label}/reward_mint1"))];
    let t22: [bool; 5] = match v {
        Variant::Spl => [false; 5],
        Variant::Mixed => [false, true, true, true, false],
    };
    for (i, m) in mints.iter().chain(rmints.iter()).enumerate() {
        if t22[i] {
            create_t22_mint(l, *m, 6, None, &[]);
        } else {
            create_spl_mint(l, *m, 6, None);
        }
    }
    let all: Vec<Pubkey> = mints.iter().chain(rmints.iter()).copied().collect();
    let lp = party(l, label, "lp", &all, 1 << 57);
    let trader = party(l, label, "trader", &all, 1 << 57);
    let other = party(l, label, "other", &all, 1 << 57);
    let feedest = party(l, label, "feedest", &all, 0);

    let sqrt0 = whirlpool::math::sqrt_price_from_tick_index(TICK0);
    let mut pools = vec![];
    for (i, name) in POOL_NAMES.iter().enumerate() {
        let (ma, mb) = if i == P2 { (mints[1], mints[2]) } else { (mints[0], mints[1]) };
        let idx = if i == PA { ADAPTIVE_TIER_INDEX } else { TS };
        let p = pool_ref(l, &cfg.addr, &format!("{label}/{name}"), ma, mb, TS, idx);
        let i_pool = if i == PA {
            ix_init_pool_adaptive(&p, funder, sqrt0)
        } else if p.is_v1_capable() {
            ix_init_pool_v1(&p, funder, sqrt0)
        } else {
            ix_init_pool_v2(&p, funder, sqrt0)
        };
        must("init_pool", svm::process(l, &i_pool));
        for (j, s) in ARRAY_STARTS.iter().enumerate() {
            must("init_tick_array", svm::process(l, &ix_init_tick_array(&p, funder, *s, j % 2 == 1)));
        }
        pools.push(p);
    }
    // PA really has an initialised oracle, the others do not
    assert!(l.get(&pools[PA].oracle).map(|a| a.owner == WP).unwrap_or(false), "adaptive-fee pool must have an oracle");
    assert!(l.get(&pools[P1].oracle).is_none() && l.get(&pools[P2].oracle).is_none());

    // positions with liquidity
    let mut pos = vec![];
    for (i, p) in pools.iter().enumerate() {
        let mut v_pos = vec![];
        for (j, (lo, hi)) in [NARROW, NARROW, WIDE].iter().enumerate() {
            // NFT flavour alternates so that both token programs appear as owners of position token accounts
            let t22_nft = match v {
                Variant::Spl => j == 1,
                Variant::Mixed => j != 1,
            };
            let pr = pos_ref(p, &format!("{label}/{}/pos{j}", POOL_NAMES[i]), lp.owner, *lo, *hi, t22_nft);
            must("open_position", svm::process(l, &ix_open_position(&pr, funder)));
            must("increase_liquidity", svm::process(l, &ix_increase(&pr, &lp.wallet(p), LIQ, u64::MAX, u64::MAX, true)));
            v_pos.push(pr);
        }
        pos.push(v_pos);
    }
    // positions without liquidity (same owner, same ranges): code that only looks at a position once it holds liquidity must
    // still refuse one that belongs to another pool
    let mut empty = vec![];
    for (i, p) in pools.iter().enumerate() {
        let mut v_pos = vec![];
        for (j, (lo, hi)) in [NARROW, WIDE].iter().enumerate() {
            let t22_nft = match v {
                Variant::Spl => j == 1,
                Variant::Mixed => j != 1,
            };
            let pr = pos_ref(p, &format!("{label}/{}/empty{j}", POOL_NAMES[i]), lp.owner, *lo, *hi, t22_nft);
            must("open_position(empty)", svm::process(l, &ix_open_position(&pr, funder)));
            v_pos.push(pr);
        }
        empty.push(v_pos);
    }

    // rewards (see Uni::reward_mint_id), funded, emitting
    let mut rvault = vec![];
    for (pi, p) in pools.iter().enumerate() {
        let mut vs = [Pubkey::default(); 3];
        for idx in 0..3usize {
            let mint = match Uni::reward_mint_id(pi, idx) {
                MintId::M(i) => mints[i],
                MintId::R(i) => rmints[i],
            };
            let prog = prog_of(l, &mint);
            let v2 = prog == T22;
            must("init_reward", svm::process(l, &ix_init_reward(p, cfg.reward_emissions_super_authority, funder, mint, prog, idx as u8, v2)));
            let vault = reward_vault_key(p, idx as u8);
            let i_mint = if v2 {
                spl_token_2022::instruction::mint_to(&T22, &mint, &vault, &mint_authority(), &[], 1_000_000_000_000).unwrap()
            } else {
                spl_token::instruction::mint_to(&TOKEN, &mint, &vault, &mint_authority(), &[], 1_000_000_000_000).unwrap()
            };
            svm::process_builtin(l, &i_mint).unwrap_or_else(|m| panic!("fund reward vault: {m}"));
            must(
                "set_reward_emissions",
                svm::process(l, &ix_set_reward_emissions(p, cfg.reward_emissions_super_authority, vault, idx as u8, 1000u128 << 64, v2)),
            );
            vs[idx] = vault;
        }
        rvault.push(vs);
    }
    Uni { label: label.to_string(), cfg, funder, mints, rmints, pools, lp, trader, other, feedest, pos, empty, rvault }
}

/// Let time pass, trade in both directions on every pool (fees + protocol fees accrue), settle every position.
pub fn accrue(l: &mut Ledger, u: &Uni) {
    for p in &u.pools {
        for a_to_b in [true, false] {
            let i = ix_swap(p, &u.trader.wallet(p), swap_args(3_000_000, a_to_b, true), tas_now(l, p, a_to_b), true, &[]);
            must("accrue swap", svm::process(l, &i));
        }
    }
    for ps in &u.pos {
        for pr in ps {
            must("update_fees_and_rewards", svm::process(l, &ix_update_fees_and_rewards(pr)));
        }
    }
}

pub fn build_twin(v: Variant) -> (Ledger, Uni, Uni) {
    let mut l = base_ledger();
    let u1 = build_uni(&mut l, &format!("c15/{}/U1", v.name()), v);
    let u2 = build_uni(&mut l, &format!("c15/{}/U2", v.name()), v);
    l.unix_ts += 1000;
    accrue(&mut l, &u1);
    accrue(&mut l, &u2);
    // every instruction has something to move
    for u in [&u1, &u2] {
        for (i, p) in u.pools.iter().enumerate() {
            let st = p.state(&l);
            assert!(st.protocol_fee_owed_a > 0 && st.protocol_fee_owed_b > 0, "protocol fees accrued");
            assert!(st.liquidity > 0);
            for pr in &u.pos[i] {
                let ps = pr.state(&l);
                assert!(ps.liquidity > 0 && ps.fee_owed_a > 0 && ps.fee_owed_b > 0, "position fees accrued");
                assert!(ps.reward_infos.iter().all(|r| r.amount_owed > 0), "rewards accrued");
            }
        }
    }
    let _ = decode::pool;
    (l, u1, u2)
}

/// Root states the matrix is evaluated from.
pub fn root_states(v: Variant, thorough: bool) -> Vec<(&'static str, Ledger, Uni, Uni)> {
    let (l0, u1, u2) = build_twin(v);
    let mut out = vec![("S0-in-range-shifted", l0.clone(), u1.clone(), u2.clone())];
    // S1: the price has left the narrow range downwards (narrow positions hold token A only), tick arrays not shifted
    let mut l1 = l0.clone();
    for u in [&u1, &u2] {
        for p in &u.pools {
            let mut a = swap_args(u64::MAX / 4, true, true);
            a.sqrt_price_limit = whirlpool::math::sqrt_price_from_tick_index(2000);
            let i = ix_swap(p, &u.trader.wallet(p), a, tas_now(&l1, p, true), true, &[]);
            must("move price", svm::process(&mut l1, &i));
        }
    }
    l1.unix_ts += 500;
    for u in [&u1, &u2] {
        accrue(&mut l1, u);
    }
    out.push(("S1-below-range", l1, u1.clone(), u2.clone()));
    if thorough {
        // S2: price above the narrow range (token B only), later in time
        let mut l2 = l0.clone();
        for u in [&u1, &u2] {
            for p in &u.pools {
                let mut a = swap_args(u64::MAX / 4, false, true);
                a.sqrt_price_limit = whirlpool::math::sqrt_price_from_tick_index(9000);
                let i = ix_swap(p, &u.trader.wallet(p), a, tas_now(&l2, p, false), true, &[]);
                must("move price up", svm::process(&mut l2, &i));
            }
        }
        l2.unix_ts += 5000;
        for u in [&u1, &u2] {
            accrue(&mut l2, u);
        }
        out.push(("S2-above-range", l2, u1, u2));
    }
    out
}
