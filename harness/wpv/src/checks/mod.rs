//! One module per property. Each exposes `run(&Ctx) -> Report` and `replay(&Value) -> Result<(), String>`.
use crate::report::{finish, Ctx};
use serde_json::Value;

pub mod c09;

pub fn run(id: &str, ctx: &Ctx) -> i32 {
    match id {
        "C09" => finish(ctx, c09::run(ctx), Some(&c09::replay)),
        _ => {
            eprintln!("unknown or unbuilt check {id}");
            2
        }
    }
}

pub fn replay(id: &str, case: &Value) -> Result<(), String> {
    match id {
        "C09" => c09::replay(case),
        _ => Err(format!("no replay for {id}")),
    }
}

pub fn selftest() -> i32 {
    0
}
