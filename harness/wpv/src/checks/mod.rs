//! One module per property. Each exposes `run(&Ctx) -> Report` and `replay(&Value) -> Result<(), String>`.
use crate::report::{finish, Ctx};
use serde_json::Value;

pub mod c01;
pub mod c03;
pub mod c05;
pub mod c06;
pub mod c07;
pub mod c08;
pub mod c08_fn;
pub mod c16;
pub mod c16_fn;
pub mod c19;
pub mod c19_fn;
pub mod c12;
pub mod c12_fn;
pub mod c13;
pub mod c09;

pub fn run(id: &str, ctx: &Ctx) -> i32 {
    match id {
        "C01" => finish(ctx, c01::run(ctx), Some(&c01::replay)),
        "C03" => finish(ctx, c03::run(ctx), Some(&c03::replay)),
        "C05" => finish(ctx, c05::run(ctx), Some(&c05::replay)),
        "C06" => finish(ctx, c06::run(ctx), Some(&c06::replay)),
        "C08" => finish(ctx, c08::run(ctx), Some(&c08::replay)),
        "C16" => finish(ctx, c16::run(ctx), Some(&c16::replay)),
        "C19" => finish(ctx, c19::run(ctx), Some(&c19::replay)),
        "C12" => finish(ctx, c12::run(ctx), Some(&c12::replay)),
        "C13" => finish(ctx, c13::run(ctx), Some(&c13::replay)),
        "C07" => finish(ctx, c07::run(ctx), Some(&c07::replay)),
        "C09" => finish(ctx, c09::run(ctx), Some(&c09::replay)),
        _ => {
            eprintln!("unknown or unbuilt check {id}");
            2
        }
    }
}

pub fn replay(id: &str, case: &Value) -> Result<(), String> {
    match id {
        "C01" => c01::replay(case),
        "C03" => c03::replay(case),
        "C05" => c05::replay(case),
        "C06" => c06::replay(case),
        "C08" => c08::replay(case),
        "C16" => c16::replay(case),
        "C19" => c19::replay(case),
        "C12" => c12::replay(case),
        "C13" => c13::replay(case),
        "C07" => c07::replay(case),
        "C09" => c09::replay(case),
        _ => Err(format!("no replay for {id}")),
    }
}

pub fn selftest() -> i32 {
    0
}
