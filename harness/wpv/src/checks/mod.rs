//! One module per property. Each exposes `run(&Ctx) -> Report` and `replay(&Value) -> Result<(), String>`.
use crate::report::{finish, Ctx};
use serde_json::Value;

pub mod c01;
pub mod c02;
pub mod c03;
pub mod c03_twohop;
pub mod c04;
pub mod c04_world;
pub mod c05;
pub mod c06;
pub mod c07;
pub mod c07_twohop;
pub mod c08;
pub mod c08_fn;
pub mod c14;
pub mod c14_fn;
pub mod c14_ref;
pub mod c14_world;
pub mod c15;
pub mod c15_world;
pub mod c16;
pub mod c16_fn;
pub mod c17;
pub mod c17_world;
pub mod c18;
pub mod c18_fn;
pub mod c18_world;
pub mod c19;
pub mod c19_fn;
pub mod c19_seq;
pub mod c19_badge;
pub mod c20_world;
pub mod c20;
pub mod c12;
pub mod c12_fn;
pub mod c13;
pub mod c13_live;
pub mod c09;
pub mod c10;
pub mod c11;

pub fn run(id: &str, ctx: &Ctx) -> i32 {
    match id {
        "C01" => finish(ctx, c01::run(ctx), Some(&c01::replay)),
        "C02" => finish(ctx, c02::run(ctx), Some(&c02::replay)),
        "C03" => finish(ctx, c03::run(ctx), Some(&c03::replay)),
        "C04" => finish(ctx, c04::run(ctx), Some(&c04::replay)),
        "C05" => finish(ctx, c05::run(ctx), Some(&c05::replay)),
        "C06" => finish(ctx, c06::run(ctx), Some(&c06::replay)),
        "C08" => finish(ctx, c08::run(ctx), Some(&c08::replay)),
        "C14" => finish(ctx, c14::run(ctx), Some(&c14::replay)),
        "C15" => finish(ctx, c15::run(ctx), Some(&c15::replay)),
        "C16" => finish(ctx, c16::run(ctx), Some(&c16::replay)),
        "C17" => finish(ctx, c17::run(ctx), Some(&c17::replay)),
        "C18" => finish(ctx, c18::run(ctx), Some(&c18::replay)),
        "C19" => finish(ctx, c19::run(ctx), Some(&c19::replay)),
        "C20" => finish(ctx, c20::run(ctx), Some(&c20::replay)),
        "C12" => finish(ctx, c12::run(ctx), Some(&c12::replay)),
        "C13" => finish(ctx, c13::run(ctx), Some(&c13::replay)),
        "C07" => finish(ctx, c07::run(ctx), Some(&c07::replay)),
        "C09" => finish(ctx, c09::run(ctx), Some(&c09::replay)),
        "C10" => finish(ctx, c10::run(ctx), Some(&c10::replay)),
        "C11" => finish(ctx, c11::run(ctx), Some(&c11::replay)),
        _ => {
            eprintln!("unknown or unbuilt check {id}");
            2
        }
    }
}

pub fn replay(id: &str, case: &Value) -> Result<(), String> {
    match id {
        "C01" => c01::replay(case),
        "C02" => c02::replay(case),
        "C03" => c03::replay(case),
        "C04" => c04::replay(case),
        "C05" => c05::replay(case),
        "C06" => c06::replay(case),
        "C08" => c08::replay(case),
        "C14" => c14::replay(case),
        "C15" => c15::replay(case),
        "C16" => c16::replay(case),
        "C17" => c17::replay(case),
        "C18" => c18::replay(case),
        "C19" => c19::replay(case),
        "C20" => c20::replay(case),
        "C12" => c12::replay(case),
        "C13" => c13::replay(case),
        "C07" => c07::replay(case),
        "C09" => c09::replay(case),
        "C10" => c10::replay(case),
        "C11" => c11::replay(case),
        _ => Err(format!("no replay for {id}")),
    }
}

/// Quick sanity run of the machinery itself (not a property check).
pub fn selftest() -> i32 {
    use num_bigint::BigUint;
    use whirlpool::math::U256Muldiv;
    // U256Muldiv::div against num-bigint over a word alphabet (incl. the Knuth-D add-back branch with the carry word)
    let words: [u64; 6] = [0, 1, 2, 1 << 63, u64::MAX - 1, u64::MAX];
    let mut n = 0u64;
    let mut bad = 0u64;
    let mut panics = 0u64;
    let mk = |w: [u64; 4]| U256Muldiv::new(((w[3] as u128) << 64) | w[2] as u128, ((w[1] as u128) << 64) | w[0] as u128);
    let big = |w: [u64; 4]| w.iter().rev().fold(BigUint::from(0u32), |acc, x| (acc << 64) + BigUint::from(*x));
    let prev = std::panic::take_hook();
    std::panic::set_hook(Box::new(|_| {}));
    for a in 0..6usize.pow(4) {
        let aw = [words[a % 6], words[a / 6 % 6], words[a / 36 % 6], words[a / 216 % 6]];
        for b in 0..6usize.pow(4) {
            let bw = [words[b % 6], words[b / 6 % 6], words[b / 36 % 6], words[b / 216 % 6]];
            if bw == [0, 0, 0, 0] {
                continue;
            }
            n += 1;
            let r = std::panic::catch_unwind(|| mk(aw).div(mk(bw), true));
            match r {
                Err(_) => panics += 1,
                Ok((q, rem)) => {
                    let (qb, rb) = (big(aw) / big(bw), big(aw) % big(bw));
                    let qq = big([q.get_word(0), q.get_word(1), q.get_word(2), q.get_word(3)]);
                    let rr = big([rem.get_word(0), rem.get_word(1), rem.get_word(2), rem.get_word(3)]);
                    if qq != qb || rr != rb {
                        bad += 1;
                    }
                }
            }
        }
    }
    std::panic::set_hook(prev);
    println!("selftest u256 div: {n} divisions, {bad} wrong, {panics} panics");
    let r = std::panic::catch_unwind(|| whirlpool::math::get_next_sqrt_price_from_a_round_up((1u128 << 64) + 1, 1u128 << 64, 1, true));
    println!("selftest next_sqrt_price_from_a(2^64+1, 2^64, 1): {:?}", r.map_err(|_| "panic"));
    if bad > 0 || panics > 0 {
        1
    } else {
        0
    }
}
