//! C04 world: one ledger that contains every authority-relevant object of the program (config + extension + token badges,
//! fee tiers, adaptive fee tiers, a standard pool with rewards, an adaptive-fee pool, classic / token-extension / bundled
//! positions of a victim in the lifecycle states fresh / funded / emptied / locked, the same objects owned by an attacker and an
//! attacker-controlled twin config), plus the instruction builders that `world.rs` does not have.
#![allow(dead_code, clippy::too_many_arguments)]
use crate::world::{self as W, Config, PoolRef, PosRef, StdSpec, StdWorld, T22Ext, Wallet, ATA, MEMO, RICH, T22, TOKEN};
use anchor_lang::{InstructionData, ToAccountMetas};
use solana_program::{instruction::Instruction, program_pack::Pack, pubkey::Pubkey, system_program, sysvar};
use std::collections::BTreeMap;
use svm::{keys::key, Acct, Ledger};
use whirlpool::accounts as wa;
use whirlpool::instruction as wi;

pub const P0: u128 = 1u128 << 64;
pub const TS: u16 = 64;
pub const LO: i32 = -128;
pub const HI: i32 = 128;
pub const AF_INDEX: u16 = 1025; // adaptive fee tier with an existing pool
pub const AF_INDEX_NEW: u16 = 1026; // adaptive fee tier whose pool is created by the initialize_pool_with_adaptive_fee row
pub const AF_INDEX_ROW: u16 = 1027; // created by the initialize_adaptive_fee_tier row

#[derive(Clone, Copy, PartialEq, Eq, Debug, PartialOrd, Ord)]
pub enum Flavor {
    /// pool over two classic SPL mints (v1 and v2 instruction families apply)
    Spl,
    /// pool over Token-2022 mints (A with a transfer fee): only the v2 family applies
    T22,
}
impl Flavor {
    pub fn name(&self) -> &'static str {
        match self {
            Flavor::Spl => "spl",
            Flavor::T22 => "t22",
        }
    }
}

#[derive(Clone, Copy, PartialEq, Eq, Debug, PartialOrd, Ord)]
pub enum Nft {
    Classic,
    Te,
    Bundle,
}
impl Nft {
    pub fn name(&self) -> &'static str {
        match self {
            Nft::Classic => "classic",
            Nft::Te => "te",
            Nft::Bundle => "bundle",
        }
    }
}

#[derive(Clone, Copy, PartialEq, Eq, Debug, PartialOrd, Ord)]
pub enum St {
    Fresh,
    Funded,
    Emptied,
    Locked,
}
impl St {
    pub fn name(&self) -> &'static str {
        match self {
            St::Fresh => "fresh",
            St::Funded => "funded",
            St::Emptied => "emptied",
            St::Locked => "locked",
        }
    }
}

/// A party with token accounts for both pool mints and the reward mint.
#[derive(Clone, Debug)]
pub struct Actor {
    pub name: &'static str,
    pub key: Pubkey,
    pub a: Pubkey,
    pub b: Pubkey,
    pub r: Pubkey,
}
impl Actor {
    pub fn wallet(&self) -> Wallet {
        Wallet { owner: self.key, acct_a: self.a, acct_b: self.b }
    }
}

#[derive(Clone, Debug)]
pub struct Bundle {
    pub mint: Pubkey,
    pub addr: Pubkey,
    pub token_account: Pubkey,
    pub owner: Pubkey,
}

#[derive(Clone, Debug)]
pub struct VPos {
    pub nft: Nft,
    pub st: St,
    pub pos: PosRef,
    /// for bundled positions: (bundle, index)
    pub bundle: Option<(Bundle, u16)>,
}

/// All keys of one config "universe" (the victim's and the attacker's twin have the same shape).
#[derive(Clone, Debug)]
pub struct Universe {
    pub cfg: Pubkey,
    pub ext: Pubkey,
    pub fee_tier: Pubkey,
    pub af_tier: Pubkey,
    pub af_tier_new: Pubkey,
    pub pool: PoolRef,
    pub af_pool: PoolRef,
    pub badge_set: Pubkey,  // initialized token badge of badge_mint_set
    pub badge_new: Pubkey,  // uninitialized token badge PDA of badge_mint_new
    pub badge_pool_a: Pubkey, // (uninitialized) badge PDAs of the pool mints
    pub badge_pool_b: Pubkey,
}

#[derive(Clone)]
pub struct World {
    pub flavor: Flavor,
    pub l: Ledger,
    pub std: StdWorld,
    pub cfg: Config,
    pub funder: Pubkey,
    pub owner: Actor,
    pub attacker: Actor,
    pub delegate: Actor,
    pub newowner: Actor,
    pub feedest: Actor,
    pub reward_mint: Pubkey,
    pub reward_prog: Pubkey,
    pub reward_vault: Pubkey,
    pub reward_mint2: Pubkey,
    pub victim: Vec<VPos>,
    pub attacker_pos: BTreeMap<Nft, VPos>,
    pub attacker_locked: PosRef,
    pub victim_bundle: Bundle,
    pub victim_bundle_empty: Bundle,
    pub attacker_bundle: Bundle,
    pub attacker_bundle_empty: Bundle,
    /// every role key of the victim universe, by name
    pub roles: Vec<(&'static str, Pubkey)>,
    pub reward_authority: Pubkey,
    pub cea: Pubkey,
    pub tba: Pubkey,
    pub dfa: Pubkey,
    pub ipa: Pubkey,
    pub badge_mint_set: Pubkey,
    pub badge_mint_new: Pubkey,
    pub u1: Universe,
    pub u2: Universe,
    /// config without an extension (for initialize_config_extension)
    pub cfg3: Pubkey,
    /// victim-universe account -> attacker-universe account
    pub twin: BTreeMap<Pubkey, Pubkey>,
}

pub fn mk<A: ToAccountMetas, D: InstructionData>(a: A, d: D) -> Instruction {
    W::ix(a.to_account_metas(None), d.data())
}

pub fn must(what: &str, l: &mut Ledger, i: &Instruction) {
    let o = svm::process(l, i);
    if !o.ok() {
        svm::set_capture_logs(true);
        let mut c = l.clone();
        let again = svm::process(&mut c, i);
        svm::set_capture_logs(false);
        panic!("C04 world: {what} failed: {} logs={:#?}", o.short(), again.logs);
    }
}
pub fn must_builtin(what: &str, l: &mut Ledger, i: &Instruction) {
    if let Err(m) = svm::process_builtin(l, i) {
        panic!("C04 world: {what} failed: {m}");
    }
}

// ------------------------------------------------------------------------------------------------
// PDAs
// ------------------------------------------------------------------------------------------------
pub fn ext_addr(cfg: &Pubkey) -> Pubkey {
    W::pda(&[b"config_extension", cfg.as_ref()]).0
}
pub fn lock_config_addr(position: &Pubkey) -> Pubkey {
    W::pda(&[b"lock_config", position.as_ref()]).0
}
pub fn bundle_addr(mint: &Pubkey) -> Pubkey {
    W::pda(&[b"position_bundle", mint.as_ref()]).0
}
pub fn bundled_position_addr(mint: &Pubkey, index: u16) -> Pubkey {
    W::pda(&[b"bundled_position", mint.as_ref(), index.to_string().as_bytes()]).0
}

// ------------------------------------------------------------------------------------------------
// token helpers (real SPL processors)
// ------------------------------------------------------------------------------------------------
const TOKEN_STATE_OFFSET: usize = 108;

/// spl-token Approve executed by the real token program. A frozen (locked) account cannot be approved on chain, but a delegate
/// approved before the lock stays: for frozen accounts the state byte is thawed around the real Approve (equivalent pre-lock order).
pub fn approve(l: &mut Ledger, acct: &Pubkey, owner: &Pubkey, delegate: &Pubkey, amount: u64) {
    let prog = l.get(acct).expect("approve: account").owner;
    let frozen = l.data(acct)[TOKEN_STATE_OFFSET] == 2;
    if frozen {
        l.patch(acct, |d| d[TOKEN_STATE_OFFSET] = 1);
    }
    let i = if prog == TOKEN {
        spl_token::instruction::approve(&TOKEN, acct, delegate, owner, &[], amount).unwrap()
    } else {
        spl_token_2022::instruction::approve(&T22, acct, delegate, owner, &[], amount).unwrap()
    };
    must_builtin("approve", l, &i);
    if frozen {
        l.patch(acct, |d| d[TOKEN_STATE_OFFSET] = 2);
    }
}
pub fn revoke(l: &mut Ledger, acct: &Pubkey, owner: &Pubkey) {
    let prog = l.get(acct).expect("revoke: account").owner;
    let frozen = l.data(acct)[TOKEN_STATE_OFFSET] == 2;
    if frozen {
        l.patch(acct, |d| d[TOKEN_STATE_OFFSET] = 1);
    }
    let i = if prog == TOKEN {
        spl_token::instruction::revoke(&TOKEN, acct, owner, &[]).unwrap()
    } else {
        spl_token_2022::instruction::revoke(&T22, acct, owner, &[]).unwrap()
    };
    must_builtin("revoke", l, &i);
    if frozen {
        l.patch(acct, |d| d[TOKEN_STATE_OFFSET] = 2);
    }
}
/// Move one NFT (decimals 0) with the real token program.
pub fn transfer_nft(l: &mut Ledger, mint: &Pubkey, src: &Pubkey, dst: &Pubkey, owner: &Pubkey) {
    let prog = l.get(src).expect("transfer: account").owner;
    let i = if prog == TOKEN {
        spl_token::instruction::transfer_checked(&TOKEN, src, mint, dst, owner, &[], 1, 0).unwrap()
    } else {
        spl_token_2022::instruction::transfer_checked(&T22, src, mint, dst, owner, &[], 1, 0).unwrap()
    };
    must_builtin("transfer_checked", l, &i);
}
pub fn mint_to(l: &mut Ledger, mint: &Pubkey, dst: &Pubkey, amount: u64) {
    let prog = l.get(mint).expect("mint").owner;
    let i = if prog == TOKEN {
        spl_token::instruction::mint_to(&TOKEN, mint, dst, &W::mint_authority(), &[], amount).unwrap()
    } else {
        spl_token_2022::instruction::mint_to(&T22, mint, dst, &W::mint_authority(), &[], amount).unwrap()
    };
    must_builtin("mint_to", l, &i);
}
/// An account that looks like a token account holding one token of `mint` for `owner` but is owned by `fake_owner_program`.
pub fn forge_token_account(l: &mut Ledger, k: Pubkey, mint: Pubkey, owner: Pubkey, fake_owner_program: Pubkey) {
    let mut d = vec![0u8; spl_token::state::Account::LEN];
    spl_token::state::Account {
        mint,
        owner,
        amount: 1,
        delegate: solana_program::program_option::COption::None,
        state: spl_token::state::AccountState::Initialized,
        is_native: solana_program::program_option::COption::None,
        delegated_amount: 0,
        close_authority: solana_program::program_option::COption::None,
    }
    .pack_into_slice(&mut d);
    l.put(k, Acct { lamports: 10_000_000, data: d, owner: fake_owner_program, executable: false });
}

// ------------------------------------------------------------------------------------------------
// instruction builders: positions
// ------------------------------------------------------------------------------------------------
pub fn ix_reposition(pos: &PosRef, w: &Wallet, funder: Pubkey, new_lo: i32, new_hi: i32, liquidity: u128) -> Instruction {
    let p = &pos.pool;
    mk(
        wa::RepositionLiquidityV2 {
            whirlpool: p.addr,
            token_program_a: p.prog_a,
            token_program_b: p.prog_b,
            memo_program: MEMO,
            position_authority: w.owner,
            funder,
            position: pos.addr,
            position_token_account: pos.token_account,
            token_mint_a: p.mint_a,
            token_mint_b: p.mint_b,
            token_owner_account_a: w.acct_a,
            token_owner_account_b: w.acct_b,
            token_vault_a: p.vault_a,
            token_vault_b: p.vault_b,
            existing_tick_array_lower: pos.ta_lower(),
            existing_tick_array_upper: pos.ta_upper(),
            new_tick_array_lower: p.tick_array(p.array_start(new_lo)),
            new_tick_array_upper: p.tick_array(p.array_start(new_hi)),
            system_program: system_program::ID,
        },
        wi::RepositionLiquidityV2 {
            new_tick_lower_index: new_lo,
            new_tick_upper_index: new_hi,
            method: whirlpool::instructions::RepositionLiquidityMethod::ByLiquidity {
                new_liquidity_amount: liquidity,
                existing_range_token_min_a: 0,
                existing_range_token_min_b: 0,
                new_range_token_max_a: u64::MAX,
                new_range_token_max_b: u64::MAX,
            },
            remaining_accounts_info: None,
        },
    )
}
pub fn ix_reset_range(pos: &PosRef, authority: Pubkey, funder: Pubkey, new_lo: i32, new_hi: i32) -> Instruction {
    mk(
        wa::ResetPositionRange {
            funder,
            position_authority: authority,
            whirlpool: pos.pool.addr,
            position: pos.addr,
            position_token_account: pos.token_account,
            system_program: system_program::ID,
        },
        wi::ResetPositionRange { new_tick_lower_index: new_lo, new_tick_upper_index: new_hi },
    )
}
pub fn ix_lock(pos: &PosRef, authority: Pubkey, funder: Pubkey) -> Instruction {
    mk(
        wa::LockPosition {
            funder,
            position_authority: authority,
            position: pos.addr,
            position_mint: pos.mint,
            position_token_account: pos.token_account,
            lock_config: lock_config_addr(&pos.addr),
            whirlpool: pos.pool.addr,
            token_2022_program: T22,
            system_program: system_program::ID,
        },
        wi::LockPosition { lock_type: whirlpool::state::LockType::Permanent },
    )
}
pub fn ix_transfer_locked(pos: &PosRef, authority: Pubkey, receiver: Pubkey, destination: Pubkey) -> Instruction {
    mk(
        wa::TransferLockedPosition {
            position_authority: authority,
            receiver,
            position: pos.addr,
            position_mint: pos.mint,
            position_token_account: pos.token_account,
            destination_token_account: destination,
            lock_config: lock_config_addr(&pos.addr),
            token_2022_program: T22,
        },
        wi::TransferLockedPosition {},
    )
}
pub fn ix_init_bundle(b: &Bundle, funder: Pubkey) -> Instruction {
    mk(
        wa::InitializePositionBundle {
            position_bundle: b.addr,
            position_bundle_mint: b.mint,
            position_bundle_token_account: b.token_account,
            position_bundle_owner: b.owner,
            funder,
            token_program: TOKEN,
            system_program: system_program::ID,
            rent: sysvar::rent::ID,
            associated_token_program: ATA,
        },
        wi::InitializePositionBundle {},
    )
}
pub fn bundle_ref(label: &str, owner: Pubkey) -> Bundle {
    let mint = key(&format!("{label}/bundle_mint"));
    Bundle { mint, addr: bundle_addr(&mint), token_account: spl_associated_token_account::get_associated_token_address(&owner, &mint), owner }
}
pub fn bundled_pos_ref(b: &Bundle, index: u16, pool: &PoolRef, lo: i32, hi: i32) -> PosRef {
    PosRef { addr: bundled_position_addr(&b.mint, index), mint: b.mint, token_account: b.token_account, owner: b.owner, lower: lo, upper: hi, pool: pool.clone(), t22: false }
}
pub fn ix_open_bundled(b: &Bundle, index: u16, pool: &PoolRef, authority: Pubkey, funder: Pubkey, lo: i32, hi: i32) -> Instruction {
    mk(
        wa::OpenBundledPosition {
            bundled_position: bundled_position_addr(&b.mint, index),
            position_bundle: b.addr,
            position_bundle_token_account: b.token_account,
            position_bundle_authority: authority,
            whirlpool: pool.addr,
            funder,
            system_program: system_program::ID,
            rent: sysvar::rent::ID,
        },
        wi::OpenBundledPosition { bundle_index: index, tick_lower_index: lo, tick_upper_index: hi },
    )
}
pub fn ix_close_bundled(b: &Bundle, index: u16, authority: Pubkey, receiver: Pubkey) -> Instruction {
    mk(
        wa::CloseBundledPosition {
            bundled_position: bundled_position_addr(&b.mint, index),
            position_bundle: b.addr,
            position_bundle_token_account: b.token_account,
            position_bundle_authority: authority,
            receiver,
        },
        wi::CloseBundledPosition { bundle_index: index },
    )
}
pub fn ix_delete_bundle(b: &Bundle, owner: Pubkey, receiver: Pubkey) -> Instruction {
    mk(
        wa::DeletePositionBundle {
            position_bundle: b.addr,
            position_bundle_mint: b.mint,
            position_bundle_token_account: b.token_account,
            position_bundle_owner: owner,
            receiver,
            token_program: TOKEN,
        },
        wi::DeletePositionBundle {},
    )
}

// ------------------------------------------------------------------------------------------------
// instruction builders: settings
// ------------------------------------------------------------------------------------------------
pub fn ix_init_config(cfg: Pubkey, funder: Pubkey, fa: Pubkey, cpfa: Pubkey, resa: Pubkey, rate: u16) -> Instruction {
    mk(
        wa::InitializeConfig { config: cfg, funder, system_program: system_program::ID },
        wi::InitializeConfig { fee_authority: fa, collect_protocol_fees_authority: cpfa, reward_emissions_super_authority: resa, default_protocol_fee_rate: rate },
    )
}
pub fn ix_init_fee_tier(cfg: Pubkey, fa: Pubkey, funder: Pubkey, ts: u16, rate: u16) -> Instruction {
    mk(
        wa::InitializeFeeTier { config: cfg, fee_tier: W::fee_tier_addr(&cfg, ts), funder, fee_authority: fa, system_program: system_program::ID },
        wi::InitializeFeeTier { tick_spacing: ts, default_fee_rate: rate },
    )
}
pub fn ix_set_default_fee_rate(cfg: Pubkey, fee_tier: Pubkey, fa: Pubkey, rate: u16) -> Instruction {
    mk(wa::SetDefaultFeeRate { whirlpools_config: cfg, fee_tier, fee_authority: fa }, wi::SetDefaultFeeRate { default_fee_rate: rate })
}
pub fn ix_set_default_protocol_fee_rate(cfg: Pubkey, fa: Pubkey, rate: u16) -> Instruction {
    mk(wa::SetDefaultProtocolFeeRate { whirlpools_config: cfg, fee_authority: fa }, wi::SetDefaultProtocolFeeRate { default_protocol_fee_rate: rate })
}
pub fn ix_set_fee_authority(cfg: Pubkey, fa: Pubkey, new: Pubkey) -> Instruction {
    mk(wa::SetFeeAuthority { whirlpools_config: cfg, fee_authority: fa, new_fee_authority: new }, wi::SetFeeAuthority {})
}
pub fn ix_set_cpfa(cfg: Pubkey, cpfa: Pubkey, new: Pubkey) -> Instruction {
    mk(
        wa::SetCollectProtocolFeesAuthority { whirlpools_config: cfg, collect_protocol_fees_authority: cpfa, new_collect_protocol_fees_authority: new },
        wi::SetCollectProtocolFeesAuthority {},
    )
}
pub fn ix_set_resa(cfg: Pubkey, resa: Pubkey, new: Pubkey) -> Instruction {
    mk(
        wa::SetRewardEmissionsSuperAuthority { whirlpools_config: cfg, reward_emissions_super_authority: resa, new_reward_emissions_super_authority: new },
        wi::SetRewardEmissionsSuperAuthority {},
    )
}
pub fn ix_set_reward_authority(pool: Pubkey, ra: Pubkey, new: Pubkey, index: u8) -> Instruction {
    mk(wa::SetRewardAuthority { whirlpool: pool, reward_authority: ra, new_reward_authority: new }, wi::SetRewardAuthority { reward_index: index })
}
pub fn ix_set_reward_authority_by_super(cfg: Pubkey, pool: Pubkey, resa: Pubkey, new: Pubkey, index: u8) -> Instruction {
    mk(
        wa::SetRewardAuthorityBySuperAuthority { whirlpools_config: cfg, whirlpool: pool, reward_emissions_super_authority: resa, new_reward_authority: new },
        wi::SetRewardAuthorityBySuperAuthority { reward_index: index },
    )
}
#[derive(Clone, Copy, Debug)]
pub struct AfConsts {
    pub filter_period: u16,
    pub decay_period: u16,
    pub reduction_factor: u16,
    pub adaptive_fee_control_factor: u32,
    pub max_volatility_accumulator: u32,
    pub tick_group_size: u16,
    pub major_swap_threshold_ticks: u16,
}
pub const AFC: AfConsts = AfConsts {
    filter_period: 30,
    decay_period: 600,
    reduction_factor: 500,
    adaptive_fee_control_factor: 4_000,
    max_volatility_accumulator: 350_000,
    tick_group_size: 64,
    major_swap_threshold_ticks: 64,
};
pub fn ix_init_af_tier(cfg: Pubkey, fa: Pubkey, funder: Pubkey, index: u16, ts: u16, ipa: Pubkey, dfa: Pubkey, base: u16) -> Instruction {
    mk(
        wa::InitializeAdaptiveFeeTier {
            whirlpools_config: cfg,
            adaptive_fee_tier: W::fee_tier_addr(&cfg, index),
            funder,
            fee_authority: fa,
            system_program: system_program::ID,
        },
        wi::InitializeAdaptiveFeeTier {
            fee_tier_index: index,
            tick_spacing: ts,
            initialize_pool_authority: ipa,
            delegated_fee_authority: dfa,
            default_base_fee_rate: base,
            filter_period: AFC.filter_period,
            decay_period: AFC.decay_period,
            reduction_factor: AFC.reduction_factor,
            adaptive_fee_control_factor: AFC.adaptive_fee_control_factor,
            max_volatility_accumulator: AFC.max_volatility_accumulator,
            tick_group_size: AFC.tick_group_size,
            major_swap_threshold_ticks: AFC.major_swap_threshold_ticks,
        },
    )
}
pub fn ix_set_default_base_fee_rate(cfg: Pubkey, tier: Pubkey, fa: Pubkey, rate: u16) -> Instruction {
    mk(wa::SetDefaultBaseFeeRate { whirlpools_config: cfg, adaptive_fee_tier: tier, fee_authority: fa }, wi::SetDefaultBaseFeeRate { default_base_fee_rate: rate })
}
pub fn ix_set_dfa(cfg: Pubkey, tier: Pubkey, fa: Pubkey, new: Pubkey) -> Instruction {
    mk(
        wa::SetDelegatedFeeAuthority { whirlpools_config: cfg, adaptive_fee_tier: tier, fee_authority: fa, new_delegated_fee_authority: new },
        wi::SetDelegatedFeeAuthority {},
    )
}
pub fn ix_set_ipa(cfg: Pubkey, tier: Pubkey, fa: Pubkey, new: Pubkey) -> Instruction {
    mk(
        wa::SetInitializePoolAuthority { whirlpools_config: cfg, adaptive_fee_tier: tier, fee_authority: fa, new_initialize_pool_authority: new },
        wi::SetInitializePoolAuthority {},
    )
}
pub fn ix_set_preset_af(cfg: Pubkey, tier: Pubkey, fa: Pubkey) -> Instruction {
    mk(
        wa::SetPresetAdaptiveFeeConstants { whirlpools_config: cfg, adaptive_fee_tier: tier, fee_authority: fa },
        wi::SetPresetAdaptiveFeeConstants {
            filter_period: 31,
            decay_period: 601,
            reduction_factor: 501,
            adaptive_fee_control_factor: 4_001,
            max_volatility_accumulator: 350_001,
            tick_group_size: 32,
            major_swap_threshold_ticks: 65,
        },
    )
}
pub fn af_pool_ref(l: &Ledger, cfg: &Pubkey, label: &str, mint_a: Pubkey, mint_b: Pubkey, index: u16) -> PoolRef {
    W::pool_ref(l, cfg, label, mint_a, mint_b, TS, index)
}
pub fn ix_init_af_pool(p: &PoolRef, funder: Pubkey, ipa: Pubkey) -> Instruction {
    mk(
        wa::InitializePoolWithAdaptiveFee {
            whirlpools_config: p.cfg,
            token_mint_a: p.mint_a,
            token_mint_b: p.mint_b,
            token_badge_a: W::token_badge_addr(&p.cfg, &p.mint_a),
            token_badge_b: W::token_badge_addr(&p.cfg, &p.mint_b),
            funder,
            initialize_pool_authority: ipa,
            whirlpool: p.addr,
            oracle: p.oracle,
            token_vault_a: p.vault_a,
            token_vault_b: p.vault_b,
            adaptive_fee_tier: W::fee_tier_addr(&p.cfg, p.fee_tier_index),
            token_program_a: p.prog_a,
            token_program_b: p.prog_b,
            system_program: system_program::ID,
            rent: sysvar::rent::ID,
        },
        wi::InitializePoolWithAdaptiveFee { initial_sqrt_price: P0, trade_enable_timestamp: None },
    )
}
pub fn ix_set_fee_rate_by_dfa(pool: Pubkey, tier: Pubkey, dfa: Pubkey, rate: u16) -> Instruction {
    mk(
        wa::SetFeeRateByDelegatedFeeAuthority { whirlpool: pool, adaptive_fee_tier: tier, delegated_fee_authority: dfa },
        wi::SetFeeRateByDelegatedFeeAuthority { fee_rate: rate },
    )
}
pub fn ix_set_af_constants(pool: &PoolRef, fa: Pubkey) -> Instruction {
    mk(
        wa::SetAdaptiveFeeConstants { whirlpool: pool.addr, whirlpools_config: pool.cfg, oracle: pool.oracle, fee_authority: fa },
        wi::SetAdaptiveFeeConstants {
            filter_period: Some(33),
            decay_period: None,
            reduction_factor: Some(777),
            adaptive_fee_control_factor: None,
            max_volatility_accumulator: None,
            tick_group_size: None,
            major_swap_threshold_ticks: None,
        },
    )
}
pub fn ix_set_feature_flag(cfg: Pubkey, admin: Pubkey, on: bool) -> Instruction {
    mk(
        wa::SetConfigFeatureFlag { whirlpools_config: cfg, authority: admin },
        wi::SetConfigFeatureFlag { feature_flag: whirlpool::state::ConfigFeatureFlag::TokenBadge(on) },
    )
}
pub fn ix_init_ext(cfg: Pubkey, fa: Pubkey, funder: Pubkey) -> Instruction {
    mk(
        wa::InitializeConfigExtension { config: cfg, config_extension: ext_addr(&cfg), funder, fee_authority: fa, system_program: system_program::ID },
        wi::InitializeConfigExtension {},
    )
}
pub fn ix_set_cea(cfg: Pubkey, cea: Pubkey, new: Pubkey) -> Instruction {
    mk(
        wa::SetConfigExtensionAuthority {
            whirlpools_config: cfg,
            whirlpools_config_extension: ext_addr(&cfg),
            config_extension_authority: cea,
            new_config_extension_authority: new,
        },
        wi::SetConfigExtensionAuthority {},
    )
}
pub fn ix_set_tba(cfg: Pubkey, cea: Pubkey, new: Pubkey) -> Instruction {
    mk(
        wa::SetTokenBadgeAuthority { whirlpools_config: cfg, whirlpools_config_extension: ext_addr(&cfg), config_extension_authority: cea, new_token_badge_authority: new },
        wi::SetTokenBadgeAuthority {},
    )
}
pub fn ix_init_badge(cfg: Pubkey, tba: Pubkey, mint: Pubkey, funder: Pubkey) -> Instruction {
    mk(
        wa::InitializeTokenBadge {
            whirlpools_config: cfg,
            whirlpools_config_extension: ext_addr(&cfg),
            token_badge_authority: tba,
            token_mint: mint,
            token_badge: W::token_badge_addr(&cfg, &mint),
            funder,
            system_program: system_program::ID,
        },
        wi::InitializeTokenBadge {},
    )
}
pub fn ix_delete_badge(cfg: Pubkey, tba: Pubkey, mint: Pubkey, receiver: Pubkey) -> Instruction {
    mk(
        wa::DeleteTokenBadge {
            whirlpools_config: cfg,
            whirlpools_config_extension: ext_addr(&cfg),
            token_badge_authority: tba,
            token_mint: mint,
            token_badge: W::token_badge_addr(&cfg, &mint),
            receiver,
        },
        wi::DeleteTokenBadge {},
    )
}
pub fn ix_set_badge_attr(cfg: Pubkey, tba: Pubkey, mint: Pubkey) -> Instruction {
    mk(
        wa::SetTokenBadgeAttribute {
            whirlpools_config: cfg,
            whirlpools_config_extension: ext_addr(&cfg),
            token_badge_authority: tba,
            token_mint: mint,
            token_badge: W::token_badge_addr(&cfg, &mint),
        },
        wi::SetTokenBadgeAttribute { attribute: whirlpool::state::TokenBadgeAttribute::RequireNonTransferablePosition(true) },
    )
}
pub fn ix_migrate(pool: Pubkey) -> Instruction {
    mk(wa::MigrateRepurposeRewardAuthoritySpace { whirlpool: pool }, wi::MigrateRepurposeRewardAuthoritySpace {})
}

// ------------------------------------------------------------------------------------------------
// world
// ------------------------------------------------------------------------------------------------
fn actor(l: &mut Ledger, lab: &str, name: &'static str, pool: &PoolRef, reward_mint: Pubkey) -> Actor {
    let w = W::create_wallet(l, &format!("{lab}/{name}"), pool, 1 << 50, 1 << 50);
    let r = key(&format!("{lab}/{name}/reward_acct"));
    W::create_token_account(l, r, reward_mint, w.owner, 0);
    Actor { name, key: w.owner, a: w.acct_a, b: w.acct_b, r }
}

const LIQ: u128 = 1_000_000_000;

pub fn build(flavor: Flavor) -> World {
    let lab = format!("c04-{}", flavor.name());
    let spec = StdSpec {
        label: lab.clone(),
        tick_spacing: TS,
        fee_rate: 3000,
        protocol_fee_rate: 300,
        sqrt_price: P0,
        arrays: vec![(-1, W::Enc::Fixed), (0, W::Enc::Dynamic)],
        positions: vec![],
        t22_a: if flavor == Flavor::T22 { Some(vec![T22Ext::TransferFee { bps: 100, max: 1_000 }]) } else { None },
        t22_b: if flavor == Flavor::T22 { Some(vec![]) } else { None },
    };
    let (mut l, std) = W::build_std(&spec);
    let l = &mut l;
    let cfg = std.cfg.clone();
    let pool = std.pool.clone();
    let funder = std.funder;
    let admin = W::admin();
    let admin1 = whirlpool::auth::admin::ADMINS[1];
    l.put_system(admin1, RICH);

    // reward mints (same token program family as the pool mints)
    let reward_mint = key(&format!("{lab}/reward_mint"));
    let reward_mint2 = key(&format!("{lab}/reward_mint2"));
    for m in [reward_mint, reward_mint2] {
        if flavor == Flavor::T22 {
            W::create_t22_mint(l, m, 6, None, &[]);
        } else {
            W::create_spl_mint(l, m, 6, None);
        }
    }
    let reward_prog = l.get(&reward_mint).unwrap().owner;

    // actors
    let mk_actor_from_wallet = |l: &mut Ledger, name: &'static str, w: &Wallet| {
        let r = key(&format!("{lab}/{name}/reward_acct"));
        W::create_token_account(l, r, reward_mint, w.owner, 0);
        Actor { name, key: w.owner, a: w.acct_a, b: w.acct_b, r }
    };
    let owner = mk_actor_from_wallet(l, "owner", &std.lp);
    let feedest = mk_actor_from_wallet(l, "feedest", &std.fee_dest);
    let attacker = actor(l, &lab, "attacker", &pool, reward_mint);
    let delegate = actor(l, &lab, "delegate", &pool, reward_mint);
    let newowner = actor(l, &lab, "newowner", &pool, reward_mint);

    // role keys
    let rk = |n: &str| key(&format!("{lab}/role/{n}"));
    let (ra, cea, tba, dfa, ipa) = (rk("reward_authority"), rk("config_extension_authority"), rk("token_badge_authority"), rk("delegated_fee_authority"), rk("initialize_pool_authority"));
    for k in [ra, cea, tba, dfa, ipa] {
        l.put_system(k, RICH);
    }

    // config extension, feature flag, distinct extension authorities
    must("set_config_feature_flag", l, &ix_set_feature_flag(cfg.addr, admin, true));
    must("initialize_config_extension", l, &ix_init_ext(cfg.addr, cfg.fee_authority, funder));
    must("set_token_badge_authority", l, &ix_set_tba(cfg.addr, cfg.fee_authority, tba));
    must("set_config_extension_authority", l, &ix_set_cea(cfg.addr, cfg.fee_authority, cea));

    // token badge mints
    let badge_mint_set = key(&format!("{lab}/badge_mint_set"));
    let badge_mint_new = key(&format!("{lab}/badge_mint_new"));
    W::create_t22_mint(l, badge_mint_set, 6, None, &[]);
    W::create_t22_mint(l, badge_mint_new, 6, None, &[]);
    must("initialize_token_badge", l, &ix_init_badge(cfg.addr, tba, badge_mint_set, funder));

    // rewards: distinct reward authority, reward 0 initialised + funded + emitting
    must("set_reward_authority_by_super_authority", l, &ix_set_reward_authority_by_super(cfg.addr, pool.addr, cfg.reward_emissions_super_authority, ra, 0));
    let v2 = flavor == Flavor::T22;
    must("initialize_reward", l, &W::ix_init_reward(&pool, ra, funder, reward_mint, reward_prog, 0, v2));
    let reward_vault = W::reward_vault_key(&pool, 0);
    mint_to(l, &reward_mint, &reward_vault, 1_000_000_000_000);
    must("set_reward_emissions", l, &W::ix_set_reward_emissions(&pool, ra, reward_vault, 0, 1_000u128 << 64, v2));

    // adaptive fee tiers + adaptive pool
    for idx in [AF_INDEX, AF_INDEX_NEW] {
        must("initialize_adaptive_fee_tier", l, &ix_init_af_tier(cfg.addr, cfg.fee_authority, funder, idx, TS, ipa, dfa, 2_000));
    }
    let af_pool = af_pool_ref(l, &cfg.addr, &format!("{lab}/afpool"), pool.mint_a, pool.mint_b, AF_INDEX);
    must("initialize_pool_with_adaptive_fee", l, &ix_init_af_pool(&af_pool, funder, ipa));

    // ---- positions ----
    let mut victim: Vec<VPos> = vec![];
    let open = |l: &mut Ledger, label: String, who: Pubkey, t22: bool| {
        let p = W::pos_ref(&pool, &label, who, LO, HI, t22);
        must("open_position", l, &W::ix_open_position(&p, funder));
        p
    };
    for (nft, t22) in [(Nft::Classic, false), (Nft::Te, true)] {
        for st in [St::Fresh, St::Funded, St::Emptied] {
            let p = open(l, format!("{lab}/v/{}/{}", nft.name(), st.name()), owner.key, t22);
            victim.push(VPos { nft, st, pos: p, bundle: None });
        }
    }
    let p = open(l, format!("{lab}/v/te/locked"), owner.key, true);
    victim.push(VPos { nft: Nft::Te, st: St::Locked, pos: p, bundle: None });

    let victim_bundle = bundle_ref(&format!("{lab}/v/bundle"), owner.key);
    let victim_bundle_empty = bundle_ref(&format!("{lab}/v/bundle_empty"), owner.key);
    let attacker_bundle = bundle_ref(&format!("{lab}/a/bundle"), attacker.key);
    let attacker_bundle_empty = bundle_ref(&format!("{lab}/a/bundle_empty"), attacker.key);
    for b in [&victim_bundle, &victim_bundle_empty, &attacker_bundle, &attacker_bundle_empty] {
        must("initialize_position_bundle", l, &ix_init_bundle(b, funder));
    }
    for (i, st) in [St::Fresh, St::Funded, St::Emptied].into_iter().enumerate() {
        must("open_bundled_position", l, &ix_open_bundled(&victim_bundle, i as u16, &pool, owner.key, funder, LO, HI));
        victim.push(VPos { nft: Nft::Bundle, st, pos: bundled_pos_ref(&victim_bundle, i as u16, &pool, LO, HI), bundle: Some((victim_bundle.clone(), i as u16)) });
    }

    let mut attacker_pos = BTreeMap::new();
    for (nft, t22) in [(Nft::Classic, false), (Nft::Te, true)] {
        let p = open(l, format!("{lab}/a/{}", nft.name()), attacker.key, t22);
        attacker_pos.insert(nft, VPos { nft, st: St::Funded, pos: p, bundle: None });
    }
    must("open_bundled_position", l, &ix_open_bundled(&attacker_bundle, 0, &pool, attacker.key, funder, LO, HI));
    attacker_pos.insert(Nft::Bundle, VPos { nft: Nft::Bundle, st: St::Funded, pos: bundled_pos_ref(&attacker_bundle, 0, &pool, LO, HI), bundle: Some((attacker_bundle.clone(), 0)) });
    // two more bundled positions of the attacker, open and never funded, at the indexes of the victim's funded / emptied ones
    for i in [1u16, 2] {
        must("open_bundled_position", l, &ix_open_bundled(&attacker_bundle, i, &pool, attacker.key, funder, LO, HI));
    }
    let attacker_locked = open(l, format!("{lab}/a/te/locked"), attacker.key, true);

    // ---- fund ----
    let fund = |l: &mut Ledger, p: &PosRef, a: &Actor| {
        must("increase_liquidity_v2", l, &W::ix_increase(p, &a.wallet(), LIQ, u64::MAX, u64::MAX, true));
    };
    for v in victim.iter().filter(|v| v.st != St::Fresh) {
        fund(l, &v.pos, &owner);
    }
    for v in attacker_pos.values() {
        fund(l, &v.pos, &attacker);
    }
    fund(l, &attacker_locked, &attacker);

    // ---- fees (both sides), protocol fees, rewards ----
    for (a_to_b, amount) in [(true, 3_000_000u64), (false, 9_000_000), (true, 5_000_000)] {
        let st = pool.state(l);
        let args = W::SwapArgs { amount, other_amount_threshold: 0, sqrt_price_limit: 0, amount_specified_is_input: true, a_to_b };
        let tas = W::swap_tick_arrays(&pool, st.tick_current_index, a_to_b);
        must("swap_v2", l, &W::ix_swap(&pool, &std.trader, args, tas, true, &[]));
    }
    l.unix_ts += 1_000;

    // ---- emptied positions ----
    for v in victim.iter().filter(|v| v.st == St::Emptied) {
        must("decrease_liquidity_v2", l, &W::ix_decrease(&v.pos, &owner.wallet(), LIQ, 0, 0, true));
        must("collect_fees_v2", l, &W::ix_collect_fees(&v.pos, &owner.wallet(), true));
        must("collect_reward_v2", l, &W::ix_collect_reward(&v.pos, owner.key, owner.r, reward_mint, reward_prog, reward_vault, 0, true));
    }
    // ---- locked positions ----
    for (p, who) in [(&victim.iter().find(|v| v.st == St::Locked).unwrap().pos, owner.key), (&attacker_locked, attacker.key)] {
        must("lock_position", l, &ix_lock(p, who, funder));
    }

    // ---- attacker-controlled twin universe ----
    let cfg2 = key(&format!("{lab}/twin/config"));
    must("initialize_config(twin)", l, &ix_init_config(cfg2, admin, attacker.key, attacker.key, attacker.key, 300));
    must("set_config_feature_flag(twin)", l, &ix_set_feature_flag(cfg2, admin, true));
    must("initialize_config_extension(twin)", l, &ix_init_ext(cfg2, attacker.key, funder));
    must("initialize_fee_tier(twin)", l, &ix_init_fee_tier(cfg2, attacker.key, funder, TS, 3000));
    for idx in [AF_INDEX, AF_INDEX_NEW] {
        must("initialize_adaptive_fee_tier(twin)", l, &ix_init_af_tier(cfg2, attacker.key, funder, idx, TS, attacker.key, attacker.key, 2_000));
    }
    must("initialize_token_badge(twin)", l, &ix_init_badge(cfg2, attacker.key, badge_mint_set, funder));
    let pool2 = W::pool_ref(l, &cfg2, &format!("{lab}/twin/pool"), pool.mint_a, pool.mint_b, TS, TS);
    must("initialize_pool_v2(twin)", l, &W::ix_init_pool_v2(&pool2, funder, P0));
    let af_pool2 = af_pool_ref(l, &cfg2, &format!("{lab}/twin/afpool"), pool.mint_a, pool.mint_b, AF_INDEX);
    must("initialize_pool_with_adaptive_fee(twin)", l, &ix_init_af_pool(&af_pool2, funder, attacker.key));

    // config without an extension, same authorities as the victim config
    let cfg3 = key(&format!("{lab}/cfg3"));
    must("initialize_config(cfg3)", l, &ix_init_config(cfg3, admin, cfg.fee_authority, cfg.collect_protocol_fees_authority, cfg.reward_emissions_super_authority, 300));

    let uni = |c: &Pubkey, pool: &PoolRef, af_pool: &PoolRef| Universe {
        cfg: *c,
        ext: ext_addr(c),
        fee_tier: W::fee_tier_addr(c, TS),
        af_tier: W::fee_tier_addr(c, AF_INDEX),
        af_tier_new: W::fee_tier_addr(c, AF_INDEX_NEW),
        pool: pool.clone(),
        af_pool: af_pool.clone(),
        badge_set: W::token_badge_addr(c, &badge_mint_set),
        badge_new: W::token_badge_addr(c, &badge_mint_new),
        badge_pool_a: W::token_badge_addr(c, &pool.mint_a),
        badge_pool_b: W::token_badge_addr(c, &pool.mint_b),
    };
    let u1 = uni(&cfg.addr, &pool, &af_pool);
    let u2 = uni(&cfg2, &pool2, &af_pool2);
    let mut twin = BTreeMap::new();
    for (a, b) in [
        (u1.cfg, u2.cfg),
        (u1.ext, u2.ext),
        (u1.fee_tier, u2.fee_tier),
        (u1.af_tier, u2.af_tier),
        (u1.af_tier_new, u2.af_tier_new),
        (u1.pool.addr, u2.pool.addr),
        (u1.af_pool.addr, u2.af_pool.addr),
        (u1.badge_set, u2.badge_set),
        (u1.badge_new, u2.badge_new),
        (u1.badge_pool_a, u2.badge_pool_a),
        (u1.badge_pool_b, u2.badge_pool_b),
    ] {
        twin.insert(a, b);
    }

    let roles: Vec<(&'static str, Pubkey)> = vec![
        ("fee_authority", cfg.fee_authority),
        ("collect_protocol_fees_authority", cfg.collect_protocol_fees_authority),
        ("reward_emissions_super_authority", cfg.reward_emissions_super_authority),
        ("reward_authority", ra),
        ("config_extension_authority", cea),
        ("token_badge_authority", tba),
        ("delegated_fee_authority", dfa),
        ("initialize_pool_authority", ipa),
        ("admin0", admin),
        ("admin1", admin1),
        ("funder", funder),
        ("position_owner", owner.key),
        ("other", attacker.key),
    ];

    World {
        flavor,
        l: l.clone(),
        std,
        cfg,
        funder,
        owner,
        attacker,
        delegate,
        newowner,
        feedest,
        reward_mint,
        reward_prog,
        reward_vault,
        reward_mint2,
        victim,
        attacker_pos,
        attacker_locked,
        victim_bundle,
        victim_bundle_empty,
        attacker_bundle,
        attacker_bundle_empty,
        roles,
        reward_authority: ra,
        cea,
        tba,
        dfa,
        ipa,
        badge_mint_set,
        badge_mint_new,
        u1,
        u2,
        cfg3,
        twin,
    }
}
