//! C10 — a swap crosses exactly the initialized ticks in its path, however packaged (DESIGN §3 C10).
//!
//! Engine A, differential: every swap below is the REAL `swap` / `swap_v2` instruction run through `svm::process`.
//!
//! * Layouts: for each world (ts = 64 around tick 0, ts = 1, ts = 3 on the negative side, ts = 64 at the MIN bound, ts = 64 at
//!   the MAX bound, ts = 5000 whose last usable tick is an array start, ts = 32768 full-range-only) every subset (size <= bound) of a 15-slot candidate set {first, second, middle, last-1, last usable slot}
//!   x 3 consecutive tick arrays is turned into initialized ticks through real `open_position` + `increase_liquidity`
//!   (chained ranges with different liquidity => every tick has a distinct non-zero net of mixed sign), optionally with a
//!   zero-liquidity gap between two neighbouring ticks.
//! * Start states (reached with real swaps): price between ticks, exactly on the first / second initialized tick in the trade
//!   direction in the normal state (tick_current = t) and in the shifted state (tick_current = t-1, price = p(t)); both directions.
//! * Swap sizes: small amount; limit exactly at the next initialized tick; one price unit past it (exact-in and exact-out);
//!   limit at the far edge of what three arrays can reach; one price unit beyond (must fail); no limit.
//! * Packagings of the same abstract (layout, start, swap): each layout array fixed | dynamic | (if it holds no initialized
//!   tick) not created but named by its PDA; all 6 account orders; duplicates; v2 supplemental arrays incl. irrelevant ones;
//!   initialized arrays of a twin pool (must be rejected), un-created PDAs of the twin pool and wrong PDAs of the same pool
//!   (must not stand in for a needed array).
//!
//! Oracles: (a) reference traversal — the H2 crossing record of every successful swap equals the initialized ticks (harness's
//! own decoding of all tick arrays before the swap) between start and end, in price order, once each, with the stored net;
//! liquidity chains by -/+ net; every swap step runs on the liquidity given by the positions covering that price segment and no
//! initialized tick lies strictly inside a step; end liquidity = sum of the positions covering the end tick; ticks not crossed
//! are bit-for-bit unchanged (decoded), crossed ticks keep initialized/net/gross. (b) all packagings with the same set of
//! usable arrays give the identical result code, token amounts, pool fields and decoded tick contents. (c) when the usable
//! arrays (longest prefix of the required start indexes that is supplied) do not reach the end price the swap fails with
//! TickArraySequenceInvalidIndex (no usable first array: InvalidTickArraySequence), never succeeds with a skipped tick.
//!
//! "Between" (derived from swap_manager.rs / tick_array.rs and fixed here): an a->b swap from (p0, tick0) to p1 crosses the
//! initialized ticks t with t <= tick0 and p(t) >= p1 (descending); a b->a swap those with t > tick0 and p(t) <= p1
//! (ascending). Hence a->b from the normal state on an initialized tick (tick0 = t, p0 = p(t)) crosses t at zero distance,
//! from the shifted state (tick0 = t-1) it does not; b->a mirrored; a swap that ends exactly on p(t) has crossed t.
//! Foreign arrays: sparse_swap.rs loads every supplied account that is not (system-owned and empty); an initialized array of
//! another pool therefore fails the whole swap with DifferentWhirlpoolTickArrayAccount even when it is not needed, while an
//! un-created address of another pool is simply ignored (it is not an array); it never serves as a zeroed proxy because the
//! proxy is only granted to the PDA derived from this pool and the required start index.
//!
//! Sequence part (`c10_seq.rs`, run first): the parts above judge ONE swap from a state reached by limit-terminated set-up
//! swaps. "Each exactly once, and of no other tick" is also a statement about histories (a tick crossed downwards must not be
//! applied again until the price has come back up through it), and every state an earlier swap can leave behind is a start
//! state. The sequence part explores all swap sequences up to a depth bound over a state-relative alphabet (limits exactly on /
//! one past the next initialized tick, on an uninitialized tick, on the array edge; dust 1..3 in, 1 out — incl. swaps whose
//! only step moves no price; amounts that run out exactly on the next initialized tick, -1, +1, exact-out too; half / double)
//! from roots incl. "stopped exactly on T" in both directions, against an abstract model that carries the set of ticks at or
//! below the position through the history, in lock-step over two array encodings with rotating account packagings.
#![allow(dead_code)]
use crate::decode;
use crate::refmodel::{MAX_SQRT_PRICE, MAX_TICK, MIN_SQRT_PRICE, MIN_TICK};
use crate::report::{Ctx, Report};
use crate::world::{self, Enc, PoolRef, SwapArgs, Wallet};
use rayon::prelude::*;
use serde_json::{json, Value};
use solana_program::pubkey::Pubkey;
use std::collections::BTreeMap;
use std::sync::atomic::{AtomicBool, Ordering};
use svm::{keys::key, Ledger};
use whirlpool::math::sqrt_price_from_tick_index as p_of;
use whirlpool::verif_hooks::{SwapTrace, TickCrossRecord};

const E_INVALID_SEQ: u32 = 6023; // InvalidTickArraySequence
const E_SEQ_INDEX: u32 = 6038; // TickArraySequenceInvalidIndex
const E_FOREIGN: u32 = 6056; // DifferentWhirlpoolTickArrayAccount
const E_PARTIAL: u32 = 6057; // PartialFillError
const BIG: u64 = 1 << 60;

#[path = "c10_seq.rs"]
mod seq;

// ------------------------------------------------------------------------------------------------
// worlds
// ------------------------------------------------------------------------------------------------
#[derive(Clone)]
struct WSpec {
    name: &'static str,
    ts: u16,
    /// start indexes of the layout arrays, ascending
    arrays: Vec<i32>,
    /// candidate slots per layout array
    slots: Vec<Vec<i32>>,
    far_lo: Option<i32>,
    far_hi: Option<i32>,
    /// other arrays of the pool: (start, Some(enc) = created / None = only ever named by PDA)
    extras: Vec<(i32, Option<Enc>)>,
    base_liq: u128,
    /// (exact_in, amount) of the small swap per direction [a->b, b->a]
    small: [(bool, u64); 2],
    /// full-range-only pool: the single possible layout
    forced: Option<Vec<i32>>,
    /// max subset size (quick, thorough)
    max_subset: (usize, usize),
    /// max subset size for which gap variants are added (quick, thorough)
    gap_subset: (usize, usize),
    top_price: u128,
    bottom_price: u128,
}

fn mid(a: u128, b: u128) -> u128 {
    a / 2 + b / 2
}

fn specs() -> Vec<WSpec> {
    let std_slots = vec![vec![0, 1, 44, 86, 87]; 3];
    let mut v = vec![];
    {
        let (ts, n) = (64i32, 5632i32);
        let a0 = -n;
        v.push(WSpec {
            name: "ts64",
            ts: 64,
            arrays: vec![a0, a0 + n, a0 + 2 * n],
            slots: std_slots.clone(),
            far_lo: Some(a0 - 3 * n + 10 * ts),
            far_hi: Some(a0 + 5 * n + 10 * ts),
            extras: vec![(a0 - 3 * n, Some(Enc::Fixed)), (a0 - 2 * n, Some(Enc::Dynamic)), (a0 - n, None), (a0 + 3 * n, None), (a0 + 4 * n, Some(Enc::Fixed)), (a0 + 5 * n, Some(Enc::Dynamic))],
            base_liq: 1_000_000_000,
            small: [(true, 1000), (true, 1000)],
            forced: None,
            max_subset: (2, 4),
            gap_subset: (2, 2),
            top_price: mid(p_of(a0 + 2 * n + 87 * ts), p_of(a0 + 2 * n + 88 * ts)),
            bottom_price: mid(p_of(a0 - ts), p_of(a0)),
        });
    }
    {
        let (ts, n) = (1i32, 88i32);
        let a0 = -n;
        v.push(WSpec {
            name: "ts1",
            ts: 1,
            arrays: vec![a0, a0 + n, a0 + 2 * n],
            slots: std_slots.clone(),
            far_lo: Some(a0 - 3 * n + 10 * ts),
            far_hi: Some(a0 + 5 * n + 10 * ts),
            extras: vec![(a0 - 3 * n, Some(Enc::Dynamic)), (a0 - 2 * n, None), (a0 - n, Some(Enc::Fixed)), (a0 + 3 * n, Some(Enc::Dynamic)), (a0 + 4 * n, None), (a0 + 5 * n, Some(Enc::Fixed))],
            base_liq: 10_000_000_000,
            small: [(true, 1000), (true, 1000)],
            forced: None,
            max_subset: (1, 2),
            gap_subset: (0, 2),
            top_price: mid(p_of(a0 + 2 * n + 87 * ts), p_of(a0 + 2 * n + 88 * ts)),
            bottom_price: mid(p_of(a0 - ts), p_of(a0)),
        });
    }
    {
        // an odd spacing, all three arrays on the negative side (floor arithmetic of offsets)
        let (ts, n) = (3i32, 264i32);
        let a0 = -3 * n;
        v.push(WSpec {
            name: "ts3neg",
            ts: 3,
            arrays: vec![a0, a0 + n, a0 + 2 * n],
            slots: std_slots.clone(),
            far_lo: Some(a0 - 3 * n + 10 * ts),
            far_hi: Some(a0 + 5 * n + 10 * ts),
            extras: vec![(a0 - 3 * n, Some(Enc::Dynamic)), (a0 - 2 * n, Some(Enc::Fixed)), (a0 - n, None), (a0 + 3 * n, None), (a0 + 4 * n, Some(Enc::Dynamic)), (a0 + 5 * n, Some(Enc::Fixed))],
            base_liq: 1_000_000_000,
            small: [(true, 1000), (true, 1000)],
            forced: None,
            max_subset: (1, 2),
            gap_subset: (0, 0),
            top_price: mid(p_of(a0 + 2 * n + 87 * ts), p_of(a0 + 2 * n + 88 * ts)),
            bottom_price: mid(p_of(a0 - ts), p_of(a0)),
        });
    }
    {
        // the MIN-straddling array [-444928, -439296): usable slots 21..=87
        let (ts, n) = (64i32, 5632i32);
        let a0 = -444928;
        v.push(WSpec {
            name: "lo64",
            ts: 64,
            arrays: vec![a0, a0 + n, a0 + 2 * n],
            slots: vec![vec![21, 22, 54, 86, 87], vec![0, 1, 44, 86, 87], vec![0, 1, 44, 86, 87]],
            far_lo: None,
            far_hi: Some(a0 + 5 * n + 10 * ts),
            extras: vec![(a0 + 3 * n, None), (a0 + 4 * n, Some(Enc::Fixed)), (a0 + 5 * n, Some(Enc::Dynamic))],
            base_liq: 10_000,
            // token B is almost worthless down here: a small exact-in b->a would run through everything
            small: [(true, 1000), (false, 1000)],
            forced: None,
            max_subset: (1, 2),
            gap_subset: (0, 0),
            top_price: mid(p_of(a0 + 2 * n + 87 * ts), p_of(a0 + 2 * n + 88 * ts)),
            bottom_price: mid(MIN_SQRT_PRICE, p_of(a0 + 21 * ts)),
        });
    }
    {
        // the last array before MAX [439296, 444928): usable slots 0..=67
        let (ts, n) = (64i32, 5632i32);
        let a0 = 439296 - 2 * n;
        v.push(WSpec {
            name: "hi64",
            ts: 64,
            arrays: vec![a0, a0 + n, a0 + 2 * n],
            slots: vec![vec![0, 1, 44, 86, 87], vec![0, 1, 44, 86, 87], vec![0, 1, 33, 66, 67]],
            far_lo: Some(a0 - 3 * n + 10 * ts),
            far_hi: None,
            extras: vec![(a0 - 3 * n, Some(Enc::Fixed)), (a0 - 2 * n, Some(Enc::Dynamic)), (a0 - n, None)],
            base_liq: 10_000,
            small: [(false, 1000), (true, 1000)],
            forced: None,
            max_subset: (1, 2),
            gap_subset: (0, 0),
            top_price: mid(p_of(a0 + 2 * n + 67 * ts), MAX_SQRT_PRICE),
            bottom_price: mid(p_of(a0 - ts), p_of(a0)),
        });
    }
    {
        // a spacing whose last usable tick (440000) is exactly an array start: the pool has three arrays, the last one with
        // the single usable slot 0, the first one starting exactly on the lowest usable tick
        let (ts, n) = (5000i32, 440000i32);
        v.push(WSpec {
            name: "ts5000",
            ts: 5000,
            arrays: vec![-n, 0, n],
            slots: vec![vec![0, 87], vec![0, 44, 87], vec![0]],
            far_lo: None,
            far_hi: None,
            extras: vec![],
            base_liq: 100_000,
            small: [(true, 1000), (true, 1000)],
            forced: None,
            max_subset: (2, 3),
            gap_subset: (0, 0),
            top_price: mid(p_of(n), MAX_SQRT_PRICE),
            bottom_price: mid(MIN_SQRT_PRICE, p_of(-n)),
        });
        let _ = ts;
    }
    {
        // full-range-only pool: two arrays, one usable range
        let n = 88 * 32768;
        v.push(WSpec {
            name: "splash",
            ts: 32768,
            arrays: vec![-n, 0],
            slots: vec![vec![75], vec![13]],
            far_lo: None,
            far_hi: None,
            extras: vec![],
            base_liq: 1_000_000,
            small: [(true, 1000), (true, 1000)],
            forced: Some(vec![-425984, 425984]),
            max_subset: (2, 2),
            gap_subset: (0, 0),
            top_price: mid(p_of(425984), MAX_SQRT_PRICE),
            bottom_price: mid(MIN_SQRT_PRICE, p_of(-425984)),
        });
    }
    v
}

struct World {
    spec: WSpec,
    base: Ledger,
    pool: PoolRef,
    twin: PoolRef,
    lp: Wallet,
    trader: Wallet,
    funder: Pubkey,
    /// ledgers with the layout arrays created per encoding combination (key = enc string, e.g. "FDN")
    variants: BTreeMap<String, Ledger>,
}

type EncV = Vec<Option<Enc>>;

fn enc_name(e: &EncV) -> String {
    e.iter()
        .map(|x| match x {
            Some(Enc::Fixed) => 'F',
            Some(Enc::Dynamic) => 'D',
            None => 'N',
        })
        .collect()
}

fn build_world(spec: &WSpec) -> World {
    let mut l = world::base_ledger();
    let lab = format!("c10-{}", spec.name);
    let cfg = world::init_config(&mut l, &lab, 300);
    let funder = key(&format!("{lab}/funder"));
    l.put_system(funder, world::RICH);
    world::must("init_fee_tier", svm::process(&mut l, &world::ix_init_fee_tier(&cfg, funder, spec.ts, 3000)));
    let mk = |l: &mut Ledger, x: &str, y: &str| {
        let (m1, m2) = (key(&format!("{lab}/{x}")), key(&format!("{lab}/{y}")));
        let (ma, mb) = if m1 < m2 { (m1, m2) } else { (m2, m1) };
        world::create_spl_mint(l, ma, 6, None);
        world::create_spl_mint(l, mb, 6, None);
        (ma, mb)
    };
    let (ma, mb) = mk(&mut l, "mint1", "mint2");
    let pool = world::pool_ref(&l, &cfg.addr, &lab, ma, mb, spec.ts, spec.ts);
    world::must("init_pool", svm::process(&mut l, &world::ix_init_pool_v1(&pool, funder, spec.top_price)));
    let (ta, tb) = mk(&mut l, "mint3", "mint4");
    let twin = world::pool_ref(&l, &cfg.addr, &format!("{lab}/twin"), ta, tb, spec.ts, spec.ts);
    world::must("init_twin", svm::process(&mut l, &world::ix_init_pool_v1(&twin, funder, spec.top_price)));
    for (start, enc) in &spec.extras {
        if let Some(e) = enc {
            world::must("init_extra_array", svm::process(&mut l, &world::ix_init_tick_array(&pool, funder, *start, *e == Enc::Dynamic)));
        }
    }
    let lp = world::create_wallet(&mut l, &format!("{lab}/lp"), &pool, 1 << 62, 1 << 62);
    let trader = world::create_wallet(&mut l, &format!("{lab}/trader"), &pool, 1 << 62, 1 << 62);
    // all encoding combinations of the layout arrays
    let mut variants = BTreeMap::new();
    let k = spec.arrays.len();
    let opts = [Some(Enc::Fixed), Some(Enc::Dynamic), None];
    let total = 3usize.pow(k as u32);
    for c in 0..total {
        let mut e: EncV = vec![];
        let mut x = c;
        for _ in 0..k {
            e.push(opts[x % 3]);
            x /= 3;
        }
        let mut v = l.clone();
        for (i, enc) in e.iter().enumerate() {
            if let Some(enc) = enc {
                world::must("init_layout_array", svm::process(&mut v, &world::ix_init_tick_array(&pool, funder, spec.arrays[i], *enc == Enc::Dynamic)));
            }
        }
        variants.insert(enc_name(&e), v);
    }
    World { spec: spec.clone(), base: l, pool, twin, lp, trader, funder, variants }
}

// ------------------------------------------------------------------------------------------------
// layouts
// ------------------------------------------------------------------------------------------------
#[derive(Clone, Debug, PartialEq, Eq)]
struct Layout {
    ticks: Vec<i32>,
    /// zero-liquidity gap between ticks[g] and ticks[g+1]
    gap: Option<usize>,
}

fn candidates(spec: &WSpec) -> Vec<i32> {
    let mut c = vec![];
    for (i, s) in spec.arrays.iter().enumerate() {
        for slot in &spec.slots[i] {
            c.push(s + slot * spec.ts as i32);
        }
    }
    c
}

fn subsets(c: &[i32], max: usize) -> Vec<Vec<i32>> {
    fn rec(c: &[i32], from: usize, cur: &mut Vec<i32>, max: usize, out: &mut Vec<Vec<i32>>) {
        out.push(cur.clone());
        if cur.len() == max {
            return;
        }
        for i in from..c.len() {
            cur.push(c[i]);
            rec(c, i + 1, cur, max, out);
            cur.pop();
        }
    }
    let mut out = vec![];
    rec(c, 0, &mut vec![], max, &mut out);
    out.sort_by(|a, b| a.len().cmp(&b.len()).then(a.cmp(b)));
    out
}

fn gap_valid(spec: &WSpec, ticks: &[i32], g: usize) -> bool {
    if g + 1 >= ticks.len() {
        return false;
    }
    let lower_side = g > 0 || spec.far_lo.is_some();
    let upper_side = g + 1 < ticks.len() - 1 || spec.far_hi.is_some();
    lower_side && upper_side
}

fn layouts(spec: &WSpec, thorough: bool) -> Vec<Layout> {
    if let Some(f) = &spec.forced {
        return vec![Layout { ticks: f.clone(), gap: None }];
    }
    let max = if thorough { spec.max_subset.1 } else { spec.max_subset.0 };
    let gmax = if thorough { spec.gap_subset.1 } else { spec.gap_subset.0 };
    let mut out = vec![];
    let mut gaps = 0usize;
    for s in subsets(&candidates(spec), max) {
        out.push(Layout { ticks: s.clone(), gap: None });
        if s.len() >= 2 && s.len() <= gmax {
            for g in 0..s.len() - 1 {
                if gap_valid(spec, &s, g) {
                    // quick tier: every 4th gap layout
                    if thorough || gaps % 4 == 0 {
                        out.push(Layout { ticks: s.clone(), gap: Some(g) });
                    }
                    gaps += 1;
                }
            }
        }
    }
    out
}

const LIQ_PATTERN: [u128; 6] = [9, 1, 16, 4, 25, 2];

/// positions (lower, upper, liquidity) realising the layout
fn positions(spec: &WSpec, lay: &Layout) -> Vec<(i32, i32, u128)> {
    let mut chain: Vec<i32> = vec![];
    if let Some(f) = spec.far_lo {
        chain.push(f);
    }
    chain.extend(lay.ticks.iter().copied());
    if let Some(f) = spec.far_hi {
        chain.push(f);
    }
    let mut out = vec![];
    for i in 0..chain.len().saturating_sub(1) {
        if let Some(g) = lay.gap {
            if chain[i] == lay.ticks[g] {
                continue;
            }
        }
        out.push((chain[i], chain[i + 1], LIQ_PATTERN[i % LIQ_PATTERN.len()] * spec.base_liq));
    }
    out
}

fn array_index_of(spec: &WSpec, tick: i32) -> Option<usize> {
    let n = 88 * spec.ts as i32;
    spec.arrays.iter().position(|s| tick >= *s && tick < *s + n)
}

/// encoding variants admissible for a layout (absent only for arrays without an initialized tick); the first is all-fixed
fn enc_variants(spec: &WSpec, lay: &Layout, thorough: bool, salt: usize) -> Vec<EncV> {
    let k = spec.arrays.len();
    let mut empty = vec![true; k];
    for t in &lay.ticks {
        if let Some(i) = array_index_of(spec, *t) {
            empty[i] = false;
        }
    }
    let f = Some(Enc::Fixed);
    let d = Some(Enc::Dynamic);
    let mut out: Vec<EncV> = vec![vec![f; k], vec![d; k]];
    if thorough {
        for c in 0..(1usize << k) {
            let e: EncV = (0..k).map(|i| if c >> i & 1 == 1 { d } else { f }).collect();
            if !out.contains(&e) {
                out.push(e);
            }
        }
        let empties: Vec<usize> = (0..k).filter(|i| empty[*i]).collect();
        for m in 1..(1usize << empties.len()) {
            for par in 0..2 {
                let e: EncV = (0..k)
                    .map(|i| match empties.iter().position(|x| *x == i) {
                        Some(j) if m >> j & 1 == 1 => None,
                        _ => {
                            if (i + par) % 2 == 0 {
                                f
                            } else {
                                d
                            }
                        }
                    })
                    .collect();
                if !out.contains(&e) {
                    out.push(e);
                }
            }
        }
    } else {
        let mixed: EncV = (0..k).map(|i| if (i + salt) % 2 == 0 { d } else { f }).collect();
        if !out.contains(&mixed) {
            out.push(mixed.clone());
        }
        if empty.iter().any(|x| *x) {
            // all empty arrays merely named; the others mixed the other way round
            let e: EncV = (0..k).map(|i| if empty[i] { None } else if (i + salt) % 2 == 0 { f } else { d }).collect();
            if !out.contains(&e) {
                out.push(e);
            }
        }
    }
    out
}

fn build_layout(w: &World, enc: &EncV, pos: &[(i32, i32, u128)]) -> Result<Ledger, String> {
    let mut l = w.variants.get(&enc_name(enc)).ok_or("no such variant")?.clone();
    for (i, (lo, hi, liq)) in pos.iter().enumerate() {
        let p = world::pos_ref(&w.pool, &format!("c10-{}/pos{i}", w.spec.name), w.lp.owner, *lo, *hi, i % 2 == 1);
        let o = svm::process(&mut l, &world::ix_open_position(&p, w.funder));
        if !o.ok() {
            return Err(format!("open_position [{lo},{hi}) failed: {}", o.short()));
        }
        let o = svm::process(&mut l, &world::ix_increase(&p, &w.lp, *liq, u64::MAX, u64::MAX, i % 2 == 0));
        if !o.ok() {
            return Err(format!("increase_liquidity [{lo},{hi}) {liq} failed: {}", o.short()));
        }
    }
    Ok(l)
}

// ------------------------------------------------------------------------------------------------
// abstract state
// ------------------------------------------------------------------------------------------------
#[derive(Clone, Debug, PartialEq, Eq)]
struct Snap {
    pool: decode::Pool,
    /// every slot of every array of the pool whose decoded content is not all-default
    ticks: Vec<(i32, decode::Tick)>,
    /// trader a, trader b, vault a, vault b
    bal: [u64; 4],
}

fn snap(l: &Ledger, w: &World) -> Result<Snap, String> {
    let mut ticks = vec![];
    for (k, a) in l.accts.iter() {
        if a.owner != world::WP || a.data.len() < 8 {
            continue;
        }
        if a.data[..8] != decode::FIXED_TA_DISC && a.data[..8] != decode::DYN_TA_DISC {
            continue;
        }
        let ta = decode::tick_array(&a.data).map_err(|e| format!("tick array {k} does not decode: {e}"))?;
        if ta.whirlpool != w.pool.addr {
            continue;
        }
        if *k != w.pool.tick_array(ta.start_tick_index) {
            return Err(format!("tick array {k} is not at the PDA of its start index {}", ta.start_tick_index));
        }
        for (i, t) in ta.ticks.iter().enumerate() {
            if *t != decode::Tick::default() {
                ticks.push((ta.start_tick_index + i as i32 * w.spec.ts as i32, *t));
            }
        }
    }
    ticks.sort_by_key(|x| x.0);
    Ok(Snap {
        pool: w.pool.state(l),
        ticks,
        bal: [world::balance(l, &w.trader.acct_a), world::balance(l, &w.trader.acct_b), world::balance(l, &w.pool.vault_a), world::balance(l, &w.pool.vault_b)],
    })
}

fn diff_snap(a: &Snap, b: &Snap) -> String {
    if a.pool != b.pool {
        format!("pool fields differ (price {} vs {}, liquidity {} vs {}, tick {} vs {}, fee growth a {} vs {}, b {} vs {})", a.pool.sqrt_price, b.pool.sqrt_price, a.pool.liquidity, b.pool.liquidity, a.pool.tick_current_index, b.pool.tick_current_index, a.pool.fee_growth_global_a, b.pool.fee_growth_global_a, a.pool.fee_growth_global_b, b.pool.fee_growth_global_b)
    } else if a.bal != b.bal {
        format!("token amounts differ: balances {:?} vs {:?}", a.bal, b.bal)
    } else {
        let d = a.ticks.iter().zip(b.ticks.iter()).find(|(x, y)| x != y).map(|(x, _)| x.0);
        format!("decoded tick contents differ (first at tick {d:?}; {} vs {} non-default slots)", a.ticks.len(), b.ticks.len())
    }
}

fn valid_start(s: i32, ts: u16) -> bool {
    let n = 88 * ts as i32;
    s.rem_euclid(n) == 0 && s >= MIN_TICK.div_euclid(n) * n && s <= MAX_TICK
}

/// start indexes of the arrays a swap from tick_current may use, in order (harness's own rule)
fn required(ts: u16, tick_current: i32, a_to_b: bool) -> Vec<i32> {
    let n = 88 * ts as i32;
    let base = if a_to_b { tick_current.div_euclid(n) * n } else { (tick_current + ts as i32).div_euclid(n) * n };
    let d = if a_to_b { -n } else { n };
    (0..3).map(|i| base + i * d).take_while(|s| valid_start(*s, ts)).collect()
}

/// Furthest price a swap can end at when its last usable array starts at `last`. a->b: the price of the array's start
/// tick. b->a: the search hands over to the next array after the array's last slot: if that slot is initialized the
/// swap stops being servable at its price, otherwise the loop runs on to the (unusable) tick start + N - 1.
fn reach(ts: u16, last: i32, a_to_b: bool, init: &[i32]) -> u128 {
    let n = 88 * ts as i32;
    if a_to_b {
        if last <= MIN_TICK {
            MIN_SQRT_PRICE
        } else {
            p_of(last)
        }
    } else if last + n > MAX_TICK {
        MAX_SQRT_PRICE
    } else if init.contains(&(last + 87 * ts as i32)) {
        p_of(last + 87 * ts as i32)
    } else {
        p_of(last + n - 1)
    }
}

fn init_ticks(s: &Snap) -> Vec<i32> {
    s.ticks.iter().filter(|t| t.1.initialized).map(|t| t.0).collect()
}

fn liq_at_tick(pos: &[(i32, i32, u128)], tick: i32) -> u128 {
    pos.iter().filter(|(lo, hi, _)| *lo <= tick && tick < *hi).map(|x| x.2).sum()
}

fn liq_on_segment(pos: &[(i32, i32, u128)], lo: u128, hi: u128) -> u128 {
    pos.iter().filter(|(l, h, _)| p_of(*l) <= lo && hi <= p_of(*h)).map(|x| x.2).sum()
}

// ------------------------------------------------------------------------------------------------
// start states and swap sizes
// ------------------------------------------------------------------------------------------------
#[derive(Clone, Copy, Debug, PartialEq, Eq)]
enum Start {
    Between,
    On1,
    Shift1,
    On2,
    Shift2,
}
const STARTS: [Start; 5] = [Start::Between, Start::On1, Start::Shift1, Start::On2, Start::Shift2];

#[derive(Clone, Copy, Debug, PartialEq, Eq)]
enum Size {
    Small,
    FirstExact,
    FirstPast,
    OutPast,
    Edge,
    Beyond,
    NoLimit,
}
const SIZES: [Size; 7] = [Size::Small, Size::FirstExact, Size::FirstPast, Size::OutPast, Size::Edge, Size::Beyond, Size::NoLimit];

/// real swaps (direction, limit price) that bring the freshly built pool (at top_price) into the start state
fn setup_moves(w: &World, lay: &Layout, a_to_b: bool, start: Start) -> Option<Vec<(bool, u128)>> {
    let mut order = lay.ticks.clone();
    if a_to_b {
        order.reverse();
    }
    let pick = |i: usize| order.get(i).copied();
    match start {
        Start::Between => Some(if a_to_b { vec![] } else { vec![(true, w.spec.bottom_price)] }),
        Start::On1 => pick(0).map(|t| vec![(true, p_of(t) - 1), (false, p_of(t))]),
        Start::Shift1 => pick(0).map(|t| vec![(true, p_of(t))]),
        Start::On2 => pick(1).map(|t| vec![(true, p_of(t) - 1), (false, p_of(t))]),
        Start::Shift2 => pick(1).map(|t| vec![(true, p_of(t))]),
    }
}

fn pad3(r: &[i32]) -> [i32; 3] {
    let g = |i: usize| r[i.min(r.len() - 1)];
    [g(0), g(1), g(2)]
}

/// move the pool price to `target` with real swaps, hopping as far as three arrays reach each time
fn move_to(l: &mut Ledger, w: &World, a_to_b: bool, target: u128) -> Result<u64, String> {
    let mut hops = 0;
    for _ in 0..12 {
        let st = w.pool.state(l);
        if st.sqrt_price == target {
            return Ok(hops);
        }
        if (a_to_b && st.sqrt_price < target) || (!a_to_b && st.sqrt_price > target) {
            return Err(format!("setup: target {target} is behind the current price {}", st.sqrt_price));
        }
        let r = required(w.spec.ts, st.tick_current_index, a_to_b);
        if r.is_empty() {
            return Err("setup: no valid tick array".into());
        }
        let init = snap(l, w).map(|s| init_ticks(&s))?;
        let edge = reach(w.spec.ts, *r.last().unwrap(), a_to_b, &init);
        let lim = if a_to_b { target.max(edge) } else { target.min(edge) };
        let tas = pad3(&r).map(|s| w.pool.tick_array(s));
        let args = SwapArgs { amount: BIG, other_amount_threshold: 0, sqrt_price_limit: lim, amount_specified_is_input: true, a_to_b };
        let o = svm::process(l, &world::ix_swap(&w.pool, &w.trader, args, tas, hops % 2 == 0, &[]));
        let _ = whirlpool::verif_hooks::take_swap_trace();
        if !o.ok() {
            return Err(format!("setup swap a_to_b={a_to_b} limit={lim} from {}: {}", st.sqrt_price, o.short()));
        }
        hops += 1;
    }
    Err("setup: too many hops".into())
}

struct Planned {
    args: SwapArgs,
    /// the price the swap must end at when it succeeds (limit-terminated swaps)
    end_at: Option<u128>,
}

fn plan(w: &World, pre: &Snap, a_to_b: bool, size: Size) -> Option<Planned> {
    let p0 = pre.pool.sqrt_price;
    let r = required(w.spec.ts, pre.pool.tick_current_index, a_to_b);
    if r.is_empty() {
        return None;
    }
    let init: Vec<i32> = init_ticks(pre);
    let edge = reach(w.spec.ts, *r.last().unwrap(), a_to_b, &init);
    let bound = if a_to_b { MIN_SQRT_PRICE } else { MAX_SQRT_PRICE };
    let first = if a_to_b { init.iter().rev().copied().find(|t| p_of(*t) < p0) } else { init.iter().copied().find(|t| p_of(*t) > p0) };
    let step = |p: u128| if a_to_b { p - 1 } else { p + 1 };
    let ahead = |p: u128| if a_to_b { p < p0 && p >= MIN_SQRT_PRICE } else { p > p0 && p <= MAX_SQRT_PRICE };
    let exact_in = |lim: u128| SwapArgs { amount: BIG, other_amount_threshold: 0, sqrt_price_limit: lim, amount_specified_is_input: true, a_to_b };
    match size {
        Size::Small => {
            let (ein, amt) = w.spec.small[if a_to_b { 0 } else { 1 }];
            Some(Planned { args: SwapArgs { amount: amt, other_amount_threshold: if ein { 0 } else { u64::MAX }, sqrt_price_limit: 0, amount_specified_is_input: ein, a_to_b }, end_at: None })
        }
        Size::FirstExact => first.map(p_of).filter(|p| ahead(*p)).map(|p| Planned { args: exact_in(p), end_at: Some(p) }),
        Size::FirstPast => first.map(p_of).filter(|p| *p != bound).map(step).filter(|p| ahead(*p)).map(|p| Planned { args: exact_in(p), end_at: Some(p) }),
        Size::OutPast => first.map(p_of).filter(|p| *p != bound).map(step).filter(|p| ahead(*p)).map(|p| Planned {
            args: SwapArgs { amount: BIG, other_amount_threshold: u64::MAX, sqrt_price_limit: p, amount_specified_is_input: false, a_to_b },
            end_at: Some(p),
        }),
        Size::Edge => Some(edge).filter(|p| ahead(*p)).map(|p| Planned { args: exact_in(p), end_at: Some(p) }),
        Size::Beyond => Some(edge).filter(|p| *p != bound).map(step).filter(|p| ahead(*p)).map(|p| Planned { args: exact_in(p), end_at: Some(p) }),
        Size::NoLimit => Some(Planned { args: exact_in(0), end_at: Some(bound) }),
    }
}

// ------------------------------------------------------------------------------------------------
// packagings
// ------------------------------------------------------------------------------------------------
#[derive(Clone, Copy, Debug, PartialEq, Eq)]
enum S {
    /// i-th required array (clamped to the last one when fewer are valid)
    R(usize),
    /// an existing, irrelevant array of the same pool
    XI,
    /// a valid but un-created, irrelevant PDA of the same pool
    XU,
    /// the array after the last required one
    R4,
    /// the twin pool's array with the start index of R(i), created before the swap
    TC(usize),
    /// the twin pool's PDA for the start index of R(i), never created
    TN(usize),
}
use S::*;

struct Tpl {
    name: &'static str,
    v2: bool,
    st: [S; 3],
    sup: &'static [S],
}
const fn t(name: &'static str, v2: bool, st: [S; 3], sup: &'static [S]) -> Tpl {
    Tpl { name, v2, st, sup }
}

const FULL: &[Tpl] = &[
    t("canon-v1", false, [R(0), R(1), R(2)], &[]),
    t("canon-v2", true, [R(0), R(1), R(2)], &[]),
    t("perm021-v1", false, [R(0), R(2), R(1)], &[]),
    t("perm102-v2", true, [R(1), R(0), R(2)], &[]),
    t("perm120-v1", false, [R(1), R(2), R(0)], &[]),
    t("perm201-v2", true, [R(2), R(0), R(1)], &[]),
    t("perm210-v1", false, [R(2), R(1), R(0)], &[]),
    t("dup000-v1", false, [R(0), R(0), R(0)], &[]),
    t("dup001-v2", true, [R(0), R(0), R(1)], &[]),
    t("dup100-v1", false, [R(1), R(0), R(0)], &[]),
    t("dup011-v2", true, [R(0), R(1), R(1)], &[]),
    t("dup022-v1", false, [R(0), R(2), R(2)], &[]),
    t("dup122-v2", true, [R(1), R(2), R(2)], &[]),
    t("dup211-v1", false, [R(2), R(1), R(1)], &[]),
    t("dup111-v2", true, [R(1), R(1), R(1)], &[]),
    t("sup-000+12", true, [R(0), R(0), R(0)], &[R(1), R(2)]),
    t("sup-xxx+210", true, [XI, XI, XI], &[R(2), R(1), R(0)]),
    t("sup-2u0+1", true, [R(2), XU, R(0)], &[R(1)]),
    t("sup-012+xu4", true, [R(0), R(1), R(2)], &[XI, XU, R4]),
    t("sup-011+100", true, [R(0), R(1), R(1)], &[R(1), R(0), R(0)]),
    t("sup-xux+0", true, [XI, XU, XI], &[R(0)]),
    t("sup-4xu+012", true, [R4, XI, XU], &[R(0), R(1), R(2)]),
    t("twin-init-slot2-v1", false, [R(0), R(1), TC(2)], &[]),
    t("twin-init-supp-v2", true, [R(0), R(1), R(2)], &[TC(0)]),
    t("twin-init-all-v1", false, [TC(0), TC(0), TC(0)], &[]),
    t("twin-named-slot1-v1", false, [R(0), TN(1), R(2)], &[]),
    t("twin-named-slot0-v2", true, [TN(0), R(1), R(2)], &[]),
    t("twin-named-slot2-v2", true, [R(0), R(1), TN(2)], &[]),
    t("twin-named-supp-v2", true, [R(0), R(1), R(2)], &[TN(1)]),
    t("wrong-own-slot1-v1", false, [R(0), XU, R(2)], &[]),
    t("wrong-own-slot2-v2", true, [R(0), R(1), XI], &[]),
];
/// packagings run on the secondary encoding variants
const SHORT: &[&str] = &["canon-v2", "perm210-v1", "sup-xxx+210"];
/// packagings of the all-dynamic variant (thorough) and of the exact-out size
const MED: &[&str] = &[
    "canon-v1", "canon-v2", "perm120-v1", "perm201-v2", "perm210-v1", "dup001-v2", "dup022-v1", "dup122-v2", "sup-000+12", "sup-xxx+210", "sup-2u0+1", "twin-init-slot2-v1", "twin-named-slot1-v1",
    "wrong-own-slot1-v1",
];
/// packagings of the sizes that fail by design whatever the packaging (Beyond, NoLimit)
const FAILSET: &[&str] = &["canon-v1", "canon-v2", "perm210-v1", "dup001-v2", "sup-xxx+210", "sup-012+xu4"];
/// packagings of the quick tier on the all-fixed variant
const QUICK_MAIN: &[&str] = &[
    "canon-v1", "canon-v2", "perm120-v1", "perm210-v1", "dup001-v2", "dup022-v1", "dup122-v2", "sup-000+12", "sup-xxx+210", "sup-012+xu4", "twin-init-slot2-v1", "twin-init-supp-v2",
    "twin-named-slot1-v1", "twin-named-slot2-v2", "wrong-own-slot1-v1",
];

fn named(names: &[&str]) -> Vec<&'static Tpl> {
    FULL.iter().filter(|t| names.contains(&t.name)).collect()
}

/// packagings executed for a swap size on the vi-th encoding variant (variant 0 = all fixed, 1 = all dynamic)
fn pack_list(size: Size, vi: usize, thorough: bool) -> Vec<&'static Tpl> {
    let main = matches!(size, Size::Small | Size::FirstExact | Size::FirstPast | Size::Edge);
    match (vi, main, thorough) {
        (0, true, true) => FULL.iter().collect(),
        (0, true, false) => named(QUICK_MAIN),
        (0, false, true) if size == Size::OutPast => named(MED),
        (0, false, _) => named(FAILSET),
        (1, true, true) => named(MED),
        (_, true, _) => named(SHORT),
        (_, false, _) => named(&["canon-v2"]),
    }
}

struct Pack {
    name: &'static str,
    v2: bool,
    st: [Pubkey; 3],
    sup: Vec<Pubkey>,
    /// twin arrays to create first: (start, dynamic)
    create_twin: Vec<(i32, bool)>,
    /// number of leading required arrays that are supplied (by the PDA of this pool)
    k: usize,
    foreign_init: bool,
}

fn resolve(w: &World, l: &Ledger, tpl: &Tpl, r: &[i32], a_to_b: bool) -> Pack {
    let ts = w.spec.ts;
    let n = 88 * ts as i32;
    let rr = |i: usize| r[i.min(r.len() - 1)];
    // candidates for irrelevant arrays: everything the world knows, outside R and outside the array after R
    let d = if a_to_b { -n } else { n };
    let r4s = r[r.len() - 1] + d;
    let mut known: Vec<i32> = w.spec.arrays.clone();
    known.extend(w.spec.extras.iter().map(|x| x.0));
    known.sort();
    let exists = |s: i32| l.get(&w.pool.tick_array(s)).map(|a| a.owner == world::WP).unwrap_or(false);
    let xi = known.iter().copied().find(|s| !r.contains(s) && *s != r4s && exists(*s));
    let xu = known.iter().copied().chain([r[0] - 7 * d, r[0] - 8 * d]).find(|s| !r.contains(s) && *s != r4s && valid_start(*s, ts) && !exists(*s));
    let mut create_twin = vec![];
    let mut own: Vec<i32> = vec![];
    let mut foreign_init = false;
    let mut key_of = |s: &S| -> Pubkey {
        match s {
            R(i) => {
                own.push(rr(*i));
                w.pool.tick_array(rr(*i))
            }
            XI => w.pool.tick_array(xi.or(xu).unwrap_or(r[0] - 9 * d)),
            XU => w.pool.tick_array(xu.or(xi).unwrap_or(r[0] - 9 * d)),
            R4 => w.pool.tick_array(r4s),
            TC(i) => {
                let s = rr(*i);
                if !create_twin.iter().any(|x: &(i32, bool)| x.0 == s) {
                    create_twin.push((s, *i % 2 == 0));
                }
                foreign_init = true;
                w.twin.tick_array(s)
            }
            TN(i) => w.twin.tick_array(rr(*i)),
        }
    };
    let st = [key_of(&tpl.st[0]), key_of(&tpl.st[1]), key_of(&tpl.st[2])];
    let sup: Vec<Pubkey> = tpl.sup.iter().map(|s| key_of(s)).collect();
    let mut k = 0;
    while k < r.len() && own.contains(&r[k]) {
        k += 1;
    }
    Pack { name: tpl.name, v2: tpl.v2, st, sup, create_twin, k, foreign_init }
}

// ------------------------------------------------------------------------------------------------
// executing and judging one swap
// ------------------------------------------------------------------------------------------------
#[derive(Clone, Debug, PartialEq, Eq)]
struct Res {
    code: Option<String>,
    post: Option<Snap>,
}

struct Exec {
    res: Res,
    trace: Vec<SwapTrace>,
}

fn exec(w: &World, pre: &Ledger, pk: &Pack, args: SwapArgs) -> Result<Exec, String> {
    let mut l = pre.clone();
    for (s, dynamic) in &pk.create_twin {
        let o = svm::process(&mut l, &world::ix_init_tick_array(&w.twin, w.funder, *s, *dynamic));
        if !o.ok() {
            return Err(format!("machinery: creating the twin pool's array {s} failed: {}", o.short()));
        }
    }
    let _ = whirlpool::verif_hooks::take_swap_trace();
    let o = svm::process(&mut l, &world::ix_swap(&w.pool, &w.trader, args, pk.st, pk.v2, &pk.sup));
    let trace = whirlpool::verif_hooks::take_swap_trace();
    if o.ok() {
        Ok(Exec { res: Res { code: None, post: Some(snap(&l, w)?) }, trace })
    } else {
        Ok(Exec { res: Res { code: Some(o.short()), post: None }, trace })
    }
}

fn custom(c: u32) -> String {
    format!("custom:{c}")
}

/// Oracle (a): the crossing record against the reference traversal. Returns the number of crossings compared.
fn validate(_w: &World, pos: &[(i32, i32, u128)], pre: &Snap, post: &Snap, trace: &[SwapTrace], pl: &Planned) -> Result<usize, String> {
    let a_to_b = pl.args.a_to_b;
    let (p0, tc0, l0) = (pre.pool.sqrt_price, pre.pool.tick_current_index, pre.pool.liquidity);
    let (p1, tc1, l1) = (post.pool.sqrt_price, post.pool.tick_current_index, post.pool.liquidity);
    if (a_to_b && p1 > p0) || (!a_to_b && p1 < p0) {
        return Err(format!("price moved against the trade direction: {p0} -> {p1}"));
    }
    if let Some(e) = pl.end_at {
        if p1 != e {
            return Err(format!("swap with ample amount ended at {p1}, not at its limit {e}"));
        }
    }
    if l0 != liq_at_tick(pos, tc0) {
        return Err(format!("start liquidity {l0} != sum of positions covering tick {tc0} = {}", liq_at_tick(pos, tc0)));
    }
    let init: Vec<(i32, decode::Tick)> = pre.ticks.iter().filter(|t| t.1.initialized).cloned().collect();
    let expected: Vec<(i32, decode::Tick)> = if a_to_b {
        init.iter().rev().filter(|t| t.0 <= tc0 && p_of(t.0) >= p1).cloned().collect()
    } else {
        init.iter().filter(|t| t.0 > tc0 && p_of(t.0) <= p1).cloned().collect()
    };
    let crosses: Vec<&TickCrossRecord> = trace
        .iter()
        .filter_map(|t| match t {
            SwapTrace::Cross(c) => Some(c),
            _ => None,
        })
        .collect();
    let got: Vec<i32> = crosses.iter().map(|c| c.tick_index).collect();
    let want: Vec<i32> = expected.iter().map(|t| t.0).collect();
    if got != want {
        return Err(format!("crossed ticks {got:?} != initialized ticks between start (p={p0}, tick={tc0}) and end (p={p1}): {want:?}"));
    }
    let mut cur = l0;
    for (c, e) in crosses.iter().zip(expected.iter()) {
        if c.liquidity_net != e.1.liquidity_net {
            return Err(format!("tick {}: applied net {} != stored net {}", c.tick_index, c.liquidity_net, e.1.liquidity_net));
        }
        if c.a_to_b != a_to_b {
            return Err(format!("tick {}: crossed in the wrong direction", c.tick_index));
        }
        if c.liquidity_before != cur {
            return Err(format!("tick {}: liquidity before crossing {} != running liquidity {cur}", c.tick_index, c.liquidity_before));
        }
        let after = if a_to_b { cur as i128 - e.1.liquidity_net } else { cur as i128 + e.1.liquidity_net };
        if after < 0 || c.liquidity_after != after as u128 {
            return Err(format!("tick {}: liquidity after crossing {} != {cur} -/+ {} = {after}", c.tick_index, c.liquidity_after, e.1.liquidity_net));
        }
        cur = after as u128;
    }
    if l1 != cur {
        return Err(format!("end liquidity {l1} != start -/+ sum of crossed nets = {cur}"));
    }
    if l1 != liq_at_tick(pos, tc1) {
        return Err(format!("end liquidity {l1} != sum of positions covering the end tick {tc1} = {}", liq_at_tick(pos, tc1)));
    }
    // the tick-index form of "between" must agree with the price form
    let by_tick: Vec<i32> = if a_to_b { init.iter().rev().filter(|t| t.0 <= tc0 && t.0 > tc1).map(|t| t.0).collect() } else { init.iter().filter(|t| t.0 > tc0 && t.0 <= tc1).map(|t| t.0).collect() };
    if by_tick != want {
        return Err(format!("end tick index {tc1} inconsistent with the crossed set {want:?} (by tick index: {by_tick:?})"));
    }
    // every step runs on the liquidity of the positions covering its price segment; no initialized tick strictly inside
    for s in trace {
        match s {
            SwapTrace::Begin { sqrt_price, liquidity, .. } => {
                if *sqrt_price != p0 || *liquidity != l0 {
                    return Err("swap did not start from the pool's price and liquidity".into());
                }
            }
            SwapTrace::Step(st) if st.sqrt_price_before != st.next_price => {
                let (lo, hi) = (st.sqrt_price_before.min(st.next_price), st.sqrt_price_before.max(st.next_price));
                if let Some(t) = init.iter().find(|t| p_of(t.0) > lo && p_of(t.0) < hi) {
                    return Err(format!("a swap step ran from {} to {} over the initialized tick {} without stopping", st.sqrt_price_before, st.next_price, t.0));
                }
                let want = liq_on_segment(pos, lo, hi);
                if st.liquidity != want {
                    return Err(format!("swap step {} -> {} used liquidity {} but the positions covering it sum to {want}", st.sqrt_price_before, st.next_price, st.liquidity));
                }
            }
            _ => {}
        }
    }
    // ticks: nothing but the crossed ticks changes; crossed ticks keep flag / net / gross
    let pm: BTreeMap<i32, decode::Tick> = post.ticks.iter().cloned().collect();
    let prem: BTreeMap<i32, decode::Tick> = pre.ticks.iter().cloned().collect();
    for k in pm.keys().chain(prem.keys()) {
        let a = prem.get(k).copied().unwrap_or_default();
        let b = pm.get(k).copied().unwrap_or_default();
        if want.contains(k) {
            if a.initialized != b.initialized || a.liquidity_net != b.liquidity_net || a.liquidity_gross != b.liquidity_gross {
                return Err(format!("crossed tick {k}: initialized/net/gross changed"));
            }
        } else if a != b {
            return Err(format!("tick {k} was not crossed but its stored content changed"));
        }
    }
    Ok(want.len())
}

#[derive(Default, Clone)]
struct Stats {
    layouts: u64,
    gap_layouts: u64,
    states: u64,
    transitions: u64,
    setup_swaps: u64,
    validated: u64,
    crossings: u64,
    packagings: u64,
    abstract_swaps: u64,
    fail_by_design: u64,
    fail_beyond: u64,
    fail_no_first: u64,
    fail_foreign: u64,
    ok_swaps: u64,
    ok_named_only: u64,
    ok_with_dynamic: u64,
    ok_dup: u64,
    ok_supp: u64,
    ok_perm: u64,
    ok_short_prefix: u64,
    zero_distance_cross: u64,
    shifted_no_cross: u64,
    multi_array: u64,
    max_cross: u64,
    ignored_foreign_named: u64,
    variants: u64,
    skipped_layouts: u64,
    edge_slot_cross: u64,
    gap_steps: u64,
    viol: Vec<(String, String, Value)>,
    sample: Option<Value>,
}
impl Stats {
    fn merge(&mut self, o: Stats) {
        macro_rules! add { ($($f:ident),*) => { $( self.$f += o.$f; )* } }
        add!(
            layouts, gap_layouts, states, transitions, setup_swaps, validated, crossings, packagings, abstract_swaps, fail_by_design, fail_beyond, fail_no_first, fail_foreign, ok_swaps,
            ok_named_only, ok_with_dynamic, ok_dup, ok_supp, ok_perm, ok_short_prefix, zero_distance_cross, shifted_no_cross, multi_array, ignored_foreign_named, variants, skipped_layouts,
            edge_slot_cross, gap_steps
        );
        self.max_cross = self.max_cross.max(o.max_cross);
        for v in o.viol {
            if self.viol.len() < 8 {
                self.viol.push(v);
            }
        }
        if self.sample.is_none() {
            self.sample = o.sample;
        }
    }
}

fn case_json(w: &World, lay: &Layout, a_to_b: bool, start: Start) -> Value {
    json!({"world": w.spec.name, "ticks": lay.ticks, "gap": lay.gap, "a_to_b": a_to_b, "start": format!("{start:?}")})
}

/// All swaps of one (layout, direction, start state). `only` restricts nothing here; violations are returned in `st.viol`.
fn run_state(w: &World, lay: &Layout, pos: &[(i32, i32, u128)], built: &[(EncV, Ledger)], a_to_b: bool, start: Start, thorough: bool, st: &mut Stats) {
    let Some(moves) = setup_moves(w, lay, a_to_b, start) else { return };
    let case = case_json(w, lay, a_to_b, start);
    let keyp = format!("{}|{:?}|gap{:?}|{}|{:?}", w.spec.name, lay.ticks, lay.gap, if a_to_b { "a2b" } else { "b2a" }, start);
    let viol = |st: &mut Stats, what: String, detail: String| {
        if st.viol.len() < 8 {
            st.viol.push((format!("{keyp}|{what}"), detail, case.clone()));
        }
    };
    // bring every encoding variant into the start state
    let mut pres: Vec<(EncV, Ledger, Snap)> = vec![];
    for (enc, l0) in built {
        let mut l = l0.clone();
        for (dir, target) in &moves {
            match move_to(&mut l, w, *dir, *target) {
                Ok(h) => st.setup_swaps += h,
                Err(e) => {
                    viol(st, format!("setup|{}", enc_name(enc)), format!("[{}] start state not reachable: {e}", enc_name(enc)));
                    return;
                }
            }
        }
        let s = match snap(&l, w) {
            Ok(s) => s,
            Err(e) => {
                viol(st, format!("snap|{}", enc_name(enc)), e);
                return;
            }
        };
        pres.push((enc.clone(), l, s));
    }
    for (enc, _, s) in &pres[1..] {
        if *s != pres[0].2 {
            viol(st, format!("prestate|{}", enc_name(enc)), format!("[{} {:?} gap={:?} {} {:?}] after identical setup swaps the state with arrays {} differs from the all-fixed one: {}", w.spec.name, lay.ticks, lay.gap, if a_to_b { "a->b" } else { "b->a" }, start, enc_name(enc), diff_snap(&pres[0].2, s)));
            return;
        }
    }
    let pre = pres[0].2.clone();
    // sanity of the start state itself
    let tc0 = pre.pool.tick_current_index;
    st.states += 1;
    let r = required(w.spec.ts, tc0, a_to_b);
    if r.is_empty() {
        return;
    }
    let pre_init = init_ticks(&pre);
    for size in SIZES {
        let Some(pl) = plan(w, &pre, a_to_b, size) else { continue };
        st.abstract_swaps += 1;
        let mut reference: Option<Res> = None; // result with all required arrays usable
        for (vi, (enc, l, _)) in pres.iter().enumerate() {
            let en = enc_name(enc);
            let tpls = pack_list(size, vi, thorough);
            let mut seen: Vec<(bool, [Pubkey; 3], Vec<Pubkey>)> = vec![];
            for tpl in tpls {
                let pk = resolve(w, l, tpl, &r, a_to_b);
                let sig = (pk.v2, pk.st, pk.sup.clone());
                if seen.contains(&sig) {
                    continue;
                }
                seen.push(sig);
                let ex = match exec(w, l, &pk, pl.args) {
                    Ok(e) => e,
                    Err(e) => {
                        viol(st, format!("{size:?}|{en}|{}|machinery", pk.name), e);
                        return;
                    }
                };
                st.transitions += 1;
                st.packagings += 1;
                let tag = format!("{size:?}|{en}|{}", pk.name);
                let ctx = format!("[{} {:?} gap={:?} {} {:?} {:?} arrays={} packaging={} limit={} amount={} exact_in={}]", w.spec.name, lay.ticks, lay.gap, if a_to_b { "a->b" } else { "b->a" }, start, size, en, pk.name, pl.args.sqrt_price_limit, pl.args.amount, pl.args.amount_specified_is_input);
                // ---- expected status
                if pk.foreign_init {
                    if ex.res.code != Some(custom(E_FOREIGN)) {
                        viol(st, tag, format!("{ctx} an initialized tick array of another pool was supplied: expected DifferentWhirlpoolTickArrayAccount, got {:?}", ex.res.code.clone().unwrap_or("ok".into())));
                        return;
                    }
                    st.fail_by_design += 1;
                    st.fail_foreign += 1;
                    continue;
                }
                if pk.k == 0 {
                    if ex.res.code != Some(custom(E_INVALID_SEQ)) {
                        viol(st, tag, format!("{ctx} the first required array was not supplied: expected InvalidTickArraySequence, got {:?}", ex.res.code.clone().unwrap_or("ok".into())));
                        return;
                    }
                    st.fail_by_design += 1;
                    st.fail_no_first += 1;
                    continue;
                }
                let edge_k = reach(w.spec.ts, r[pk.k - 1], a_to_b, &pre_init);
                let within = |p: u128| if a_to_b { p >= edge_k } else { p <= edge_k };
                // every successful swap is validated against the reference traversal, whatever was expected
                if let Some(post) = &ex.res.post {
                    match validate(w, pos, &pres[vi].2, post, &ex.trace, &pl) {
                        Ok(n) => {
                            st.validated += 1;
                            st.crossings += n as u64;
                            st.max_cross = st.max_cross.max(n as u64);
                        }
                        Err(e) => {
                            viol(st, tag, format!("{ctx} {e}"));
                            return;
                        }
                    }
                    if !within(post.pool.sqrt_price) {
                        viol(st, tag, format!("{ctx} swap succeeded and ended at {} although the {} usable array(s) only reach {edge_k}", post.pool.sqrt_price, pk.k));
                        return;
                    }
                }
                // what should have happened. A limit-terminated swap is servable up to and including the edge price (the loop
                // ends on reaching the limit). An amount-terminated swap that ends exactly on the edge price may or may not
                // have needed the next array (it depends on whether the amount ran out on arrival): both outcomes are accepted.
                let at_edge_unknown = |p: u128| pl.end_at.is_none() && p == edge_k;
                let mut either = false;
                let expect_ok: Option<bool> = match (pl.end_at, &reference) {
                    (Some(e), _) => Some(within(e)),
                    (None, Some(rf)) => match &rf.post {
                        Some(p) if at_edge_unknown(p.pool.sqrt_price) => {
                            either = true;
                            None
                        }
                        Some(p) => Some(within(p.pool.sqrt_price)),
                        None => Some(false),
                    },
                    (None, None) => None,
                };
                if either {
                    if let Some(c) = &ex.res.code {
                        if *c != custom(E_SEQ_INDEX) {
                            viol(st, tag, format!("{ctx} arrays end exactly at the swap's end price: expected success or TickArraySequenceInvalidIndex, got {c}"));
                            return;
                        }
                        st.fail_by_design += 1;
                        st.fail_beyond += 1;
                        continue;
                    }
                }
                match (&ex.res.code, expect_ok) {
                    (None, Some(false)) => {
                        viol(st, tag, format!("{ctx} swap succeeded although the usable arrays ({} of {}) do not reach its end", pk.k, r.len()));
                        return;
                    }
                    (Some(c), Some(true)) => {
                        viol(st, tag, format!("{ctx} swap failed with {c} although the usable arrays ({} of {}) reach its end", pk.k, r.len()));
                        return;
                    }
                    (Some(c), Some(false)) => {
                        let small_partial = pl.end_at.is_none() && *c == custom(E_PARTIAL);
                        if *c != custom(E_SEQ_INDEX) && !small_partial {
                            viol(st, tag, format!("{ctx} arrays do not reach far enough: expected TickArraySequenceInvalidIndex, got {c}"));
                            return;
                        }
                        st.fail_by_design += 1;
                        st.fail_beyond += 1;
                    }
                    (Some(c), None) => {
                        // small swap without a reference yet: may only fail when the path to the edge has a zero-liquidity stretch
                        let zero_stretch = {
                            let p0 = pre.pool.sqrt_price;
                            let (lo, hi) = (p0.min(edge_k), p0.max(edge_k));
                            let mut pts: Vec<u128> = pre.ticks.iter().filter(|t| t.1.initialized).map(|t| p_of(t.0)).filter(|p| *p > lo && *p < hi).collect();
                            pts.push(lo);
                            pts.push(hi);
                            pts.sort();
                            pts.windows(2).any(|x| x[0] < x[1] && liq_on_segment(pos, x[0], x[1]) == 0)
                        };
                        if !(zero_stretch && (*c == custom(E_SEQ_INDEX) || *c == custom(E_PARTIAL))) {
                            viol(st, tag, format!("{ctx} small swap failed with {c}"));
                            return;
                        }
                        st.fail_by_design += 1;
                    }
                    (None, _) => {}
                }
                // ---- packaging invariance
                if pk.k == r.len() && reference.is_none() {
                    reference = Some(ex.res.clone());
                    if st.sample.is_none() && ex.res.post.is_some() && ex.trace.iter().any(|t| matches!(t, SwapTrace::Cross(_))) {
                        let post = ex.res.post.as_ref().unwrap();
                        st.sample = Some(json!({"world": w.spec.name, "ticks": lay.ticks, "a_to_b": a_to_b, "start": format!("{start:?}"), "size": format!("{size:?}"),
                            "start_price": pre.pool.sqrt_price.to_string(), "start_tick": tc0, "end_price": post.pool.sqrt_price.to_string(), "end_tick": post.pool.tick_current_index,
                            "crossed": ex.trace.iter().filter_map(|t| match t { SwapTrace::Cross(c) => Some(json!({"tick": c.tick_index, "net": c.liquidity_net.to_string()})), _ => None }).collect::<Vec<_>>() }));
                    }
                }
                if ex.res.code.is_none() {
                    if let Some(rf) = &reference {
                        if rf.code.is_none() && rf != &ex.res {
                            let (a, b) = (rf.post.as_ref().unwrap(), ex.res.post.as_ref().unwrap());
                            let what = diff_snap(a, b);
                            viol(st, tag, format!("{ctx} result differs from the reference packaging (all-fixed canon-v1): {what}"));
                            return;
                        }
                    }
                    st.ok_swaps += 1;
                    let n_cross = ex.trace.iter().filter(|t| matches!(t, SwapTrace::Cross(_))).count();
                    if enc.iter().any(|e| e.is_none()) {
                        st.ok_named_only += 1;
                    }
                    if enc.iter().any(|e| *e == Some(Enc::Dynamic)) && n_cross > 0 {
                        st.ok_with_dynamic += 1;
                    }
                    if pk.name.starts_with("dup") {
                        st.ok_dup += 1;
                    }
                    if pk.name.starts_with("sup") {
                        st.ok_supp += 1;
                    }
                    if pk.name.starts_with("perm") {
                        st.ok_perm += 1;
                    }
                    if pk.k < r.len() {
                        st.ok_short_prefix += 1;
                    }
                    if pk.name.starts_with("twin-named") {
                        st.ignored_foreign_named += 1;
                    }
                    if vi == 0 && pk.name == "canon-v1" {
                        let crossed: Vec<i32> = ex.trace.iter().filter_map(|t| match t { SwapTrace::Cross(c) => Some(c.tick_index), _ => None }).collect();
                        let n = 88 * w.spec.ts as i32;
                        let arrs: std::collections::BTreeSet<i32> = crossed.iter().map(|t| t.div_euclid(n)).collect();
                        if arrs.len() >= 2 {
                            st.multi_array += 1;
                        }
                        if crossed.iter().any(|t| { let o = (t - t.div_euclid(n) * n) / w.spec.ts as i32; o == 0 || o == 87 }) {
                            st.edge_slot_cross += 1;
                        }
                        if matches!(start, Start::On1 | Start::On2) && a_to_b && crossed.first().map(|t| p_of(*t)) == Some(pre.pool.sqrt_price) {
                            st.zero_distance_cross += 1;
                        }
                        if matches!(start, Start::Shift1 | Start::Shift2) && !a_to_b && crossed.first().map(|t| p_of(*t)) == Some(pre.pool.sqrt_price) {
                            st.zero_distance_cross += 1;
                        }
                        if matches!(start, Start::Shift1 | Start::Shift2) && a_to_b && !crossed.iter().any(|t| p_of(*t) == pre.pool.sqrt_price) {
                            st.shifted_no_cross += 1;
                        }
                        if matches!(start, Start::On1 | Start::On2) && !a_to_b && !crossed.iter().any(|t| p_of(*t) == pre.pool.sqrt_price) {
                            st.shifted_no_cross += 1;
                        }
                        if ex.trace.iter().any(|t| matches!(t, SwapTrace::Step(s) if s.liquidity == 0 && s.sqrt_price_before != s.next_price)) {
                            st.gap_steps += 1;
                        }
                    }
                }
            }
        }
    }
}

fn run_layout(w: &World, lay: &Layout, idx: usize, thorough: bool, only: Option<(bool, Start)>) -> Stats {
    let mut st = Stats::default();
    st.layouts = 1;
    if lay.gap.is_some() {
        st.gap_layouts = 1;
    }
    let pos = positions(&w.spec, lay);
    let encs = enc_variants(&w.spec, lay, thorough, idx);
    let mut built = vec![];
    for e in &encs {
        match build_layout(w, e, &pos) {
            Ok(l) => built.push((e.clone(), l)),
            Err(m) => {
                st.viol.push((format!("{}|{:?}|build|{}", w.spec.name, lay.ticks, enc_name(e)), format!("machinery: layout could not be built: {m}"), case_json(w, lay, true, Start::Between)));
                return st;
            }
        }
    }
    st.variants = built.len() as u64;
    // the built layout must hold exactly the chosen ticks (+ far ticks)
    if let Ok(s) = snap(&built[0].1, w) {
        let mut want: Vec<i32> = lay.ticks.clone();
        want.extend(w.spec.far_lo.iter().chain(w.spec.far_hi.iter()).filter(|_| !pos.is_empty()));
        want.sort();
        let got: Vec<i32> = s.ticks.iter().filter(|t| t.1.initialized).map(|t| t.0).collect();
        let want: Vec<i32> = if pos.is_empty() { vec![] } else { want };
        if got != want {
            st.viol.push((format!("{}|{:?}|layout", w.spec.name, lay.ticks), format!("machinery: built layout has initialized ticks {got:?}, wanted {want:?}"), case_json(w, lay, true, Start::Between)));
            return st;
        }
    }
    for a_to_b in [true, false] {
        for start in STARTS {
            if let Some(o) = only {
                if o != (a_to_b, start) {
                    continue;
                }
            }
            if !st.viol.is_empty() {
                return st;
            }
            if lay.ticks.len() > 3 && matches!(start, Start::On2 | Start::Shift2) {
                continue;
            }
            let r = std::panic::catch_unwind(std::panic::AssertUnwindSafe(|| {
                let mut s = Stats::default();
                run_state(w, lay, &pos, &built, a_to_b, start, thorough, &mut s);
                s
            }));
            match r {
                Ok(s) => st.merge(s),
                Err(_) => st.viol.push((format!("{}|{:?}|panic", w.spec.name, lay.ticks), "machinery: harness panicked".into(), case_json(w, lay, a_to_b, start))),
            }
        }
    }
    st
}

pub fn run(ctx: &Ctx) -> Report {
    let mut r = Report::new("C10", "model_checking");
    let thorough = !ctx.tier.is_quick();
    let mut total = Stats::default();
    let mut per_world = serde_json::Map::new();
    let stop = AtomicBool::new(false);
    // sequence part first (histories of swaps against the abstract traversal model, c10_seq.rs)
    let sq = seq::run(ctx, ctx.pick(9.0, 330.0));
    for (k, d, c) in sq.viol.iter().cloned() {
        r.violation(k, d, c);
    }
    let mut seq_failed = !sq.viol.is_empty();
    // two-hop packaging part (three-pool world of C17): the arrays of a leg through supplemental accounts / irrelevant extras
    if !seq_failed {
        let (n, packs, bad) = super::c17::packaging_part();
        r.set("two_hop_variants_judged", n);
        r.set("two_hop_packagings_compared", packs);
        if let Some((k, d, c)) = bad {
            r.violation(k, d, c);
            seq_failed = true;
        } else {
            r.guard("two_hop_packagings_compared", packs);
        }
    }
    let t_main = ctx.elapsed();
    let hard = (ctx.budget_s - t_main).min(ctx.pick((50.0 - t_main).max(25.0), 470.0));
    // small worlds first; each world may run until its cumulative share of the wall budget is used up (slack is passed on)
    let order: [(&str, f64); 7] = [("splash", 0.02), ("ts5000", 0.08), ("lo64", 0.14), ("hi64", 0.20), ("ts3neg", 0.26), ("ts1", 0.35), ("ts64", 1.0)];
    let all = specs();
    for (wname, share) in order {
        let spec = all.iter().find(|s| s.name == wname).expect("world").clone();
        if !total.viol.is_empty() || seq_failed {
            break;
        }
        let deadline = t_main + hard * share;
        let w = match std::panic::catch_unwind(std::panic::AssertUnwindSafe(|| build_world(&spec))) {
            Ok(w) => w,
            Err(_) => {
                r.violation(format!("{}|world", spec.name), "machinery: world could not be built".into(), json!({"world": spec.name}));
                break;
            }
        };
        let lays = layouts(&spec, thorough);
        let mut ws = Stats::default();
        // classes in order (<= 2 ticks, gap layouts, 3 ticks, 4 ticks) so that a time cap cuts the tail, not a random part
        let class = |l: &Layout| if l.gap.is_some() { 1 } else if l.ticks.len() <= 2 { 0 } else { l.ticks.len() - 1 };
        for c in 0..4 {
            let sel: Vec<(usize, &Layout)> = lays.iter().enumerate().filter(|(_, l)| class(l) == c).collect();
            let res: Vec<Stats> = sel
                .par_iter()
                .map(|(i, lay)| {
                    if stop.load(Ordering::Relaxed) || ctx.elapsed() > deadline {
                        return Stats { skipped_layouts: 1, ..Default::default() };
                    }
                    let s = run_layout(&w, lay, *i, thorough, None);
                    if !s.viol.is_empty() {
                        stop.store(true, Ordering::Relaxed);
                    }
                    s
                })
                .collect();
            for s in res {
                ws.merge(s);
            }
        }
        if let Some(smp) = ws.sample.clone() {
            r.sample(smp);
        }
        per_world.insert(
            spec.name.to_string(),
            json!({"layouts": ws.layouts, "gap_layouts": ws.gap_layouts, "start_states": ws.states, "swaps": ws.transitions, "validated": ws.validated, "crossings": ws.crossings, "fail_by_design": ws.fail_by_design, "skipped_layouts": ws.skipped_layouts}),
        );
        total.merge(ws);
    }
    for (k, d, c) in total.viol.drain(..) {
        r.violation(k, d, c);
    }
    r.set("states", total.states);
    r.set("transitions", total.transitions);
    r.set("traces_validated_against_impl", total.validated);
    r.set("layouts", total.layouts);
    r.set("layouts_with_zero_liquidity_gap", total.gap_layouts);
    r.set("encoding_variants_built", total.variants);
    r.set("abstract_swaps", total.abstract_swaps);
    r.set("packagings_executed", total.packagings);
    r.set("packaging_templates", FULL.len() as u64);
    r.set("setup_swaps", total.setup_swaps);
    r.set("crossings_compared", total.crossings);
    r.set("max_crossings_in_one_swap", total.max_cross);
    r.set("failing_by_design_swaps", total.fail_by_design);
    r.set("worlds", Value::Object(per_world));
    r.set("layouts_skipped_for_time", total.skipped_layouts);
    r.set("exhaustive", total.skipped_layouts == 0 && sq.units_skipped == 0);
    r.guard("successful_swaps", total.ok_swaps);
    r.guard("fail_arrays_do_not_reach", total.fail_beyond);
    r.guard("fail_first_array_missing", total.fail_no_first);
    r.guard("fail_foreign_initialized_array", total.fail_foreign);
    r.guard("ok_array_named_not_created", total.ok_named_only);
    r.guard("ok_crossing_in_dynamic_array", total.ok_with_dynamic);
    r.guard("ok_duplicate_accounts", total.ok_dup);
    r.guard("ok_supplemental_arrays", total.ok_supp);
    r.guard("ok_permuted_accounts", total.ok_perm);
    r.guard("ok_with_fewer_arrays_than_required", total.ok_short_prefix);
    r.guard("ok_foreign_uncreated_address_ignored", total.ignored_foreign_named);
    r.guard("zero_distance_crossing_at_start", total.zero_distance_cross);
    r.guard("start_on_tick_not_crossed", total.shifted_no_cross);
    r.guard("swaps_crossing_ticks_in_two_or_more_arrays", total.multi_array);
    r.guard("swaps_crossing_slot_0_or_87", total.edge_slot_cross);
    r.guard("swaps_through_zero_liquidity", total.gap_steps);
    seq_report(&mut r, &sq);
    r.assume("svm-lite faithfully replaces the validator (DESIGN §2.1)");
    r.assume("tick prices are taken from the program's sqrt_price_from_tick_index (decided separately by C09)");
    r.assume("initialized ticks are placed on {first, second, middle, last-1, last usable slot} of three consecutive arrays; other slots are covered by symmetry of the linear scan only");
    r.assume("sequence part: histories up to the reported depth from the roots {above all ticks, below all layout ticks, stopped exactly on each layout tick upwards / downwards} of the listed seq layouts; deeper histories are not covered");
    r.assume("pools without adaptive fee, SPL-token mints without transfer fee (packaging is independent of both)");
    r
}

fn seq_report(r: &mut Report, sq: &seq::SeqStats) {
    r.set("seq_layouts", sq.layouts);
    r.set("seq_units_layout_x_root", sq.units);
    r.set("seq_units_skipped_for_time", sq.units_skipped);
    r.set("seq_states", sq.states);
    r.set("seq_transitions", sq.transitions);
    r.set("seq_successful_swaps_validated", sq.ok);
    r.set("seq_failed_swaps", sq.failed);
    r.set("seq_ops_not_applicable", sq.not_applicable);
    r.set("seq_crossings_compared", sq.crossings);
    r.set("seq_root_swaps", sq.root_swaps);
    r.set("seq_max_depth", sq.max_depth);
    r.set("seq_lockstep_comparisons", sq.lockstep);
    if let Some(s) = sq.sample.clone() {
        r.sample(s);
    }
    r.guard("seq_successful_swaps", sq.ok);
    r.guard("seq_lockstep_with_dynamic_arrays", sq.lockstep_dynamic);
    r.guard("seq_lockstep_with_arrays_only_named", sq.lockstep_named);
    r.guard("seq_fail_limit_beyond_arrays", sq.fail_beyond);
    r.guard("seq_zero_move_swap_on_tick_crossed_downwards", sq.dust_on_crossed_tick);
    r.guard("seq_zero_move_swap_on_tick_not_crossed", sq.dust_on_uncrossed_tick);
    r.guard("seq_zero_move_swaps", sq.zero_move_swaps);
    r.guard("seq_zero_move_tail_step_after_crossing", sq.zero_move_tail_after_cross);
    r.guard("seq_arrive_on_tick_by_limit_down", sq.arrive_limit_down);
    r.guard("seq_arrive_on_tick_by_limit_up", sq.arrive_limit_up);
    r.guard("seq_arrive_on_tick_by_amount_down", sq.arrive_amount_down);
    r.guard("seq_arrive_on_tick_by_amount_up", sq.arrive_amount_up);
    r.guard("seq_tick_recrossed_up_after_down", sq.recross_up_after_down);
    r.guard("seq_tick_recrossed_down_after_up", sq.recross_down_after_up);
    r.guard("seq_leave_crossed_tick_downwards_without_recrossing", sq.leave_crossed_tick_downwards);
    r.guard("seq_exact_out_swaps", sq.exact_out_ok);
    r.guard("seq_swaps_crossing_two_or_more_ticks", sq.multi_cross);
    r.guard("seq_swaps_ending_exactly_on_uninitialized_tick", sq.on_uninit_tick);
}

fn parse_start(s: &str) -> Option<Start> {
    STARTS.iter().copied().find(|x| format!("{x:?}") == s)
}

pub fn replay(case: &Value) -> Result<(), String> {
    if case["part"].as_str() == Some("seq") {
        return seq::replay(case);
    }
    if case["kind"].as_str() == Some("twohop_packaging") {
        return super::c17::replay_packaging(case);
    }
    let name = case["world"].as_str().ok_or("world")?;
    let spec = specs().into_iter().find(|s| s.name == name).ok_or("unknown world")?;
    let ticks: Vec<i32> = case["ticks"].as_array().ok_or("ticks")?.iter().map(|x| x.as_i64().unwrap_or(0) as i32).collect();
    let gap = case["gap"].as_u64().map(|x| x as usize);
    let a_to_b = case["a_to_b"].as_bool().ok_or("a_to_b")?;
    let start = parse_start(case["start"].as_str().ok_or("start")?).ok_or("bad start")?;
    let w = build_world(&spec);
    let lay = Layout { ticks, gap };
    // thorough is a superset of quick (all admissible encodings, all packagings)
    let s = run_layout(&w, &lay, 0, true, Some((a_to_b, start)));
    match s.viol.first() {
        Some((_, d, _)) => Err(d.clone()),
        None => {
            // the quick tier's variant choice depends on the layout index: try both parities
            for idx in [0usize, 1] {
                let s = run_layout(&w, &lay, idx, false, Some((a_to_b, start)));
                if let Some((_, d, _)) = s.viol.first() {
                    return Err(d.clone());
                }
            }
            Ok(())
        }
    }
}
