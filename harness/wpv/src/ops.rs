//! Operation alphabet of the single-pool worlds and its execution on the real program (DESIGN §2.6).
#![allow(dead_code)]
use crate::decode;
use crate::refmodel::{MAX_SQRT_PRICE, MIN_SQRT_PRICE};
use crate::world::{self, PoolRef, StdWorld, SwapArgs};
use serde::{Deserialize, Serialize};
use solana_program::instruction::Instruction;
use svm::{Ledger, Outcome};
use whirlpool::math::sqrt_price_from_tick_index;
use whirlpool::verif_hooks::SwapTrace;

/// serde_json's Value cannot hold integers beyond u64: u128 fields travel as decimal strings.
pub mod u128_str {
    use serde::{Deserialize, Deserializer, Serializer};
    pub fn serialize<S: Serializer>(v: &u128, s: S) -> Result<S::Ok, S::Error> {
        s.serialize_str(&v.to_string())
    }
    pub fn deserialize<'de, D: Deserializer<'de>>(d: D) -> Result<u128, D::Error> {
        let s = String::deserialize(d)?;
        s.parse::<u128>().map_err(serde::de::Error::custom)
    }
}

#[derive(Clone, Copy, Debug, PartialEq, Eq, Hash, Serialize, Deserialize, PartialOrd, Ord)]
pub enum Lim {
    /// no explicit limit (0)
    None,
    /// exactly the price of the next initialized tick in the trade direction (lands on the tick; a->b leaves the shifted state)
    NextTick,
    /// one price unit beyond the next initialized tick
    PastNextTick,
    /// one price unit short of the next initialized tick
    ShortOfNextTick,
    /// half way (in price) to the next initialized tick
    Mid,
    /// the protocol bound in the trade direction
    Bound,
    /// an explicit sqrt price
    Price(#[serde(with = "u128_str")] u128),
}

#[derive(Clone, Copy, Debug, PartialEq, Eq, Hash, Serialize, Deserialize, PartialOrd, Ord)]
pub enum Part {
    All,
    Half,
    One,
    /// 2^128 - x: an amount whose two's-complement reading is +x. The program must refuse it (LiquidityTooHigh) — a must-fail
    /// self-loop on the pinned tree; a tree that converts it to a signed delta carelessly turns the withdrawal into a deposit
    Wrap(u64),
    /// x more than the position holds (must be refused: LiquidityUnderflow)
    Over(u64),
}
impl Part {
    /// the liquidity amount the instruction is given when the position currently holds `cur`
    pub fn amount(&self, cur: u128) -> u128 {
        match self {
            Part::All => cur,
            Part::Half => cur / 2,
            Part::One => 1.min(cur),
            Part::Wrap(x) => (*x as u128).wrapping_neg(),
            Part::Over(x) => cur.saturating_add(*x as u128),
        }
    }
}

#[derive(Clone, Debug, PartialEq, Eq, Hash, Serialize, Deserialize, PartialOrd, Ord)]
pub enum Op {
    Inc {
        pos: u8,
        #[serde(with = "u128_str")]
        liq: u128,
        v2: bool,
    },
    Dec { pos: u8, part: Part, v2: bool },
    /// increase_liquidity naming, for the lower / upper bound, the tick array `shift` arrays away from the one that holds the tick
    /// (0 = the right one). Any non-zero shift must be refused: the named array does not contain the tick.
    IncTa {
        pos: u8,
        #[serde(with = "u128_str")]
        liq: u128,
        lower_shift: i8,
        upper_shift: i8,
        v2: bool,
    },
    Swap { a_to_b: bool, exact_in: bool, amount: u64, lim: Lim, v2: bool },
    /// initialize_tick_array / initialize_dynamic_tick_array (permissionless) for the array `off` arrays away from array 0. On an
    /// array that already exists it must change nothing: refused, or (dynamic, idempotent) accepted as a no-op.
    InitTa { off: i8, dynamic: bool, idempotent: bool },
    /// the tick-array initialisers with a start index of `spacings` x tick spacing that is NOT a multiple of 88 x tick spacing:
    /// must be refused (swaps only ever visit aligned arrays)
    InitTaUnaligned { spacings: i16, dynamic: bool },
    /// increase_liquidity naming the tick arrays with these explicit start indexes for the lower / upper bound
    IncVia {
        pos: u8,
        #[serde(with = "u128_str")]
        liq: u128,
        lower_start: i32,
        upper_start: i32,
        v2: bool,
    },
    Update { pos: u8 },
    /// reposition_liquidity_v2: move the position to [lower, upper) with the given new liquidity
    Repos {
        pos: u8,
        lower: i32,
        upper: i32,
        #[serde(with = "u128_str")]
        liq: u128,
    },
    CollectFees { pos: u8, v2: bool },
    CollectProtocol { v2: bool },
    Clock(i64),
    /// advance the cluster epoch (Token-2022 transfer-fee schedules switch on epochs)
    Epoch(u64),
    /// Token-2022 `SetTransferFee` on the pool's mint A / B by the fee-config authority: takes effect two epochs later
    SetTransferFee { a: bool, bps: u16, max: u64 },
    SetFeeRate(u16),
    SetProtocolFeeRate(u16),
    CollectReward { pos: u8, index: u8, v2: bool },
    SetEmissions {
        index: u8,
        #[serde(with = "u128_str")]
        rate: u128,
        v2: bool,
    },
}

/// All initialized ticks of the pool, from the harness's own decoding of every existing tick array of this pool.
pub fn initialized_ticks(l: &Ledger, p: &PoolRef) -> Vec<(i32, decode::Tick)> {
    let mut out = vec![];
    for (_k, a) in l.accts.iter() {
        if a.owner != world::WP || a.data.len() < 8 {
            continue;
        }
        if a.data[..8] != decode::FIXED_TA_DISC && a.data[..8] != decode::DYN_TA_DISC {
            continue;
        }
        if let Ok(ta) = decode::tick_array(&a.data) {
            if ta.whirlpool != p.addr {
                continue;
            }
            for (i, t) in ta.ticks.iter().enumerate() {
                if t.initialized {
                    out.push((ta.start_tick_index + i as i32 * p.tick_spacing as i32, *t));
                }
            }
        }
    }
    out.sort_by_key(|x| x.0);
    out
}

/// The next initialized tick the swap loop will reach from the current state (a->b: <= tick_current; b->a: > tick_current).
pub fn next_init_tick(l: &Ledger, p: &PoolRef, a_to_b: bool) -> Option<i32> {
    let st = p.state(l);
    let ticks = initialized_ticks(l, p);
    if a_to_b {
        ticks.iter().rev().map(|t| t.0).find(|t| *t <= st.tick_current_index)
    } else {
        ticks.iter().map(|t| t.0).find(|t| *t > st.tick_current_index)
    }
}

pub fn resolve_limit(l: &Ledger, p: &PoolRef, a_to_b: bool, lim: Lim) -> u128 {
    let st = p.state(l);
    let bound = if a_to_b { MIN_SQRT_PRICE } else { MAX_SQRT_PRICE };
    let next = next_init_tick(l, p, a_to_b).map(sqrt_price_from_tick_index);
    match lim {
        Lim::None => 0,
        Lim::Bound => bound,
        Lim::Price(x) => x,
        Lim::NextTick => next.unwrap_or(bound),
        Lim::PastNextTick => match next {
            Some(x) => {
                if a_to_b {
                    (x - 1).max(MIN_SQRT_PRICE)
                } else {
                    (x + 1).min(MAX_SQRT_PRICE)
                }
            }
            None => bound,
        },
        Lim::ShortOfNextTick => match next {
            Some(x) => {
                if a_to_b {
                    x + 1
                } else {
                    x - 1
                }
            }
            None => bound,
        },
        Lim::Mid => {
            let x = next.unwrap_or(bound);
            // midpoint between current price and the next tick price
            if x > st.sqrt_price {
                st.sqrt_price + (x - st.sqrt_price) / 2
            } else {
                x + (st.sqrt_price - x) / 2
            }
        }
    }
}

/// Build the instruction for an op in the given state (None = op not applicable, e.g. Dec of an empty position).
pub fn build(l: &Ledger, w: &StdWorld, op: &Op) -> Option<Instruction> {
    let pos_of = |op: &Op| match op {
        Op::Inc { pos, .. } | Op::IncTa { pos, .. } | Op::IncVia { pos, .. } | Op::Dec { pos, .. } | Op::Update { pos } | Op::CollectFees { pos, .. } | Op::CollectReward { pos, .. } | Op::Repos { pos, .. } => Some(*pos),
        _ => None,
    };
    if let Some(p) = pos_of(op) {
        if p as usize >= w.positions.len() {
            return None;
        }
    }
    // pools over Token-2022 mints only have the v2 instruction family
    let force_v2 = !w.pool.is_v1_capable();
    let op = &match op.clone() {
        Op::Inc { pos, liq, v2 } => Op::Inc { pos, liq, v2: v2 || force_v2 },
        Op::Dec { pos, part, v2 } => Op::Dec { pos, part, v2: v2 || force_v2 },
        Op::IncTa { pos, liq, lower_shift, upper_shift, v2 } => Op::IncTa { pos, liq, lower_shift, upper_shift, v2: v2 || force_v2 },
        Op::Swap { a_to_b, exact_in, amount, lim, v2 } => Op::Swap { a_to_b, exact_in, amount, lim, v2: v2 || force_v2 },
        Op::CollectFees { pos, v2 } => Op::CollectFees { pos, v2: v2 || force_v2 },
        Op::CollectProtocol { v2 } => Op::CollectProtocol { v2: v2 || force_v2 },
        o => o,
    };
    match op {
        Op::Inc { pos, liq, v2 } => Some(world::ix_increase(&w.positions[*pos as usize].at(l), &w.lp, *liq, u64::MAX, u64::MAX, *v2)),
        Op::Repos { pos, lower, upper, liq } => Some(world::ix_reposition_v2(&w.positions[*pos as usize].at(l), &w.lp, w.funder, *lower, *upper, *liq, 0, 0, u64::MAX, u64::MAX)),
        Op::Dec { pos, part, v2 } => {
            let p = &w.positions[*pos as usize].at(l);
            let cur = p.state(l).liquidity;
            let amt = part.amount(cur);
            if amt == 0 {
                return None;
            }
            Some(world::ix_decrease(p, &w.lp, amt, 0, 0, *v2))
        }
        Op::IncTa { pos, liq, lower_shift, upper_shift, v2 } => {
            let p = &w.positions[*pos as usize].at(l);
            let mut ix = world::ix_increase(p, &w.lp, *liq, u64::MAX, u64::MAX, *v2);
            let span = p.pool.ticks_in_array();
            let (lo, hi) = (p.ta_lower(), p.ta_upper());
            let lo2 = p.pool.tick_array(p.pool.array_start(p.lower) + *lower_shift as i32 * span);
            let hi2 = p.pool.tick_array(p.pool.array_start(p.upper) + *upper_shift as i32 * span);
            // the two tick-array metas are the last two accounts of the increase instructions that equal the position's arrays
            let n = ix.accounts.len();
            let (mut il, mut iu) = (None, None);
            for i in (0..n).rev() {
                if iu.is_none() && ix.accounts[i].pubkey == hi {
                    iu = Some(i);
                } else if il.is_none() && ix.accounts[i].pubkey == lo {
                    il = Some(i);
                }
            }
            match (il, iu) {
                (Some(a), Some(b)) => {
                    ix.accounts[a].pubkey = lo2;
                    ix.accounts[b].pubkey = hi2;
                    Some(ix)
                }
                _ => None,
            }
        }
        Op::Swap { a_to_b, exact_in, amount, lim, v2 } => {
            let st = w.pool.state(l);
            let a = SwapArgs {
                amount: *amount,
                other_amount_threshold: if *exact_in { 0 } else { u64::MAX },
                sqrt_price_limit: resolve_limit(l, &w.pool, *a_to_b, *lim),
                amount_specified_is_input: *exact_in,
                a_to_b: *a_to_b,
            };
            let tas = world::swap_tick_arrays(&w.pool, st.tick_current_index, *a_to_b);
            Some(world::ix_swap(&w.pool, &w.trader, a, tas, *v2, &[]))
        }
        Op::InitTaUnaligned { spacings, dynamic } => Some(world::ix_init_tick_array(&w.pool, w.funder, *spacings as i32 * w.pool.tick_spacing as i32, *dynamic)),
        Op::IncVia { pos, liq, lower_start, upper_start, v2 } => {
            let p = &w.positions[*pos as usize].at(l);
            let v2 = *v2 || force_v2;
            let mut ix = world::ix_increase(p, &w.lp, *liq, u64::MAX, u64::MAX, v2);
            let (lo, hi) = (p.ta_lower(), p.ta_upper());
            let n = ix.accounts.len();
            let (mut il, mut iu) = (None, None);
            for i in (0..n).rev() {
                if iu.is_none() && ix.accounts[i].pubkey == hi {
                    iu = Some(i);
                } else if il.is_none() && ix.accounts[i].pubkey == lo {
                    il = Some(i);
                }
            }
            match (il, iu) {
                (Some(a), Some(b)) => {
                    ix.accounts[a].pubkey = p.pool.tick_array(*lower_start);
                    ix.accounts[b].pubkey = p.pool.tick_array(*upper_start);
                    Some(ix)
                }
                _ => None,
            }
        }
        Op::InitTa { off, dynamic, idempotent } => {
            let start = *off as i32 * w.pool.ticks_in_array();
            let mut ix = world::ix_init_tick_array(&w.pool, w.funder, start, *dynamic);
            if *dynamic && *idempotent {
                ix.data = anchor_lang::InstructionData::data(&whirlpool::instruction::InitializeDynamicTickArray { start_tick_index: start, idempotent: true });
            }
            Some(ix)
        }
        Op::Update { pos } => Some(world::ix_update_fees_and_rewards(&w.positions[*pos as usize].at(l))),
        Op::CollectFees { pos, v2 } => Some(world::ix_collect_fees(&w.positions[*pos as usize].at(l), &w.lp, *v2)),
        Op::CollectProtocol { v2 } => Some(world::ix_collect_protocol_fees(
            &w.pool,
            w.cfg.collect_protocol_fees_authority,
            w.fee_dest.acct_a,
            w.fee_dest.acct_b,
            *v2,
        )),
        Op::SetFeeRate(r) => Some(world::ix_set_fee_rate(&w.pool, w.cfg.fee_authority, *r)),
        Op::SetProtocolFeeRate(r) => Some(world::ix_set_protocol_fee_rate(&w.pool, w.cfg.fee_authority, *r)),
        Op::Clock(_) | Op::Epoch(_) | Op::SetTransferFee { .. } => None,
        Op::CollectReward { .. } | Op::SetEmissions { .. } => None, // built by the reward world (C11)
    }
}

pub struct Stepped {
    pub ledger: Ledger,
    pub outcome: Outcome,
    pub trace: Vec<SwapTrace>,
    pub ix: Option<Instruction>,
}

/// Execute an already built instruction on a copy of the ledger through the given dispatch route.
pub fn apply_ix(l: &Ledger, ix: &Instruction, route: svm::Route) -> Stepped {
    let mut n = l.clone();
    let _ = whirlpool::verif_hooks::take_swap_trace();
    let o = svm::process_routed(&mut n, ix, route);
    let trace = whirlpool::verif_hooks::take_swap_trace();
    Stepped { ledger: n, outcome: o, trace, ix: Some(ix.clone()) }
}

/// Execute one op on a copy of the ledger. A failed instruction leaves the copy equal to the input.
pub fn apply(l: &Ledger, w: &StdWorld, op: &Op) -> Stepped {
    let mut n = l.clone();
    if let Op::Clock(dt) = op {
        n.unix_ts += dt;
        return Stepped { ledger: n, outcome: Outcome::default(), trace: vec![], ix: None };
    }
    if let Op::Epoch(k) = op {
        n.epoch += k;
        return Stepped { ledger: n, outcome: Outcome::default(), trace: vec![], ix: None };
    }
    if let Op::SetTransferFee { a, bps, max } = op {
        let (mint, prog) = if *a { (w.pool.mint_a, w.pool.prog_a) } else { (w.pool.mint_b, w.pool.prog_b) };
        if prog != world::T22 {
            return Stepped { ledger: n, outcome: Outcome { result: Some(svm::ExecError::Runtime("n/a".into())), ..Default::default() }, trace: vec![], ix: None };
        }
        let auth = world::mint_authority();
        let ix = spl_token_2022::extension::transfer_fee::instruction::set_transfer_fee(&world::T22, &mint, &auth, &[], *bps, *max).unwrap();
        let outcome = match svm::process_builtin(&mut n, &ix) {
            Ok(_) => Outcome::default(),
            Err(m) => Outcome { result: Some(svm::ExecError::Runtime(m)), ..Default::default() },
        };
        return Stepped { ledger: if outcome.result.is_none() { n } else { l.clone() }, outcome, trace: vec![], ix: Some(ix) };
    }
    let _ = whirlpool::verif_hooks::take_swap_trace();
    match build(l, w, op) {
        None => Stepped { ledger: n, outcome: Outcome { result: Some(svm::ExecError::Runtime("n/a".into())), ..Default::default() }, trace: vec![], ix: None },
        Some(ix) => {
            let o = svm::process(&mut n, &ix);
            let trace = whirlpool::verif_hooks::take_swap_trace();
            Stepped { ledger: n, outcome: o, trace, ix: Some(ix) }
        }
    }
}

/// Accounts whose bytes make up the property-relevant pool state (graph-mode fingerprint).
pub fn core_keys(l: &Ledger, w: &StdWorld) -> Vec<solana_program::pubkey::Pubkey> {
    let mut k = vec![w.pool.addr, w.pool.vault_a, w.pool.vault_b, w.pool.oracle, w.pool.mint_a, w.pool.mint_b];
    for p in &w.positions {
        k.push(p.addr);
    }
    for (key, a) in l.accts.iter() {
        if a.owner == world::WP && a.data.len() >= 8 && (a.data[..8] == decode::FIXED_TA_DISC || a.data[..8] == decode::DYN_TA_DISC) {
            k.push(*key);
        }
    }
    k
}
