//! Deterministic keys derived from labels (never `Pubkey::new_unique`, whose counter depends on call order).
use sha2::{Digest, Sha256};
use solana_program::pubkey::Pubkey;

pub fn key(label: &str) -> Pubkey {
    let h = Sha256::digest(label.as_bytes());
    Pubkey::new_from_array(h.into())
}
