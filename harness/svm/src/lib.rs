//! svm-lite: a native mini-runtime that executes the *real* whirlpool program (Anchor and
//! Pinocchio paths) against an in-memory ledger, with CPIs executed by the real SPL processors.
//! See DESIGN.md §2.1.
#![allow(deprecated, clippy::all)]

use solana_program::{
    account_info::AccountInfo,
    entrypoint::ProgramResult,
    instruction::{AccountMeta, Instruction},
    program_error::ProgramError,
    pubkey::Pubkey,
    system_program,
};
use std::cell::{Cell, RefCell};
use std::collections::BTreeMap;
use std::sync::{Arc, Once};

pub mod keys;

#[derive(Clone, Debug, PartialEq, Eq, Hash)]
pub struct Acct {
    pub lamports: u64,
    pub data: Vec<u8>,
    pub owner: Pubkey,
    pub executable: bool,
}

#[derive(Clone, Default, PartialEq, Eq)]
pub struct Ledger {
    pub accts: BTreeMap<Pubkey, Arc<Acct>>,
    pub unix_ts: i64,
    pub epoch: u64,
}

impl Ledger {
    pub fn get(&self, k: &Pubkey) -> Option<&Acct> {
        self.accts.get(k).map(|a| &**a)
    }
    pub fn data(&self, k: &Pubkey) -> &[u8] {
        self.accts.get(k).map(|a| &a.data[..]).unwrap_or(&[])
    }
    pub fn put(&mut self, k: Pubkey, a: Acct) {
        self.accts.insert(k, Arc::new(a));
    }
    pub fn put_system(&mut self, k: Pubkey, lamports: u64) {
        self.put(k, Acct { lamports, data: vec![], owner: system_program::ID, executable: false });
    }
    /// Mutate the bytes of an account in place (root builders / preset accumulators).
    pub fn patch(&mut self, k: &Pubkey, f: impl FnOnce(&mut Vec<u8>)) {
        let a = self.accts.get_mut(k).expect("patch: no such account");
        f(&mut Arc::make_mut(a).data);
    }
    /// 128-bit FNV-style fingerprint of the canonical ledger content (accounts sorted by key + clock).
    pub fn fingerprint(&self) -> u128 {
        let mut h = Fp::new();
        h.u64(self.unix_ts as u64);
        h.u64(self.epoch);
        for (k, a) in &self.accts {
            h.bytes(k.as_ref());
            h.u64(a.lamports);
            h.bytes(a.owner.as_ref());
            h.u64(a.data.len() as u64);
            h.bytes(&a.data);
        }
        h.finish()
    }
    /// Fingerprint restricted to a set of accounts (property-relevant fields only).
    pub fn fingerprint_of(&self, keys: &[Pubkey], with_lamports: bool) -> u128 {
        let mut h = Fp::new();
        h.u64(self.unix_ts as u64);
        h.u64(self.epoch);
        for k in keys {
            match self.accts.get(k) {
                None => h.u64(0xdead),
                Some(a) => {
                    if with_lamports {
                        h.u64(a.lamports);
                    }
                    h.bytes(a.owner.as_ref());
                    h.u64(a.data.len() as u64);
                    h.bytes(&a.data);
                }
            }
        }
        h.finish()
    }
}

/// Two independent 64-bit multiplicative hashes combined to 128 bits; deterministic across runs.
pub struct Fp(u64, u64);
impl Fp {
    pub fn new() -> Self {
        Fp(0xcbf29ce484222325, 0x9e3779b97f4a7c15)
    }
    #[inline]
    pub fn u64(&mut self, v: u64) {
        self.0 = (self.0 ^ v).wrapping_mul(0x100000001b3).rotate_left(29);
        self.1 = (self.1.wrapping_add(v)).wrapping_mul(0xff51afd7ed558ccd).rotate_left(31) ^ v;
    }
    pub fn u128(&mut self, v: u128) {
        self.u64(v as u64);
        self.u64((v >> 64) as u64);
    }
    pub fn bytes(&mut self, b: &[u8]) {
        let mut it = b.chunks_exact(8);
        for c in &mut it {
            self.u64(u64::from_le_bytes(c.try_into().unwrap()));
        }
        let r = it.remainder();
        if !r.is_empty() {
            let mut t = [0u8; 8];
            t[..r.len()].copy_from_slice(r);
            self.u64(u64::from_le_bytes(t) ^ ((r.len() as u64) << 56));
        }
    }
    pub fn finish(&self) -> u128 {
        let mut a = self.0;
        let mut b = self.1;
        a ^= a >> 33;
        a = a.wrapping_mul(0xff51afd7ed558ccd);
        a ^= a >> 33;
        b ^= b >> 29;
        b = b.wrapping_mul(0xc4ceb9fe1a85ec53);
        b ^= b >> 32;
        ((a as u128) << 64) | b as u128
    }
}

#[derive(Clone, Debug, PartialEq, Eq)]
pub enum ExecError {
    /// The program returned this raw u64 (ProgramError encoding). Custom(n) is returned as n for n != 0.
    Code(u64),
    /// The program panicked (on chain: ProgramFailedToComplete).
    Panic(String),
    /// A CPI failed or violated a runtime privilege rule (aborts the transaction on chain).
    Cpi(String),
    /// A runtime post-condition was violated (read-only account modified, lamports not conserved, ...).
    Runtime(String),
}

impl ExecError {
    /// Custom program error code if this is one (Anchor framework 2000.., 3000.. / whirlpool 6000..).
    pub fn custom(&self) -> Option<u32> {
        match self {
            ExecError::Code(c) if *c < (1u64 << 32) && *c != 0 => Some(*c as u32),
            _ => None,
        }
    }
    pub fn short(&self) -> String {
        match self {
            ExecError::Code(c) => match self.custom() {
                Some(n) => format!("custom:{n}"),
                None => format!("builtin:{:#x}", c),
            },
            ExecError::Panic(m) => format!("panic:{}", m.chars().take(160).collect::<String>().replace('\n', " ")),
            ExecError::Cpi(m) => format!("cpi:{m}"),
            ExecError::Runtime(m) => format!("runtime:{m}"),
        }
    }
}

#[derive(Clone, Debug, Default)]
pub struct Outcome {
    pub result: Option<ExecError>, // None = success
    pub events: Vec<Vec<u8>>,      // sol_log_data payloads (Anchor emit! and Pinocchio events), in order
    pub logs: Vec<String>,         // only when log capture is enabled
    pub pinocchio_path: bool,
    pub cpi_log: Vec<CpiRecord>,
}
impl Outcome {
    pub fn ok(&self) -> bool {
        self.result.is_none()
    }
    pub fn code(&self) -> Option<u32> {
        self.result.as_ref().and_then(|e| e.custom())
    }
    pub fn short(&self) -> String {
        match &self.result {
            None => "ok".into(),
            Some(e) => e.short(),
        }
    }
}

#[derive(Clone, Debug, PartialEq, Eq)]
pub struct CpiRecord {
    pub program: Pubkey,
    pub data: Vec<u8>,
    pub accounts: Vec<(Pubkey, bool, bool)>,
}

thread_local! {
    static CLOCK: Cell<(i64, u64)> = const { Cell::new((0, 0)) };
    static STACK: RefCell<Vec<Pubkey>> = const { RefCell::new(Vec::new()) };
    static POISON: RefCell<Option<String>> = const { RefCell::new(None) };
    static RET: RefCell<Option<(Pubkey, Vec<u8>)>> = const { RefCell::new(None) };
    static EVENTS: RefCell<Vec<Vec<u8>>> = const { RefCell::new(Vec::new()) };
    static LOGS: RefCell<Vec<String>> = const { RefCell::new(Vec::new()) };
    static CAPTURE_LOGS: Cell<bool> = const { Cell::new(false) };
    static TX_PROGRAMS: RefCell<Vec<Pubkey>> = const { RefCell::new(Vec::new()) };
    static CPI_LOG: RefCell<Vec<CpiRecord>> = const { RefCell::new(Vec::new()) };
    static RECORD_CPI: Cell<bool> = const { Cell::new(false) };
    static PANIC_MSG: RefCell<Option<String>> = const { RefCell::new(None) };
    static IN_GUEST: Cell<bool> = const { Cell::new(false) };
}

/// Set the clock seen by `Clock::get()` (both flavours) without running an instruction (function-level checks).
pub fn set_clock(unix_ts: i64, epoch: u64) {
    init();
    CLOCK.with(|c| c.set((unix_ts, epoch)));
}
pub fn set_capture_logs(on: bool) {
    CAPTURE_LOGS.with(|c| c.set(on));
}
pub fn set_record_cpi(on: bool) {
    RECORD_CPI.with(|c| c.set(on));
}

pub const METADATA_PROGRAM_ID: Pubkey = solana_program::pubkey!("metaqbxxUerdq28cj1RbAWkYQm3ybzjb6a8bt518x1s");

const PAD: usize = 10240; // MAX_PERMITTED_DATA_INCREASE

struct Slot {
    key: Pubkey,
    hdr: usize, // offset of the 0xff marker
    orig_len: usize,
    writable: bool,
}

fn poison(msg: String) {
    POISON.with(|p| {
        let mut p = p.borrow_mut();
        if p.is_none() {
            *p = Some(msg);
        }
    });
}

/// Serialise into the aligned BPF-loader input format (what both `solana_program::entrypoint::deserialize`
/// and `pinocchio::entrypoint::deserialize` parse).
fn serialize(ledger: &Ledger, ix: &Instruction) -> (Vec<u8>, Vec<Slot>) {
    let mut b: Vec<u8> = Vec::with_capacity(64 * 1024);
    let mut slots = Vec::new();
    b.extend_from_slice(&(ix.accounts.len() as u64).to_le_bytes());
    for (i, m) in ix.accounts.iter().enumerate() {
        if let Some(j) = ix.accounts[..i].iter().position(|x| x.pubkey == m.pubkey) {
            b.push(j as u8);
            b.extend_from_slice(&[0u8; 7]);
            continue;
        }
        // the runtime unions the privileges of duplicate metas
        let is_signer = ix.accounts.iter().any(|x| x.pubkey == m.pubkey && x.is_signer);
        let is_writable = ix.accounts.iter().any(|x| x.pubkey == m.pubkey && x.is_writable);
        let hdr = b.len();
        let (lamports, data, owner, executable): (u64, &[u8], Pubkey, bool) = match ledger.accts.get(&m.pubkey) {
            Some(a) => (a.lamports, &a.data, a.owner, a.executable),
            None => (0, &[], system_program::ID, false),
        };
        b.push(0xff);
        b.push(is_signer as u8);
        b.push(is_writable as u8);
        b.push(executable as u8);
        b.extend_from_slice(&[0u8; 4]);
        b.extend_from_slice(m.pubkey.as_ref());
        b.extend_from_slice(owner.as_ref());
        b.extend_from_slice(&lamports.to_le_bytes());
        b.extend_from_slice(&(data.len() as u64).to_le_bytes());
        b.extend_from_slice(data);
        b.resize(b.len() + PAD, 0);
        while b.len() % 8 != 0 {
            b.push(0);
        }
        b.extend_from_slice(&0u64.to_le_bytes()); // rent epoch
        slots.push(Slot { key: m.pubkey, hdr, orig_len: data.len(), writable: is_writable });
    }
    b.extend_from_slice(&(ix.data.len() as u64).to_le_bytes());
    b.extend_from_slice(&ix.data);
    b.extend_from_slice(ix.program_id.as_ref());
    (b, slots)
}

fn read_slot<'a>(b: &'a [u8], s: &Slot) -> (Pubkey, u64, &'a [u8]) {
    let o = s.hdr + 8 + 32;
    let owner = Pubkey::new_from_array(b[o..o + 32].try_into().unwrap());
    let lamports = u64::from_le_bytes(b[o + 32..o + 40].try_into().unwrap());
    let dl = u64::from_le_bytes(b[o + 40..o + 48].try_into().unwrap()) as usize;
    assert!(dl <= s.orig_len + PAD, "svm: data length beyond realloc padding");
    (owner, lamports, &b[o + 48..o + 48 + dl])
}

fn writeback(ledger: &mut Ledger, slots: &[Slot], b: &[u8]) -> Result<(), String> {
    let mut before: u128 = 0;
    let mut after: u128 = 0;
    let mut changes: Vec<(Pubkey, Option<Acct>)> = Vec::new();
    for s in slots {
        let (owner, lamports, data) = read_slot(b, s);
        let old = ledger.accts.get(&s.key);
        let (old_lam, old_data, old_owner, exec): (u64, &[u8], Pubkey, bool) = match old {
            Some(a) => (a.lamports, &a.data, a.owner, a.executable),
            None => (0, &[], system_program::ID, false),
        };
        before += old_lam as u128;
        after += lamports as u128;
        let changed = old_lam != lamports || old_owner != owner || old_data != data;
        if !changed {
            continue;
        }
        if !s.writable {
            return Err(format!("read-only account {} modified", s.key));
        }
        if exec {
            return Err(format!("executable account {} modified", s.key));
        }
        if lamports == 0 {
            changes.push((s.key, None));
        } else {
            changes.push((s.key, Some(Acct { lamports, data: data.to_vec(), owner, executable: exec })));
        }
    }
    if before != after {
        return Err(format!("lamports not conserved: {before} -> {after}"));
    }
    for (k, a) in changes {
        match a {
            None => {
                ledger.accts.remove(&k);
            }
            Some(a) => {
                ledger.accts.insert(k, Arc::new(a));
            }
        }
    }
    Ok(())
}

// ---------------------------------------------------------------------------------------------
// host side of the syscalls
// ---------------------------------------------------------------------------------------------

struct Stubs;
impl solana_program::program_stubs::SyscallStubs for Stubs {
    fn sol_log(&self, m: &str) {
        host_log(m)
    }
    fn sol_log_data(&self, f: &[&[u8]]) {
        host_log_data(f)
    }
    fn sol_get_clock_sysvar(&self, addr: *mut u8) -> u64 {
        clock_fill(addr)
    }
    fn sol_get_rent_sysvar(&self, addr: *mut u8) -> u64 {
        rent_fill(addr)
    }
    fn sol_get_return_data(&self) -> Option<(Pubkey, Vec<u8>)> {
        host_get_ret()
    }
    fn sol_set_return_data(&self, d: &[u8]) {
        host_set_ret(d)
    }
    fn sol_get_stack_height(&self) -> u64 {
        STACK.with(|s| s.borrow().len() as u64)
    }
    fn sol_invoke_signed(&self, ix: &Instruction, infos: &[AccountInfo], seeds: &[&[&[u8]]]) -> ProgramResult {
        host_invoke(ix, infos, seeds)
    }
}

fn host_log(m: &str) {
    if CAPTURE_LOGS.with(|c| c.get()) {
        LOGS.with(|l| l.borrow_mut().push(m.to_string()));
    }
}
fn host_log_data(d: &[&[u8]]) {
    // only events emitted by the program under test (stack depth 1) are recorded
    if STACK.with(|s| s.borrow().len()) <= 1 {
        EVENTS.with(|l| {
            let mut l = l.borrow_mut();
            for x in d {
                l.push(x.to_vec())
            }
        });
    }
}
fn host_set_ret(d: &[u8]) {
    let pid = STACK.with(|s| s.borrow().last().copied().unwrap_or_default());
    RET.with(|r| *r.borrow_mut() = Some((pid, d.to_vec())));
}
fn host_get_ret() -> Option<(Pubkey, Vec<u8>)> {
    RET.with(|r| r.borrow().clone())
}
fn clock_fill(addr: *mut u8) -> u64 {
    let (ts, epoch) = CLOCK.with(|c| c.get());
    // identical layout for solana_program::clock::Clock and pinocchio::sysvars::clock::Clock (5 x 8 bytes)
    let words: [u64; 5] = [epoch * 432_000 + 1, 0, epoch, epoch + 1, ts as u64];
    unsafe { std::ptr::copy_nonoverlapping(words.as_ptr() as *const u8, addr, 40) };
    0
}
fn rent_fill(addr: *mut u8) -> u64 {
    let r = solana_program::rent::Rent::default();
    // Rent { lamports_per_byte_year: u64, exemption_threshold: f64, burn_percent: u8 } -- 17 meaningful bytes
    unsafe {
        std::ptr::copy_nonoverlapping(&r.lamports_per_byte_year as *const u64 as *const u8, addr, 8);
        std::ptr::copy_nonoverlapping(&r.exemption_threshold as *const f64 as *const u8, addr.add(8), 8);
        *addr.add(16) = r.burn_percent;
    }
    0
}

fn record_cpi(program: &Pubkey, data: &[u8], metas: impl Iterator<Item = (Pubkey, bool, bool)>) {
    if RECORD_CPI.with(|c| c.get()) {
        CPI_LOG.with(|l| l.borrow_mut().push(CpiRecord { program: *program, data: data.to_vec(), accounts: metas.collect() }));
    }
}

/// CPI from a solana_program / Anchor caller.
fn host_invoke(ix: &Instruction, infos: &[AccountInfo], seeds: &[&[&[u8]]]) -> ProgramResult {
    if POISON.with(|p| p.borrow().is_some()) {
        return Err(ProgramError::Custom(0xdead_0000));
    }
    let r = host_invoke_inner(ix, infos, seeds);
    if let Err(e) = &r {
        poison(format!("cpi to {} failed: {:?}", short_pid(&ix.program_id), e));
    }
    r
}
fn short_pid(p: &Pubkey) -> &'static str {
    if *p == system_program::ID {
        "system"
    } else if *p == spl_token::ID {
        "token"
    } else if *p == spl_token_2022::ID {
        "token2022"
    } else if *p == spl_associated_token_account::ID {
        "ata"
    } else if *p == spl_memo::ID {
        "memo"
    } else if *p == METADATA_PROGRAM_ID {
        "metadata"
    } else {
        "unknown"
    }
}
fn host_invoke_inner(ix: &Instruction, infos: &[AccountInfo], seeds: &[&[&[u8]]]) -> ProgramResult {
    let caller = STACK.with(|s| *s.borrow().last().unwrap());
    if STACK.with(|s| s.borrow().len()) >= 5 {
        return Err(ProgramError::Custom(0xdead_0005));
    }
    if !TX_PROGRAMS.with(|t| t.borrow().contains(&ix.program_id)) {
        // the callee must be an executable account named by the transaction
        return Err(ProgramError::Custom(0xdead_0003));
    }
    let pdas: Vec<Pubkey> = seeds
        .iter()
        .map(|s| Pubkey::create_program_address(s, &caller).map_err(|_| ProgramError::InvalidSeeds))
        .collect::<Result<_, _>>()?;
    let mut callee: Vec<AccountInfo> = Vec::with_capacity(ix.accounts.len());
    for m in &ix.accounts {
        let ai = infos.iter().find(|a| *a.key == m.pubkey).ok_or(ProgramError::NotEnoughAccountKeys)?;
        let any_signer = ix.accounts.iter().any(|x| x.pubkey == m.pubkey && x.is_signer);
        let any_writable = ix.accounts.iter().any(|x| x.pubkey == m.pubkey && x.is_writable);
        if any_signer && !(ai.is_signer || pdas.contains(&m.pubkey)) {
            return Err(ProgramError::Custom(0xdead_0001)); // signer privilege escalation
        }
        if any_writable && !ai.is_writable {
            return Err(ProgramError::Custom(0xdead_0002)); // writable privilege escalation
        }
        let mut c = ai.clone();
        c.is_signer = any_signer;
        c.is_writable = any_writable;
        callee.push(c);
    }
    record_cpi(&ix.program_id, &ix.data, ix.accounts.iter().map(|m| (m.pubkey, m.is_signer, m.is_writable)));
    dispatch_builtin(&ix.program_id, &callee, &ix.data)
}

fn dispatch_builtin(pid: &Pubkey, infos: &[AccountInfo], data: &[u8]) -> ProgramResult {
    STACK.with(|s| s.borrow_mut().push(*pid));
    let r = if *pid == system_program::ID {
        system(infos, data)
    } else if *pid == spl_token::ID {
        spl_token::processor::Processor::process(pid, infos, data)
    } else if *pid == spl_token_2022::ID {
        spl_token_2022::processor::Processor::process(pid, infos, data)
    } else if *pid == spl_associated_token_account::ID {
        spl_associated_token_account::processor::process_instruction(pid, infos, data)
    } else if *pid == spl_memo::ID {
        spl_memo::processor::process_instruction(pid, infos, data)
    } else if *pid == METADATA_PROGRAM_ID {
        Ok(()) // recording stub: the Metaplex processor is not available offline (DESIGN §7)
    } else {
        Err(ProgramError::IncorrectProgramId)
    };
    STACK.with(|s| s.borrow_mut().pop());
    r
}

fn system(infos: &[AccountInfo], data: &[u8]) -> ProgramResult {
    use solana_program::system_instruction::SystemInstruction as SI;
    let si: SI = bincode::deserialize(data).map_err(|_| ProgramError::InvalidInstructionData)?;
    match si {
        SI::CreateAccount { lamports, space, owner } => {
            if infos.len() < 2 {
                return Err(ProgramError::NotEnoughAccountKeys);
            }
            let (from, to) = (&infos[0], &infos[1]);
            if !from.is_signer || !to.is_signer {
                return Err(ProgramError::MissingRequiredSignature);
            }
            if to.lamports() != 0 || !to.data_is_empty() || *to.owner != system_program::ID {
                return Err(ProgramError::AccountAlreadyInitialized);
            }
            if *from.owner != system_program::ID || !from.data_is_empty() {
                return Err(ProgramError::InvalidArgument);
            }
            if from.lamports() < lamports {
                return Err(ProgramError::InsufficientFunds);
            }
            **from.try_borrow_mut_lamports()? -= lamports;
            **to.try_borrow_mut_lamports()? += lamports;
            to.realloc(space as usize, true)?;
            to.assign(&owner);
            Ok(())
        }
        SI::Transfer { lamports } => {
            if infos.len() < 2 {
                return Err(ProgramError::NotEnoughAccountKeys);
            }
            let (from, to) = (&infos[0], &infos[1]);
            if !from.is_signer {
                return Err(ProgramError::MissingRequiredSignature);
            }
            if *from.owner != system_program::ID || !from.data_is_empty() {
                return Err(ProgramError::InvalidArgument);
            }
            if from.lamports() < lamports {
                return Err(ProgramError::InsufficientFunds);
            }
            if from.key == to.key {
                return Ok(());
            }
            **from.try_borrow_mut_lamports()? -= lamports;
            **to.try_borrow_mut_lamports()? += lamports;
            Ok(())
        }
        SI::Allocate { space } => {
            let a = &infos[0];
            if !a.is_signer {
                return Err(ProgramError::MissingRequiredSignature);
            }
            if !a.data_is_empty() || *a.owner != system_program::ID {
                return Err(ProgramError::AccountAlreadyInitialized);
            }
            a.realloc(space as usize, true)?;
            Ok(())
        }
        SI::Assign { owner } => {
            let a = &infos[0];
            if !a.is_signer {
                return Err(ProgramError::MissingRequiredSignature);
            }
            if *a.owner != system_program::ID {
                return Err(ProgramError::InvalidArgument);
            }
            a.assign(&owner);
            Ok(())
        }
        _ => Err(ProgramError::InvalidInstructionData),
    }
}

// ---- pinocchio host side ----
#[repr(C)]
struct RawAcc {
    key: *const Pubkey,
    lamports: *const u64,
    data_len: u64,
    data: *const u8,
    owner: *const Pubkey,
    rent_epoch: u64,
    is_signer: bool,
    is_writable: bool,
    executable: bool,
}
#[repr(C)]
struct RawSeed {
    p: *const u8,
    len: u64,
}
#[repr(C)]
struct RawSigner {
    seeds: *const RawSeed,
    len: u64,
}

unsafe fn pino_invoke(
    ix: &pinocchio::instruction::Instruction,
    accs: &[pinocchio::instruction::Account],
    signers: &[pinocchio::instruction::Signer],
) {
    if POISON.with(|p| p.borrow().is_some()) {
        return;
    }
    const _: () = assert!(core::mem::size_of::<RawAcc>() == core::mem::size_of::<pinocchio::instruction::Account>());
    const _: () = assert!(core::mem::size_of::<RawSigner>() == core::mem::size_of::<pinocchio::instruction::Signer>());
    let caller = STACK.with(|s| *s.borrow().last().unwrap());
    let raw: &[RawAcc] = std::slice::from_raw_parts(accs.as_ptr() as *const RawAcc, accs.len());
    let rs: &[RawSigner] = std::slice::from_raw_parts(signers.as_ptr() as *const RawSigner, signers.len());
    let mut pdas = vec![];
    for s in rs {
        let seeds: Vec<&[u8]> = std::slice::from_raw_parts(s.seeds, s.len as usize)
            .iter()
            .map(|x| std::slice::from_raw_parts(x.p, x.len as usize))
            .collect();
        match Pubkey::create_program_address(&seeds, &caller) {
            Ok(p) => pdas.push(p),
            Err(_) => {
                poison("pinocchio cpi: bad signer seeds".into());
                return;
            }
        }
    }
    let pid = Pubkey::new_from_array(*ix.program_id);
    if !TX_PROGRAMS.with(|t| t.borrow().contains(&pid)) {
        poison(format!("pinocchio cpi: program {} not in transaction", pid));
        return;
    }
    let mut infos: Vec<AccountInfo> = Vec::with_capacity(ix.accounts.len());
    for m in ix.accounts {
        let key = Pubkey::new_from_array(*m.pubkey);
        let Some(r) = raw.iter().find(|r| (*r.key) == key) else {
            poison("pinocchio cpi: missing account".into());
            return;
        };
        let any_signer = ix.accounts.iter().any(|x| *x.pubkey == *m.pubkey && x.is_signer);
        let any_writable = ix.accounts.iter().any(|x| *x.pubkey == *m.pubkey && x.is_writable);
        if any_signer && !(r.is_signer || pdas.contains(&key)) {
            poison("pinocchio cpi: signer privilege escalation".into());
            return;
        }
        if any_writable && !r.is_writable {
            poison("pinocchio cpi: writable privilege escalation".into());
            return;
        }
        // duplicates must share the RefCells, as the runtime's translation does
        if let Some(prev) = infos.iter().find(|p: &&AccountInfo| *p.key == key) {
            let c = prev.clone();
            infos.push(c);
            continue;
        }
        let lam: &mut u64 = &mut *(r.lamports as *mut u64);
        let data: &mut [u8] = std::slice::from_raw_parts_mut(r.data as *mut u8, r.data_len as usize);
        infos.push(AccountInfo {
            key: &*r.key,
            lamports: std::rc::Rc::new(RefCell::new(lam)),
            data: std::rc::Rc::new(RefCell::new(data)),
            owner: &*r.owner,
            rent_epoch: 0,
            is_signer: any_signer,
            is_writable: any_writable,
            executable: r.executable,
        });
    }
    record_cpi(&pid, ix.data, ix.accounts.iter().map(|m| (Pubkey::new_from_array(*m.pubkey), m.is_signer, m.is_writable)));
    if let Err(e) = dispatch_builtin(&pid, &infos, ix.data) {
        poison(format!("cpi to {} failed: {:?}", short_pid(&pid), e));
    }
}
fn pino_log(m: &str) {
    host_log(m)
}
fn pino_log_data(d: &[&[u8]]) {
    host_log_data(d)
}

static INIT: Once = Once::new();
pub fn init() {
    INIT.call_once(|| {
        solana_program::program_stubs::set_syscall_stubs(Box::new(Stubs));
        solana_invoke::host::set_invoke(host_invoke);
        solana_cpi::host::set_host(host_invoke, host_set_ret, host_get_ret);
        solana_msg::host::set_log(host_log);
        pinocchio::host::set_host(pino_invoke, clock_fill, rent_fill, pino_log, pino_log_data);
        let default_hook = std::panic::take_hook();
        std::panic::set_hook(Box::new(move |info| {
            if IN_GUEST.with(|g| g.get()) {
                let msg = info.to_string();
                PANIC_MSG.with(|p| *p.borrow_mut() = Some(msg));
            } else {
                default_hook(info);
            }
        }));
    });
}

/// Which dispatch path `entrypoint.rs` takes for this instruction data.
pub fn routes_to_pinocchio(data: &[u8]) -> bool {
    pino_table().iter().any(|t| data.starts_with(t.0))
}

type PinoFn = fn(&[pinocchio::account_info::AccountInfo], &[u8]) -> u64;
fn pino_table() -> [(&'static [u8], PinoFn); 6] {
    use anchor_lang::Discriminator;
    use whirlpool::pinocchio::instructions as pi;
    fn cv(r: whirlpool::pinocchio::Result<()>) -> u64 {
        match r {
            Ok(()) => 0,
            Err(e) => e.into(),
        }
    }
    [
        (whirlpool::instruction::IncreaseLiquidity::DISCRIMINATOR, |a, d| cv(pi::increase_liquidity::handler(a, d))),
        (whirlpool::instruction::DecreaseLiquidity::DISCRIMINATOR, |a, d| cv(pi::decrease_liquidity::handler(a, d))),
        (whirlpool::instruction::IncreaseLiquidityV2::DISCRIMINATOR, |a, d| cv(pi::increase_liquidity_v2::handler(a, d))),
        (whirlpool::instruction::DecreaseLiquidityV2::DISCRIMINATOR, |a, d| cv(pi::decrease_liquidity_v2::handler(a, d))),
        (whirlpool::instruction::IncreaseLiquidityByTokenAmountsV2::DISCRIMINATOR, |a, d| {
            cv(pi::increase_liquidity_by_token_amounts_v2::handler(a, d))
        }),
        (whirlpool::instruction::RepositionLiquidityV2::DISCRIMINATOR, |a, d| cv(pi::reposition_liquidity_v2::handler(a, d))),
    ]
}

extern "C" {
    fn entrypoint(input: *mut u8) -> u64;
}

#[derive(Clone, Copy, PartialEq, Eq, Debug)]
pub enum Route {
    /// replicate entrypoint.rs: Pinocchio table first, else Anchor
    Auto,
    /// force the Anchor dispatcher (`whirlpool::entry`) even for instructions the entrypoint routes to Pinocchio
    ForceAnchor,
    /// call the program's real `extern "C" entrypoint` symbol (a panic aborts the process)
    RealEntrypoint,
}

unsafe fn run(input: *mut u8, route: Route, pino: &mut bool) -> u64 {
    if route == Route::RealEntrypoint {
        return entrypoint(input);
    }
    if route == Route::Auto {
        const UNINIT: core::mem::MaybeUninit<pinocchio::account_info::AccountInfo> = core::mem::MaybeUninit::uninit();
        let mut accounts = [UNINIT; 64];
        let (_pid, count, data) = pinocchio::entrypoint::deserialize::<64>(input, &mut accounts);
        if let Some((_, h)) = pino_table().iter().find(|t| data.starts_with(t.0)) {
            *pino = true;
            let parsed = core::slice::from_raw_parts(accounts.as_ptr() as *const pinocchio::account_info::AccountInfo, count);
            return h(parsed, data);
        }
    }
    let (program_id, accounts, data) = solana_program::entrypoint::deserialize(input);
    if route == Route::ForceAnchor {
        if let Some(r) = anchor_liquidity_handlers(program_id, &accounts, data) {
            return match r {
                Ok(()) => 0,
                Err(e) => solana_program::program_error::ProgramError::from(e).into(),
            };
        }
    }
    match whirlpool::entry(program_id, &accounts, data) {
        Ok(()) => 0,
        Err(e) => e.into(),
    }
}

/// The program's `#[program]` entries for increase/decrease liquidity (v1, v2) are `unreachable!()` stubs because
/// entrypoint.rs routes these discriminators to Pinocchio — but the Anchor *handlers* still exist and are the reference
/// implementation (C12). This replicates exactly what Anchor's generated dispatcher does for an instruction:
/// deserialize args, `try_accounts`, call the handler, `exit`.
fn anchor_liquidity_handlers<'info>(
    program_id: &Pubkey,
    accounts: &'info [AccountInfo<'info>],
    data: &[u8],
) -> Option<anchor_lang::Result<()>> {
    use anchor_lang::{Accounts, AccountsExit, AnchorDeserialize, Discriminator};
    use whirlpool::instruction as wi;
    use whirlpool::instructions as ins;
    if data.len() < 8 {
        return None;
    }
    let (disc, args) = data.split_at(8);
    macro_rules! run {
        ($accs:ty, $bumps:ty, $ixty:ty, |$ctx:ident, $ix:ident| $call:expr) => {{
            let mut a: &[u8] = args;
            let $ix = match <$ixty>::deserialize(&mut a) {
                Ok(x) => x,
                Err(_) => return Some(Err(anchor_lang::error::ErrorCode::InstructionDidNotDeserialize.into())),
            };
            let mut bumps = <$bumps>::default();
            let mut reallocs = std::collections::BTreeSet::new();
            let mut rem: &[AccountInfo<'info>] = accounts;
            let mut accs = match <$accs>::try_accounts(program_id, &mut rem, args, &mut bumps, &mut reallocs) {
                Ok(x) => x,
                Err(e) => return Some(Err(e)),
            };
            let $ctx = anchor_lang::context::Context::new(program_id, &mut accs, rem, bumps);
            if let Err(e) = $call {
                return Some(Err(e));
            }
            Some(accs.exit(program_id))
        }};
    }
    if disc == wi::IncreaseLiquidity::DISCRIMINATOR {
        run!(ins::ModifyLiquidity<'info>, ins::ModifyLiquidityBumps, wi::IncreaseLiquidity, |ctx, ix| ins::increase_liquidity::handler(
            ctx,
            ix.liquidity_amount,
            ix.token_max_a,
            ix.token_max_b
        ))
    } else if disc == wi::DecreaseLiquidity::DISCRIMINATOR {
        run!(ins::ModifyLiquidity<'info>, ins::ModifyLiquidityBumps, wi::DecreaseLiquidity, |ctx, ix| ins::decrease_liquidity::handler(
            ctx,
            ix.liquidity_amount,
            ix.token_min_a,
            ix.token_min_b
        ))
    } else if disc == wi::IncreaseLiquidityV2::DISCRIMINATOR {
        run!(ins::ModifyLiquidityV2<'info>, ins::ModifyLiquidityV2Bumps, wi::IncreaseLiquidityV2, |ctx, ix| ins::v2::increase_liquidity::handler(
            ctx,
            ix.liquidity_amount,
            ix.token_max_a,
            ix.token_max_b,
            ix.remaining_accounts_info
        ))
    } else if disc == wi::DecreaseLiquidityV2::DISCRIMINATOR {
        run!(ins::ModifyLiquidityV2<'info>, ins::ModifyLiquidityV2Bumps, wi::DecreaseLiquidityV2, |ctx, ix| ins::v2::decrease_liquidity::handler(
            ctx,
            ix.liquidity_amount,
            ix.token_min_a,
            ix.token_min_b,
            ix.remaining_accounts_info
        ))
    } else {
        None
    }
}

pub fn process(ledger: &mut Ledger, ix: &Instruction) -> Outcome {
    process_routed(ledger, ix, Route::Auto)
}

pub fn process_routed(ledger: &mut Ledger, ix: &Instruction, route: Route) -> Outcome {
    init();
    assert_eq!(ix.program_id, whirlpool::ID);
    CLOCK.with(|c| c.set((ledger.unix_ts, ledger.epoch)));
    POISON.with(|p| *p.borrow_mut() = None);
    RET.with(|p| *p.borrow_mut() = None);
    EVENTS.with(|p| p.borrow_mut().clear());
    LOGS.with(|p| p.borrow_mut().clear());
    CPI_LOG.with(|p| p.borrow_mut().clear());
    PANIC_MSG.with(|p| *p.borrow_mut() = None);
    let _ = whirlpool::verif_hooks::take_pino_events();
    STACK.with(|s| {
        let mut s = s.borrow_mut();
        s.clear();
        s.push(whirlpool::ID)
    });
    TX_PROGRAMS.with(|t| {
        let mut t = t.borrow_mut();
        t.clear();
        for m in &ix.accounts {
            if ledger.accts.get(&m.pubkey).map(|a| a.executable).unwrap_or(false) {
                t.push(m.pubkey);
            }
        }
    });
    let (buf, slots) = serialize(ledger, ix);
    // 8-byte aligned copy
    let mut abuf: Vec<u64> = vec![0u64; buf.len() / 8 + 2];
    let p = abuf.as_mut_ptr() as *mut u8;
    unsafe { std::ptr::copy_nonoverlapping(buf.as_ptr(), p, buf.len()) };
    let mut pino = false;
    IN_GUEST.with(|g| g.set(true));
    let r = std::panic::catch_unwind(std::panic::AssertUnwindSafe(|| unsafe { run(p, route, &mut pino) }));
    IN_GUEST.with(|g| g.set(false));
    let mut result = match r {
        Err(_) => Some(ExecError::Panic(PANIC_MSG.with(|p| p.borrow_mut().take()).unwrap_or_default())),
        Ok(0) => None,
        Ok(e) => Some(ExecError::Code(e)),
    };
    if let Some(pmsg) = POISON.with(|p| p.borrow_mut().take()) {
        // a failed CPI aborts the transaction on chain no matter what the caller does afterwards
        if result.is_none() || !matches!(result, Some(ExecError::Code(_))) {
            result = Some(ExecError::Cpi(pmsg));
        } else {
            // keep the program's own code but remember that the cause was a CPI failure
            if let Some(ExecError::Code(c)) = result {
                result = Some(ExecError::Cpi(format!("{pmsg} (program returned {c:#x})")));
            }
        }
    }
    if result.is_none() {
        let out = unsafe { std::slice::from_raw_parts(p, buf.len()) };
        if let Err(m) = writeback(ledger, &slots, out) {
            result = Some(ExecError::Runtime(m));
        }
    }
    let mut events = EVENTS.with(|p| std::mem::take(&mut *p.borrow_mut()));
    // Pinocchio events are invisible off-chain except through hook H4
    for e in whirlpool::verif_hooks::take_pino_events() {
        events.push(e);
    }
    drop(abuf);
    Outcome {
        result,
        events,
        logs: LOGS.with(|p| std::mem::take(&mut *p.borrow_mut())),
        pinocchio_path: pino,
        cpi_log: CPI_LOG.with(|p| std::mem::take(&mut *p.borrow_mut())),
    }
}

/// Execute a non-whirlpool builtin (token / token-2022 / ata / system) instruction at top level — used by
/// world builders (create mints, mint tokens, approve delegates, ...).
pub fn process_builtin(ledger: &mut Ledger, ix: &Instruction) -> Result<(), String> {
    init();
    CLOCK.with(|c| c.set((ledger.unix_ts, ledger.epoch)));
    POISON.with(|p| *p.borrow_mut() = None);
    RET.with(|p| *p.borrow_mut() = None);
    STACK.with(|s| s.borrow_mut().clear());
    TX_PROGRAMS.with(|t| {
        let mut t = t.borrow_mut();
        t.clear();
        t.push(ix.program_id);
        for m in &ix.accounts {
            if ledger.accts.get(&m.pubkey).map(|a| a.executable).unwrap_or(false) {
                t.push(m.pubkey);
            }
        }
    });
    let (buf, slots) = serialize(ledger, ix);
    let mut abuf: Vec<u64> = vec![0u64; buf.len() / 8 + 2];
    let p = abuf.as_mut_ptr() as *mut u8;
    unsafe { std::ptr::copy_nonoverlapping(buf.as_ptr(), p, buf.len()) };
    IN_GUEST.with(|g| g.set(true));
    let r = std::panic::catch_unwind(std::panic::AssertUnwindSafe(|| unsafe {
        let (_pid, accounts, data) = solana_program::entrypoint::deserialize(p);
        dispatch_builtin(&ix.program_id, &accounts, data)
    }));
    IN_GUEST.with(|g| g.set(false));
    let res = match r {
        Err(_) => Err(format!("panic: {:?}", PANIC_MSG.with(|p| p.borrow_mut().take()))),
        Ok(Err(e)) => Err(format!("{e:?}")),
        Ok(Ok(())) => match POISON.with(|p| p.borrow_mut().take()) {
            Some(m) => Err(m),
            None => Ok(()),
        },
    };
    if res.is_ok() {
        let out = unsafe { std::slice::from_raw_parts(p, buf.len()) };
        writeback(ledger, &slots, out)?;
    }
    res
}

pub fn meta(k: Pubkey, signer: bool, writable: bool) -> AccountMeta {
    AccountMeta { pubkey: k, is_signer: signer, is_writable: writable }
}
