#!/usr/bin/env python3
"""Stores a verified seeded change under /verif/seeded/<name>/.
usage: store_seed.py <scratch worktree> <name> <own_before: caught|missed|other> <caught_by csv> <missed_by csv> [note] [--area]
Copies <worktree>/SEED/{patch.diff,demo.md,demo_wiring.diff,meta.json} and the demonstration source files (no logs, no build
output, no lock files) and adds the `verified_by_main_agent` record to meta.json."""
import json, os, shutil, sys
root = os.path.dirname(os.path.dirname(os.path.abspath(__file__)))
args = [a for a in sys.argv[1:] if a != "--area"]
area = "--area" in sys.argv
wt, name, own, caught, missed = args[:5]
note = args[5] if len(args) > 5 else ""
manual = os.environ.get("MANUAL_DEMO", "")
src = os.path.join(wt, "SEED")
dst = os.path.join(root, "seeded", name)
os.makedirs(dst, exist_ok=True)
for f in sorted(os.listdir(src)):
    p = os.path.join(src, f)
    if os.path.isdir(p):
        # stand-alone demonstration crates: sources only
        for dp, dn, fn in os.walk(p):
            dn[:] = [d for d in dn if d != "target"]
            for x in fn:
                if x.endswith(".lock") or x.endswith(".log"):
                    continue
                rel = os.path.relpath(os.path.join(dp, x), src)
                os.makedirs(os.path.dirname(os.path.join(dst, rel)), exist_ok=True)
                shutil.copy(os.path.join(dp, x), os.path.join(dst, rel))
        continue
    if f.endswith(".log") or os.path.getsize(p) > 400_000:
        continue
    shutil.copy(p, os.path.join(dst, f))
m = json.load(open(os.path.join(src, "meta.json")))
if area:
    m["area_wave"] = True
    m["property_named_by_agent"] = m.get("property")
m["verified_by_main_agent"] = {
    "repo_suite_with_change": "re-run by the main agent in the seeder's scratch worktree (tools/verify_seed.sh): all 654 pinned tests pass with the change; only the demonstration's tests fail"
    + ("; the demonstration is a stand-alone crate outside the workspace, run by hand: " + manual if manual else ""),
    "demonstration": "fails with the change, passes after `git apply -R patch.diff`",
    "checks_run_against_it": "tools/seedlane.sh: patch applied to a private worktree of /repo next to a copy of the harness (never /repo itself), quick tier",
    "own_check_before_strengthening": own,
    "caught_by": [c for c in caught.split(",") if c],
    "missed_by": [c for c in missed.split(",") if c],
    "note": note,
}
json.dump(m, open(os.path.join(dst, "meta.json"), "w"), indent=1)
print("stored", dst, sorted(os.listdir(dst)))
