#!/usr/bin/env python3
"""Regenerates /verif/MANIFEST.json from the table below. Run after adding/removing a check."""
import json, os
ROOT = os.path.dirname(os.path.dirname(os.path.abspath(__file__)))
ids = [json.loads(l)["id"] for l in open(os.path.join(ROOT, "properties.jsonl"))]

A = "engine-A"  # explicit-state search over the real program (svm-lite)
B = "engine-B"  # bounded-exhaustive input enumeration vs exact big-integer oracle

# id -> (engine, category, technique, level text, level note, design ref)
CHECKS = {
 "C09": (B, "exploration",
   "exhaustive enumeration: all 887273 ticks; all sqrt-prices via complete partition into constant-result intervals (bisection on the real code)",
   "Complete enumeration of the finite tick domain and a complete decision of the inverse over every in-bounds sqrt-price: the price domain is partitioned into ~1.9M maximal intervals on which the real function is constant, each evaluated at both ends against the bracket property.",
   "Trusts hook H3 (reports the estimate pair) and the monotonicity of the estimate (argued in checks/c09.rs, asserted on every bisection point); tick prices come from the real forward function.",
   "DESIGN.md §3 C09"),
}

NOT_APPLICABLE = {
}
PENDING_REASON = "check not built yet (build in progress; see DESIGN.md §8)"

checks = []
for i in ids:
    if i not in CHECKS: continue
    eng, cat, tech, text, note, ref = CHECKS[i]
    checks.append({
        "property_id": i,
        "quick_cmd": f"./check {i} quick",
        "thorough_cmd": f"./check {i} thorough",
        "evidence_file": f"/verif/evidence/{i}.json",
        "replay_cmd_template": "./check replay {path}",
        "engine": eng,
        "level_claimed": {"category": cat, "text": text, "design_ref": ref},
        "level_note": note,
        "technique": tech,
    })
na = []
for i in ids:
    if i in CHECKS: continue
    na.append({"property_id": i, "reason": NOT_APPLICABLE.get(i, PENDING_REASON)})

hooks = ["7be8aff", "732d224", "4acf1fe", "e4e4060", "77557f2"]
m = {
 "version": 1,
 "setup_cmd": "cd /verif && ./check build",
 "hooks": {
   "guard": "cargo feature `verif` of programs/whirlpool (off by default)",
   "enable": "the harness workspace depends on /repo/programs/whirlpool by path with features=[\"verif\"]; every ./check rebuilds it from the working tree",
   "baseline_off_cmd": "cd /repo && (cargo nextest run --workspace --no-fail-fast --offline --test-threads 8 || cargo test --workspace --no-fail-fast --offline)",
   "source_commits": hooks,
   "add_only": True,
 },
 "engines": [
   {"name": A, "path": "harness/svm + harness/wpv/src/explore.rs", "serves_properties": [c["property_id"] for c in checks if c["engine"] == A],
    "kind_free_text": "depth-bounded explicit-state search; every transition executes the real program natively (Anchor + Pinocchio paths, real SPL processors for CPI)"},
   {"name": B, "path": "harness/wpv/src/checks", "serves_properties": [c["property_id"] for c in checks if c["engine"] == B],
    "kind_free_text": "bounded-exhaustive enumeration of inputs / codec states of the real functions against exact big-integer reference models"},
 ],
 "checks": checks,
 "not_applicable": na,
 "notes": "All checks: exit 0 held / 1 VIOLATION / 2 machinery failure. Nothing is random; VERIF_SEED is recorded but unused.",
}
json.dump(m, open(os.path.join(ROOT, "MANIFEST.json"), "w"), indent=1)
print("checks:", [c["property_id"] for c in checks], "pending:", len(na))
