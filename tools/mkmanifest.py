#!/usr/bin/env python3
"""Regenerates /verif/MANIFEST.json from the table below. Run after adding/removing a check."""
import json, os
ROOT = os.path.dirname(os.path.dirname(os.path.abspath(__file__)))
ids = [json.loads(l)["id"] for l in open(os.path.join(ROOT, "properties.jsonl"))]

A = "engine-A"  # explicit-state search over the real program (svm-lite)
B = "engine-B"  # bounded-exhaustive input enumeration vs exact big-integer oracle

# id -> (engine, category, technique, level text, level note, design ref)
CHECKS = {
 "C09": (B, "exploration",
   "exhaustive enumeration: all 887273 ticks; all sqrt-prices via complete partition into constant-result intervals (bisection on the real code)",
   "Complete enumeration of the finite tick domain and a complete decision of the inverse over every in-bounds sqrt-price: the price domain is partitioned into ~1.9M maximal intervals on which the real function is constant, each evaluated at both ends against the bracket property.",
   "Trusts hook H3 (reports the estimate pair) and the monotonicity of the estimate (argued in checks/c09.rs, asserted on every bisection point); tick prices come from the real forward function.",
   "DESIGN.md §3 C09"),
}

SVM = "Trusted base: svm-lite (native loader/CPI/sysvar emulation, DESIGN §2.1) and the shims; the token programs are the real SPL processors. Bounded: alphabets, roots and the completed depth are listed in the evidence file; a capped depth is reported as such."
CHECKS.update({
 "C01": (A, "model_checking",
   "explicit-state search: all op sequences up to a depth bound on the real program; invariant on every state; drains in all orders; swap-only histories in ledger mode; the alphabet includes requests the program must refuse (inverted ranges, 2^128-x withdrawal amounts, neighbouring tick arrays) whose acceptance would open states the invariant then judges; fixed must-succeed histories on pools created with an arbitrary legacy bump argument and on an adaptive-fee pool; a fixed case of 42 instructions naming the pool's own vault as the caller's token account (deposit, trade, both decrease instructions, reposition, collect)",
   "Every reachable state of every increase/decrease/swap/update/collect sequence up to the completed depth (5 roots, 2-4 worlds, fixed+dynamic arrays) satisfies vault >= protocol fees + position fees (after a real update) + exact withdrawable amounts; closing out all positions and protocol fees succeeds in every order with real token transfers; no swap-only history leaves the trader ahead.",
   SVM, "DESIGN.md §3 C01"),
 "C03": (A, "model_checking",
   "explicit-state search over prefixes; every swap transition judged from real balances; thresholds realised-1/0/+1 re-executed; must-fail limits in every state",
   "Every swap transition from every state reached within the depth bound honours amount, direction, bound and limit; partial fills end exactly on the limit; exact-out without limit never partially fills; success/failure flips exactly at the realised threshold.",
   SVM, "DESIGN.md §3 C03"),
 "C05": (A, "model_checking",
   "explicit-state search; state invariant with independent decoders of pool, positions, fixed and dynamic tick arrays; must-refuse requests (wrong tick array for a bound, re-initialisation of an existing array) are part of the alphabet, as are tick arrays at unaligned starts (multiples of the spacing, of lcm(88, spacing), at the left edge of the tick range), deposits naming them, and empty / inverted reposition targets; fixed histories on positions bounded by the lowest tick (tick spacings 1, 2, 4)",
   "In every reachable state within the depth bound pool.liquidity equals the sum over covering positions and every tick's net/gross/initialized equal the sums over bounding positions, in both encodings, incl. shared bounds, full range, landing on ticks, reaching price bounds.",
   SVM, "DESIGN.md §3 C05"),
 "C06": (A, "model_checking",
   "explicit-state search; per-swap-step oracle from the H2 trace (rate and in-range liquidity re-derived from the pool and the positions) + totals from real balances/accounts + emitted event + conservation of what the positions can newly claim (real updates on pre/post copies); enumerated exact-out swaps whose total input lies within 8 units of 2^64 (must all be refused); fee and protocol-fee setters inside the search on an adaptive-fee pool; a world whose two mints withhold a Token-2022 transfer fee (the split is stated at the vaults)",
   "Every swap transition within the depth bound splits exactly as stated (per-step fee, protocol cut, growth; trader debit/credit; Traded event); every collect_protocol_fees pays exactly what is owed and resets it; fee / protocol rates varied inside the search.",
   SVM + " Hook H2 is trusted to record the values the swap loop used.", "DESIGN.md §3 C06"),
 "C08": (A, "model_checking",
   "function level: bounded-exhaustive enumeration vs exact rational oracle (Anchor and Pinocchio), liquidity magnitudes incl. the u64 boundary of each amount and the 2^128 / 2^192 / 2^193 boundaries of liquidity x price width; handler level: explicit-state search, every increase/decrease judged from real balances and re-executed with caller bounds realised-1/0/+1; by-token-amounts in every state",
   "Function-level: deposit=ceil, withdrawal=floor of the exact amounts, one-sidedness, add-then-remove loss <= 1, estimate is the largest fitting liquidity, Anchor==Pinocchio over boundary cross products and a complete small box. Handler-level: every liquidity transition within the depth bound moves exactly those amounts, reports them, and token_max/token_min flip exactly at the realised amounts; increase_liquidity_by_token_amounts_v2 adds the largest fitting liquidity.",
   SVM + " Prices and liquidities are alphabet points plus a complete small box (not all of u128).", "DESIGN.md §3 C08"),
 "C12": (A, "model_checking",
   "instruction-level differential inside an explicit-state search (Pinocchio handler vs Anchor handler from the same pre-state: byte-identical post-ledger, events, errors) + function-level bounded-exhaustive differential + routing conformance against the real entrypoint symbol; failing and edge variants in every state incl. eleven remaining-accounts slice packagings of the v2 instructions",
   "Every increase/decrease transition (v1/v2, fixed/dynamic arrays) of every sequence within the depth bound, plus failing variants in every state, gives byte-identical ledgers/events/error codes through both implementations; function-level agreement over complete products of stated alphabets; harness dispatch == entrypoint.rs for all 66 discriminators.",
   SVM + " The Anchor handlers are invoked through a replica of Anchor's generated dispatcher (the #[program] stubs are unreachable!()). State alphabets instead of all byte contents at function level.", "DESIGN.md §3 C12"),
 "C13": (A, "model_checking",
   "explicit-state search on the codec: complete transition system over a boundary slot set (3^8 states x all ops) + all op sequences <= depth over all 88 slots, 4 real implementations side by side",
   "Dynamic (Anchor + Pinocchio) and fixed (Anchor + Pinocchio) arrays driven with the same update sequences: canonical encoding, identical get_tick / next-initialized answers and errors after every op.",
   "Overlay casts for types without public constructors (same as the program's loaders); bytes beyond the used length unconstrained (not persisted on chain).", "DESIGN.md §3 C13"),
 "C16": (A, "model_checking",
   "function level: bounded-exhaustive enumeration over fee bps x max-fee x amounts x epoch (the schedule entry not in force differs in rate and cap / only in the cap / only in the rate) vs exact reference; handler level: explicit-state search over transfer-fee pools with the real Token-2022 processor, oracles from real balances + H2 trace + events; reposition maxima at the instruction\'s own threshold (new-range requirement + fee on the netted transfer); increase_liquidity_by_token_amounts_v2 judged in every state; a root with a pending fee removal",
   "Function-level: excluded+fee==amount, included is the least pre-image or errors only when none exists, Anchor==Pinocchio, TLV parser == spl-token-2022. Handler-level: every swap / increase / decrease within the depth bound moves exactly the curve amounts into/out of the vault, charges the smallest fee-including amount, applies thresholds and caller bounds to what the user pays/receives, reports the amounts moved; solvency invariant holds.",
   SVM + " One fee schedule per mint at handler level (epoch selection is function-level).", "DESIGN.md §3 C16"),
 "C19": (A, "model_checking",
   "explicit-state search over initialise/set instruction sequences with bound-straddling arguments and bound-reaching swaps (invariant on every Whirlpool/FeeTier/AdaptiveFeeTier/Oracle/Config account of every state) + complete tables: all 2^17 extension subsets x default-state x freeze x 8 badge states (thorough), all u16 setter arguments, validate_constants cross product; representatives end-to-end",
   "Every state reachable within the depth bound keeps all stored parameters in bounds and every out-of-bound argument is refused; admission verdict equals the table for every extension combination and badge state; setters accept exactly in-bound values; validate_constants equals the published rules; end-to-end pool/reward creation succeeds iff admitted.",
   "Table rows the statement does not name follow the code's allow-list (recorded as assumptions in the evidence).", "DESIGN.md §3 C19"),
})

CHECKS.update({
 "C07": (A, "model_checking",
   "explicit-state search in ledger mode: state = real ledger + exact rational shadow ledger of fee entitlements (no merging of histories); two-sided bound at every observation point",
   "For every op sequence up to the completed depth (swaps across/onto/short of bounds both ways, liquidity changes incl. shared and de-initialised bounds, updates, collects; accumulators at 0, mid-range and just below wrap-around; pool starting on a bound): collected+owed of every position is at most its exact pro-rata entitlement and short of it by less than L/2^64 per credited step + 1 per update.",
   SVM + " Hook H2 supplies per-step liquidity/fee and crossings; the active set is re-derived from position ranges and cross-checked against each step's liquidity.", "DESIGN.md §3 C07"),
 "C11": (A, "model_checking",
   "explicit-state search in ledger mode with the harness clock: exact rational shadow ledgers of reward entitlements per position and reward index (upper bound driven by the harness clock alone, lower bound by the harness\'s own record of settling instructions); enabledness oracles for emission changes, collects and earlier timestamps (incl. re-setting and lowering a rate in force after collects drained the vault, through both handlers); the third reward is paid in a Token-2022 mint with a transfer fee (partial payouts), a root in which only the second reward emits, a position beyond a zero-liquidity gap, reward-authority hand-overs; a full-range-only pool whose price is carried out of the usable range and back; a world in which the first reward's interval overflows 128 bits (dropped) while the second must still accrue",
   "For every op sequence up to the completed depth (clock steps, swaps moving positions in/out of range, liquidity changes, updates, collects against a vault holding exactly one day of emissions, emission changes incl. refused ones, late reward initialisation): credited rewards are within the two-sided rounding bound of the exact share; nothing accrues at zero liquidity or for uninitialised rewards; earlier timestamps fail; collect pays min(owed, vault); emission changes settle at the old rate and need a day of emissions.",
   SVM, "DESIGN.md §3 C11"),
 "C15": (A, "fault_enumeration",
   "complete substitution matrix: every account slot of every fund-moving instruction (plus update_fees_and_rewards and set_reward_emissions) x every same-typed foreign account (twin universe, sibling pool / position incl. never-funded ones / reward index / token program) and mutually consistent foreign groups (position + its token account + its tick arrays; config + its authority; a reward index's whole account set), executed on the real program; every writable slot of every judged instruction handed over read-only (must fail or end in the same state); exact-out requests beyond the reserves through a world with a deep and a nearly empty full-range-only pool",
   "Every non-exempt substitution is rejected with the ledger unchanged (16 instructions, SPL and mixed Token-2022 variants, 4-6 root states); exemptions are listed with justification in the evidence.",
   SVM + " Only rejection by some layer is required (a constraint duplicated by the token program cannot be isolated by outcome).", "DESIGN.md §3 C15"),
})

CHECKS.update({
 "C04": (A, "fault_enumeration",
   "complete fault matrix on the real program: every privileged instruction (table checked against lib.rs and the compiled dispatcher) x every wrong-signer / missing-signature / delegate-amount / token-account-state variant, authorities rotated and handed to the all-zero key, reversed attacks (the attacker\'s own object + the victim\'s lock config / bundle account)",
   "All 50 privileged instructions (18 position-token, 32 stored-authority; Anchor- and Pinocchio-dispatched; SPL and Token-2022 flavours; fresh/funded/emptied/locked/bundled states): the instruction succeeds only if the holder, its exactly-one-token delegate or the stored authority signed; every other variant fails and leaves the ledger byte-identical.",
   SVM + " The 16 instructions classified as not privileged are listed with reasons in the evidence; an unclassified instruction fails the run.", "DESIGN.md §3 C04"),
 "C18": (A, "model_checking",
   "explicit-state search against a reference lifecycle machine (enabledness + post-conditions on every transition, ledger == machine in every state) + exhaustive bundle indexes, range-validation and one-sided-bound tables; one-token delegates approved before a lock, the NFT close instruction aimed at bundled positions, locked positions held in a plain (165-byte) Token-2022 account; one-way swaps (fees owed in exactly one token)",
   "All sequences up to the completed depth of open (4 kinds, valid/invalid/sentinel ranges) / increase / decrease / swap-to-earn / update / collect / close / reset / lock / transfer-locked / reposition / bundle ops on ordinary, Token-2022 and bundled positions agree with the lifecycle machine; all 256 bundle indexes; range validation and one-sided bound resolution against brute force (Anchor and Pinocchio).",
   SVM + " Metaplex metadata CPI is a recording stub (DESIGN §7).", "DESIGN.md §3 C18"),
})

CHECKS.update({
 "C10": (A, "model_checking",
   "exhaustive enumeration of initialized-tick layouts (all subsets up to a size bound of 15 boundary slots x 3 arrays) x start states x swap sizes x packagings, every swap executed on the real program; reference traversal from the H2 crossing record; packaging differential; swap histories against an abstract tick set; two-hop packagings (a leg\'s arrays as supplemental accounts); a world whose last usable tick is the first slot of the last array (tick spacing 5000)",
   "For every layout / start state (between ticks, on a tick, shifted) / direction / size in the enumerated space: the crossing record equals exactly the initialized ticks between start and end price, in order, once each; outcome identical across fixed/dynamic/uncreated arrays, account permutations, duplicates and supplemental arrays; arrays that do not reach far enough fail, foreign-pool arrays are rejected. 6 worlds incl. arrays at both tick bounds and a full-range-only pool.",
   SVM + " Hook H2 is trusted for the crossing record; candidate ticks sit on five slots per array; an internal wall cap may cut the largest layouts (then exhaustive=false is reported).", "DESIGN.md §3 C10"),
})

CHECKS.update({
 "C14": (A, "model_checking",
   "explicit-state search over swap / clock sequences on adaptive-fee pools with a per-step oracle from the H2 trace against a reference schedule without the skip optimisation; control-factor-0 twin differential; function-level bounded-exhaustive enumeration of the fee state machine incl. every accumulator at which the uncapped rate crosses a multiple of 2^32; first swap in the life of a pool created away from tick group 0; re-tuning a pool before it opens; two-hop routes through a pool that has not opened yet (judged by C17\'s oracle), incl. a route over two adaptive pools with different opening times; worlds with transfer-fee mints and with sparse tick arrays under a wide position; a fixed history at the lowest tick group (tick spacing 4); variables kept across a change of the tick-group size are a violation",
   "Every recorded step of every swap in every sequence within the depth bound charges the reference rate of every tick group it touches, within [static, 10%], accumulator <= max; stored reference / accumulator / major-swap timestamp follow the documented rules; control factor 0 == static-fee twin; trading refused before the enable time. Function level: 1728 validated constant sets x variable states x elapsed classes, loop walks incl. skipped, saturated and boundary endings.",
   SVM + " Hook H2 is trusted for per-step rate, bounded target and skip flag. Tick spacing 64 and 4 constant sets at instruction level; the wide constant/variable quantifier is carried by the function-level walks.", "DESIGN.md §3 C14"),
})

CHECKS.update({
 "C17": (A, "model_checking",
   "explicit-state search over three pools sharing mints; in every state every two-hop variant (routes x modes x amounts x limits x v1/v2, malformed variants) is executed and compared with the two single swaps executed on a copy; thresholds realised-1/0/+1; every judged two-hop re-run with oracle one / two / both read-only (must fail or end in the same state)",
   "Every two-hop over every reachable pool-pair state within the depth bound leaves a ledger byte-identical to leg one followed by leg two (pools, tick arrays, oracles, vaults, trader accounts, events) and fails exactly when a leg fails alone, the intermediate amounts differ, the pools coincide or share no mint, or the threshold is violated; SPL, Token-2022 and transfer-fee-on-the-intermediate worlds; adaptive-fee pools on a route.",
   SVM + " Quick tier explores depth 1 from two roots; deeper prefixes in the thorough tier (wall-capped under load, reported).", "DESIGN.md §3 C17"),
 "C20": (A, "model_checking",
   "differential inside an explicit-state search: in every state a 60-swap alphabet is executed on the real program and quoted by the Rust core SDK on facades decoded from the same bytes (static, adaptive-fee and transfer-fee pools); function-level enumeration: all ticks both ways, amount/price/fee helpers and liquidity quotes over boundary alphabets; ethnum shim self-check vs num-bigint; liquidity quotes with a transfer fee on one / both mints against the program\'s own fee functions; roots drained to the protocol price bounds; a world on the lowest tick (tick spacing 4); array-edge worlds with tick spacing 1 and 64; a world over an adaptive-fee tier with the reserved index, built only if the program accepts it; quotes by one token amount with a capped transfer fee at several slippage tolerances",
   "Whenever the program's swap succeeds the SDK returns identical in/out/fee; where it refuses, the SDK returns a number only for partial exact-out fills (running off the arrays never produced an SDK number); conversions equal on all 887273 ticks and boundary prices; helpers equal or SDK errors where the program rejects as overflowing; slippage bounds on the safe side. Two recorded findings (quote before trade-enable time; exact-in token_in over a transfer-fee mint) are listed in known_findings.json; two defects were repaired (fix: commits).",
   SVM + " rust-sdk/core is built against a U256 shim (ethnum is not available offline) that is itself checked exhaustively against num-bigint on a value alphabet before use. TypeScript/WASM target not run (same Rust source).", "DESIGN.md §3 C20"),
})

CHECKS.update({
 "C02": (B, "exploration",
   "bounded-exhaustive enumeration: full cross product of boundary alphabets (prices x liquidity x instance-derived amounts x fee rates x modes), complete small boxes (tick box and three one-unit-per-price-unit boxes), U256Muldiv over all operand pairs of a word alphabet; exact rational oracle (num-bigint); near-integer liquidities of tick-price pairs (continued-fraction convergents: exact amount within 2^-32 of an integer, from below and above) and liquidities at the u64 boundary of the amount; liquidity x price width at the 2^128 / 2^192 / 2^193 boundaries of the 256-bit numerator",
   "On every successful step of the enumerated sets: price moves toward and not past the target; input = exact amount rounded up, output = exact amount rounded down (or the smaller request); the step is tight to within one price unit and consumes the whole budget / delivers the whole request when it stops short; U256 division q*d+r==n for every non-zero divisor (a panic there is a violation).",
   "Finite alphabets and boxes, not all of u64 x u128 x price^2 (exhaustive=false); compute_swap and the token-math functions are called directly.", "DESIGN.md §3 C02"),
})

NOT_APPLICABLE = {
}
PENDING_REASON = "check not built yet (build in progress; see DESIGN.md §8)"

checks = []
for i in ids:
    if i not in CHECKS: continue
    eng, cat, tech, text, note, ref = CHECKS[i]
    checks.append({
        "property_id": i,
        "quick_cmd": f"./check {i} quick",
        "thorough_cmd": f"./check {i} thorough",
        "evidence_file": f"/verif/evidence/{i}.json",
        "replay_cmd_template": "./check replay {path}",
        "engine": eng,
        "level_claimed": {"category": cat, "text": text, "design_ref": ref},
        "level_note": note,
        "technique": tech,
    })
na = []
for i in ids:
    if i in CHECKS: continue
    na.append({"property_id": i, "reason": NOT_APPLICABLE.get(i, PENDING_REASON)})

hooks = ["7be8aff", "732d224", "4acf1fe", "e4e4060", "77557f2"]
m = {
 "version": 1,
 "setup_cmd": "cd /verif && ./check build",
 "hooks": {
   "guard": "cargo feature `verif` of programs/whirlpool (off by default)",
   "enable": "the harness workspace depends on /repo/programs/whirlpool by path with features=[\"verif\"]; every ./check rebuilds it from the working tree",
   "baseline_off_cmd": "cd /repo && (cargo nextest run --workspace --no-fail-fast --offline --test-threads 8 || cargo test --workspace --no-fail-fast --offline)",
   "source_commits": hooks,
   "add_only": True,
 },
 "engines": [
   {"name": A, "path": "harness/svm + harness/wpv/src/explore.rs", "serves_properties": [c["property_id"] for c in checks if c["engine"] == A],
    "kind_free_text": "depth-bounded explicit-state search; every transition executes the real program natively (Anchor + Pinocchio paths, real SPL processors for CPI)"},
   {"name": B, "path": "harness/wpv/src/checks", "serves_properties": [c["property_id"] for c in checks if c["engine"] == B],
    "kind_free_text": "bounded-exhaustive enumeration of inputs / codec states of the real functions against exact big-integer reference models"},
 ],
 "checks": checks,
 "not_applicable": na,
 "notes": "All checks: exit 0 held / 1 VIOLATION / 2 machinery failure. Nothing is random; VERIF_SEED is recorded but unused.",
}
json.dump(m, open(os.path.join(ROOT, "MANIFEST.json"), "w"), indent=1)
print("checks:", [c["property_id"] for c in checks], "pending:", len(na))
