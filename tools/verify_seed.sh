#!/bin/bash
# Re-verifies a seeding sub-agent's hand-in inside ITS scratch worktree (never /repo):
#   with the change + demonstration: the repository's suite has failures only in the demonstration module(s);
#   with the change reverted (git apply -R): no failures at all.  The change is re-applied afterwards.
# usage: verify_seed.sh /tmp/seed5_C07      prints a summary; exit 0 iff both hold
set -u
D=$1
cd $D || exit 2
export CARGO_TARGET_DIR=$D/target CARGO_NET_OFFLINE=true
[ -f SEED/patch.diff ] || { echo "no SEED/patch.diff"; exit 2; }
run() { cargo test --workspace --no-fail-fast --offline 2>&1 | grep -E "^test .* (FAILED|failed)$|^test result|^error" ; }
# make sure the change is applied
git apply --check -R SEED/patch.diff 2>/dev/null || git apply SEED/patch.diff || { echo "cannot apply patch"; exit 2; }
w=$(run)
fails_with=$(echo "$w" | grep -E "^test .*FAILED" | sed 's/^test //; s/ \.\.\. FAILED//' | sort)
pass_with=$(echo "$w" | grep "^test result" | sed -E 's/.* ([0-9]+) passed.*/\1/' | paste -sd+ | bc)
git apply -R SEED/patch.diff || { echo "cannot revert"; exit 2; }
wo=$(run)
fails_without=$(echo "$wo" | grep -E "^test .*FAILED" | sort)
pass_without=$(echo "$wo" | grep "^test result" | sed -E 's/.* ([0-9]+) passed.*/\1/' | paste -sd+ | bc)
git apply SEED/patch.diff
echo "with change:    passed=$pass_with failed: $(echo "$fails_with" | tr '\n' ' ')"
echo "without change: passed=$pass_without failed: $(echo "$fails_without" | tr '\n' ' ')"
echo "$w" | grep -qE "^error(\[E|: could not compile)" && { echo "BUILD ERROR with change"; exit 1; }
nfail=$(echo "$fails_with" | grep -c .)
ok=1
[ "$nfail" -ge 1 ] || ok=0
[ -z "$fails_without" ] || ok=0
# every failing test must be one the demonstration added, i.e. the baseline tests all pass: passed_with >= 654
[ "${pass_with:-0}" -ge 654 ] || ok=0
[ $ok = 1 ] && echo "VERIFIED" || echo "NOT VERIFIED"
[ $ok = 1 ]
