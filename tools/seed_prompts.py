#!/usr/bin/env python3
"""Generates the prompts for one wave of independent seeding sub-agents (notes/SEED_BRIEF.md) into <outdir>/<ID>.txt.
usage: seed_prompts.py <wave-tag> <outdir>      e.g. seed_prompts.py seed5 /tmp/seed5_prompts
The prompt contains the property text, the worktree path /tmp/<wave-tag>_<ID>, and one line per earlier seeded change."""
import json, sys, os, glob

USED_EXTRA = {}  # filled from seeded/*/meta.json

STEER5 = {
 "C01": "reposition_liquidity_v2, fee collection (collect_fees v1/v2) and protocol-fee collection, full-range / splash pools, positions spanning several tick arrays, very large liquidity or extreme prices",
 "C02": "the token-B price path (get_next_sqrt_price_from_b), exact-out in token A, fee-rate extremes, the 256-bit multiply / shift helpers and bit_math, rather than the division routine",
 "C03": "v1 two_hop_swap, limits exactly at the protocol bounds, the default limit for 'no limit', interplay of partial fill and thresholds, Token-2022 mints without a fee",
 "C04": "config / fee-tier / adaptive-fee-tier / reward / token-badge / bundle / lock administration instructions (delegated fee authority, initialize-pool authority, reward authority by super authority, feature flags, transfer_locked_position) rather than the liquidity handlers",
 "C05": "the Anchor-side crossing logic inside the swap loop, full-range positions on the MIN/MAX ticks, reposition, tick arrays at the protocol bounds, sign / magnitude extremes of liquidity_net",
 "C06": "adaptive-fee pools, fee rate 0 or the maximum, collect_protocol_fees_v2, the Traded event of two-hop swaps and of v1 versus v2, zero-liquidity gaps",
 "C07": "the Anchor update_fees_and_rewards path, collect_fees(_v2) resetting, reposition / reset of checkpoints, a position opened on ticks that are already initialised, the 'overflow gives 0' rule",
 "C08": "increase_liquidity_by_token_amounts_v2 (its price-slippage bounds and estimate), the below-range / above-range estimate cases, full-range-only pools, very small or very large prices",
 "C09": "individual constants of the positive-tick product, the bounds checks at the MIN/MAX tick, the final comparison that chooses between the two candidate ticks",
 "C10": "start-index derivation in the sparse-swap builder for negative ticks and the shifted state, the fixed array's next-initialized search boundaries, array hand-over with tick spacing 1, the MIN/MAX sentinels",
 "C11": "reward indexes 1 and 2, the v2 reward instructions, positions entering or leaving range between updates, reposition / range reset and reward checkpoints, several rewards with different rates",
 "C12": "reposition_liquidity_v2, rarely used fields of the memory-mapped Position / Whirlpool views (reward index 2, fee_owed_b, reward_last_updated_timestamp), lower and upper tick in the same array account, the locked-position check",
 "C13": "initialize_dynamic_tick_array (incl. its idempotent variant), the Anchor-side resize / rent movement in tick_array_manager, the 64-bit word boundary of the bitmap, arrays with negative start index",
 "C14": "the b-to-a direction of the core-range bounds, is_major_swap and the major-swap timestamp, the time classes of update_reference, how variables are initialised at pool creation, the total-rate cap",
 "C15": "remaining-accounts handling (transfer-hook slices, supplemental tick arrays), token_program_a versus token_program_b in v2 instructions, the memo program, position token account versus position mint, v1 two-hop vaults",
 "C16": "collect_fees_v2 / collect_reward_v2 / collect_protocol_fees_v2 and their events, decrease_liquidity_v2 minima on what the user receives, two_hop_swap_v2's intermediate transfer, the maximum-fee cap path",
 "C17": "v1 two_hop_swap write-back (which pool receives which update), per-leg timestamps and reward growth, assignment of tick-array sequences to the legs, adaptive-fee variables of leg two",
 "C18": "bundled positions (index / bitmap / seeds), open_position_with_token_extensions and its close twin, transfer_locked_position and the lock config, one-sided bound resolution when the price sits exactly on a usable tick",
 "C19": "adaptive-fee tier creation and setters, initialize_fee_tier, the delegated fee-rate setter, the price-bound and tick-spacing rules at pool creation, details of badge gating (e.g. which DefaultAccountState value is 'default')",
 "C20": "SDK liquidity quotes (slippage and transfer fee), the SDK adaptive-fee manager's skip logic, tick-array facade traversal at array edges / negative indexes, try_get_next_sqrt_price_from_b, exact-out quotes",
}

STEER6 = {
 "C01": "how fees credited to positions round (position_manager), many small positions versus one large one, liquidity near the u128 limits or prices near the protocol bounds, the v1 handlers, token amounts near u64::MAX",
 "C02": "the unfixed-side amount (get_amount_unfixed_delta), the overflow recoveries (amounts that exceed u64 mid-computation), a step with zero liquidity, targets equal to the protocol price bounds, exact-out in token B",
 "C03": "validation of the price limit (wrong side, out of bounds, equal to the current price), amount 0, swaps that start at a protocol price bound, swap_v2 with Token-2022 mints that carry no transfer fee",
 "C04": "position-bundle instructions (the bundle token holder is the authority of every bundled position), lock_position, reset_position_range, close_position_with_token_extensions, rewards with index 1 or 2, the Token-2022 position-token branch of the Pinocchio authority check",
 "C05": "decreasing to zero and tick de-initialisation, two positions sharing both bounds, overflow / underflow guards of liquidity_net and liquidity_gross, the tick write-back done by the swap itself, tick spacing 1 and 32768",
 "C06": "exact-out fee computation, a step whose amount runs out exactly on a tick, protocol fee rate changed between swaps, the pre/post price and amounts of the v1 Traded event, the two Traded events of a two-hop swap",
 "C07": "which tick array is used for the lower / upper bound in update_fees_and_rewards and collect, positions whose bounds lie in different tick arrays, the u64 overflow rule of fee_owed, checkpoints on the Pinocchio decrease path, reset_position_range",
 "C08": "the v1 increase / decrease handlers' bounds, conversion of the unsigned liquidity amount into a signed delta, the price-slippage bounds (min / max sqrt price) of increase_liquidity_by_token_amounts_v2, reposition by token amounts",
 "C09": "rejection of ticks / prices outside the bounds, a constant of the negative-tick product, the value at tick 0 and +-1, the conversion between the x96 and x64 representation",
 "C10": "the Anchor fixed array's next-initialized search (a-to-b versus b-to-a asymmetry), validation of the first tick array against the current tick in the v1 swap path, the MIN / MAX tick-array sentinels, a swap whose start tick lies outside the first supplied array",
 "C11": "reward index 2, the emissions vault check for a Token-2022 reward mint, reward checkpoints when a position is decreased to zero or repositioned, collect_reward_v2, growth rounding when liquidity is huge",
 "C12": "the division-free usable-tick offset routine, the memory-mapped position's reward slots 1 and 2, lamports moved between position and tick array, LiquidityOverflow / LiquidityUnderflow error cases, decreasing more than the position holds",
 "C13": "slot offsets for arrays with a negative start index, the Anchor dynamic array's get_tick / update_tick bounds, start-index validity at initialisation, the arrays touching the MIN / MAX tick",
 "C14": "the major-swap threshold, rounding in the decay (reduction factor) arithmetic, the total-rate cap, exact-out swaps on adaptive pools, changing the static rate of an adaptive pool, zero-liquidity gaps inside the skip range",
 "C15": "initialize_reward(_v2) and set_reward_emissions accounts, collect_protocol_fees(_v2) vaults and destinations, close_position / lock_position / transfer_locked_position accounts (lock config PDA), validation of transfer-hook remaining accounts",
 "C16": "the epoch boundary of a scheduled fee change inside swaps, exact-out with a fee on the output mint, reposition with fees on both mints, the fee fields of the LiquidityIncreased / LiquidityDecreased events, amounts where the maximum-fee cap binds",
 "C17": "exact-out through v1, the default price limits per direction when the caller passes 0, the order in which the two pools' tick arrays are consumed, the intermediate-vault handling of v1, same pool in reversed direction",
 "C18": "bundle index bounds and bit order, closing a bundled position that is not open, the metadata variant's mint authority, lock types, resetting to the identical range (must fail), one-sided bounds on full-range-only pools",
 "C19": "the default protocol fee rate at config creation and its setter, fee tiers with tick spacing 0 or above the maximum, the adaptive tier's base fee bound, equal or mis-ordered mints at pool creation, extension data-length handling in the mint admission parser, ConfidentialTransfer-family extensions",
 "C20": "the decrease-liquidity quote, rounding of try_get_amount_delta_b, transfer-fee helpers (apply / reverse), the negative-tick price path, tick-array start index helpers, slippage on exact-out quotes, quotes that run into the protocol price bounds",
}

STEER7 = {
 "C01": "two or more positions sharing ticks when one of them is closed out, swaps stopped by a price limit (partial fills), fee updates of positions that are out of range, the order of protocol-fee collection relative to swaps, collect_fees_v2",
 "C02": "the token-B price function on removal (exact-out), rounding of the multiply-shift helpers, the decision between a full and a partial step when the amounts tie, a fee rate of zero, a target equal to a tick price",
 "C03": "two_hop_swap_v2 thresholds in exact-out, the tick index stored when a swap ends exactly on a tick, limits equal to the protocol bounds, the v1 default limit, amounts of one unit",
 "C04": "authorities of collect_protocol_fees(_v2), set_reward_emissions(_v2) per reward index, initialize_reward(_v2), token-badge creation / deletion, close_bundled_position and delete_position_bundle, open_bundled_position",
 "C05": "reposition when the old and the new range share a tick, a tick fully de-initialised and re-initialised within one instruction, positions with identical ranges, crossing a tick that sits on a tick-array boundary, the current tick exactly on a lower bound",
 "C06": "wrapping of protocol_fee_owed, a step with zero curve input but a non-zero fee, an exact-out swap stopped at its limit, adaptive fees together with the protocol share, the v1 protocol-fee collection",
 "C07": "growth inside when the current tick equals the lower bound exactly, the checkpoint written by collect_fees, an update of a position with zero liquidity, the overflow rule for token B, ticks that are de-initialised and later re-initialised",
 "C08": "netting in reposition, minima on decrease_liquidity_v2, the price bounds of by-token-amounts, a price exactly on the upper bound, exact amounts that need no rounding",
 "C09": "anything in tick_math.rs that the earlier changes did not touch: a bit of one magic constant, the most-significant-bit computation, the precision loop, sign handling",
 "C10": "index hand-over inside the tick sequence, the search when the current tick is the last slot of an array, the dynamic array's search starting from an uninitialised slot, proxies for uninitialised arrays, validation of supplied arrays in v1 versus v2",
 "C11": "order of settlement when the emission rate changes, several operations within the same second, partial payment from an under-funded vault followed by a refill, rewards initialised out of index order, huge rates",
 "C12": "the frozen-account check of the Pinocchio decrease handlers, the reward slots written back to the position, the liquidity written to the pool view, the tick-array loader's discriminator / owner checks, the events the Pinocchio handlers emit",
 "C13": "de-initialising the last initialised tick of a dynamic array, modifying an already initialised tick, ticks that are not multiples of the spacing, the start-index check",
 "C14": "exact-out swaps on adaptive pools, elapsed time exactly equal to the filter or the decay period, rounding of the decayed reference, the variables after a swap that does not move the price, the major-swap timestamp",
 "C15": "vault / mint cross-wiring between the two pools of a two-hop, the oracle of another pool in a two-hop, the position token account's mint in the collect instructions, tick arrays of a sibling pool through the Anchor loader, transfer-hook remaining accounts",
 "C16": "two_hop_swap_v2 with fees on the input, intermediate and output mint, thresholds on fee-adjusted amounts, the Pinocchio included-amount with the cap binding, minima of decrease_liquidity_v2",
 "C17": "the exact-in threshold of v1, the order of the two Traded events, which pool's update is written first, precedence of errors when both legs would fail",
 "C18": "tick validation at open (usable ticks, full-range-only pools), lock_position on an empty position, closing with owed fees, delete_position_bundle with an open position, reset_position_range to an invalid range",
 "C19": "bounds in set_fee_rate_by_delegated_fee_authority, set_default_base_fee_rate, initialize_fee_tier and initialize_adaptive_fee_tier, the specific extension list of the mint admission function",
 "C20": "the SDK's tick-array traversal in the shifted state, its adaptive-fee timestamps and major-swap rule, exact-out partial fills, liquidity quotes at the range bounds, the epoch used for transfer fees",
}

def main():
    tag, outdir = sys.argv[1], sys.argv[2]
    os.makedirs(outdir, exist_ok=True)
    root = os.path.dirname(os.path.dirname(os.path.abspath(__file__)))
    brief = open(os.path.join(root, "notes/SEED_BRIEF.md")).read().split("\n---\n", 1)[1]
    props = [json.loads(l) for l in open(os.path.join(root, "properties.jsonl"))]
    only = set(sys.argv[3].split(",")) if len(sys.argv) > 3 else None
    for p in props:
        pid = p["id"]
        if only and pid not in only:
            continue
        used = []
        for d in sorted(glob.glob(os.path.join(root, "seeded", "*"))):
            try:
                m = json.load(open(os.path.join(d, "meta.json")))
            except Exception:
                continue
            base = os.path.basename(d)
            # property waves are named <ID>[-n]; area waves carry the property their author named in meta.json
            if not (base.split("-")[0] == pid or (base[0] in "AB" and str(m.get("property", "")).strip() == pid)):
                continue
            files = ", ".join(m.get("files", [])) if isinstance(m.get("files"), list) else str(m.get("files"))
            used.append(f"* [{files}] {str(m.get('breaks',''))[:420]}")
        text = (f"{pid} — {p['title']}\n\nStatement: {p['statement']}\n\nQuantified over: {p['quantifier']['text']}\n\n"
                f"Why the existing tests cannot settle it: {p['why_tests_cant']}\n\nWhere it lives: files {', '.join(p['anchors']['files'])}; "
                f"mechanisms: " + "; ".join(f"{m['name']} ({m['where']})" for m in p['anchors']['mechanism']))
        st = STEER5 if tag.startswith("seed5") else STEER6 if tag.startswith("seed6") else STEER7 if tag.startswith("seed7") else None
        if tag.startswith("seed10"):
            st = {k: "whatever the earlier changes left untouched. Favour changes that need a history of three or more operations, or two cooperating edits in different files, or a configuration that is legal but unusual (tick spacings that are not powers of two, reward index 2, several pools of one config, Token-2022 mints with several extensions, positions whose bounds lie in different tick arrays or on array edges, adaptive-fee pools far from tick 0)" for k in STEER7}
        steer = f"Preferably look at parts of the behaviour that none of these touched, for instance: {st[pid]}." if st else ""
        out = (brief.replace("{dir}", f"/tmp/{tag}_{pid}").replace("{property}", text).replace("{used}", "\n".join(used) or "(none)")
               .replace("{steer}", steer).replace("{id}", pid))
        open(os.path.join(outdir, pid + ".txt"), "w").write(out)
        print(pid, len(out))

if __name__ == "__main__":
    main()
