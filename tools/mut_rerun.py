#!/usr/bin/env python3
"""Re-runs the survivors of the mechanical mutation campaign (notes/mut/results_*.jsonl, status 'survived') against the CURRENT
harness: the campaign's lanes work on the copy of the harness taken when they started, so checks strengthened since then have
not seen those mutants. One lane, all 20 quick checks, stopping at the first that reports a violation.
usage: mut_rerun.py <lane> [k n]   -> appends to notes/mut/rerun.jsonl"""
import json, glob, os, subprocess, sys, tempfile
root = os.path.dirname(os.path.dirname(os.path.abspath(__file__)))
lane = sys.argv[1]
k, n = (int(sys.argv[2]), int(sys.argv[3])) if len(sys.argv) > 3 else (0, 1)
out = os.path.join(root, "notes/mut/rerun.jsonl")
done = set()
if os.path.exists(out):
    for l in open(out):
        r = json.loads(l); done.add((r["file"], r["line"], r["op"]))
rs = []
for f in sorted(glob.glob(os.path.join(root, "notes/mut/results_*.jsonl"))):
    for l in open(f):
        r = json.loads(l)
        if r["status"] == "survived":
            rs.append(r)
rs.sort(key=lambda r: (r["file"], r["line"], r["op"]))
for i, r in enumerate(rs):
    if i % n != k or (r["file"], r["line"], r["op"]) in done:
        continue
    src = open(os.path.join("/repo", r["file"])).read().split("\n")
    if src[r["line"] - 1] != r["old"]:
        continue
    new = list(src); new[r["line"] - 1] = r["new"]
    with tempfile.TemporaryDirectory() as td:
        a, b = os.path.join(td, "a"), os.path.join(td, "b")
        open(a, "w").write("\n".join(src)); open(b, "w").write("\n".join(new))
        d = subprocess.run(["diff", "-u", a, b], capture_output=True, text=True).stdout
        d = d.replace("--- " + a, "--- a/" + r["file"]).replace("+++ " + b, "+++ b/" + r["file"])
        pf = os.path.join(td, "m.diff"); open(pf, "w").write(d)
        p = subprocess.run([os.path.join(root, "tools/seedlane.sh"), lane, pf], capture_output=True, text=True, env=dict(os.environ, STOP_FIRST="1"))
    caught = [l for l in p.stdout.split("\n") if l.startswith("CAUGHT:")]
    missed = [l for l in p.stdout.split("\n") if l.startswith("MISSED:")]
    res = {"file": r["file"], "line": r["line"], "op": r["op"], "old": r["old"].strip(), "new": r["new"].strip(),
           "caught": caught[0][7:].split() if caught else [], "missed": missed[0][7:].split() if missed else [], "build_failed": "BUILD FAILED" in p.stdout}
    open(out, "a").write(json.dumps(res) + "\n")
    print(res["file"], res["line"], res["caught"], flush=True)
