#!/usr/bin/env python3
"""Prints a markdown table of what the last run of every check covered (from evidence/*.json) — used for DESIGN.md §10.8."""
import json, os
root = os.path.dirname(os.path.dirname(os.path.abspath(__file__)))
def n(x):
    if x is None:
        return ""
    x = int(x)
    if x >= 10_000_000:
        return f"{x/1e6:.0f} M"
    if x >= 1_000_000:
        return f"{x/1e6:.1f} M"
    if x >= 10_000:
        return f"{x/1e3:.0f} k"
    return str(x)
print("| id | level | tier | wall | depth | states | transitions (validated) | function-level evaluations (distinct non-trivial) | worlds |")
print("|---|---|---|---|---|---|---|---|---|")
for i in range(1, 21):
    e = json.load(open(os.path.join(root, f"evidence/C{i:02d}.json")))
    c = e["coverage"]
    ws = c.get("worlds")
    wn = ""
    if isinstance(ws, list):
        names = [w.get("world") for w in ws if isinstance(w, dict) and w.get("world")]
        wn = ", ".join(dict.fromkeys(names))[:120]
    tr = n(c.get("transitions")) + (f" ({n(c.get('traces_validated_against_impl'))})" if c.get("traces_validated_against_impl") is not None else "")
    ev = n(c.get("evaluations")) + (f" ({n(c.get('distinct_nontrivial'))})" if c.get("distinct_nontrivial") is not None and c.get("evaluations") is not None else "")
    print(f"| {e['property_id']} | {e['level']} | {e['tier']} | {e['wall_s']:.0f} s | {c.get('depth_completed','')} | {n(c.get('states'))} | {tr} | {ev} | {wn} |")
