#!/bin/bash
# Runs quick (or $TIER) checks against a patch WITHOUT touching /repo: a private lane = git worktree of /repo + copy of the harness
# whose path dependencies point into the lane.   usage: seedlane.sh <lane-name> <patch.diff|none> [ID ...]   (default: all 20)
# env: TIER=quick|thorough   KEEP=1 keeps the lane's repo patched afterwards.   Remove a lane with: seedlane.sh <lane> --remove
set -u
if [ "$1" = "snapshot" ]; then mkdir -p /tmp/verif_snapshot && rsync -a --delete --exclude target /verif/harness/ /tmp/verif_snapshot/harness/ && rsync -a --delete /verif/shims/ /tmp/verif_snapshot/shims/ && cp /verif/known_findings.json /tmp/verif_snapshot/ && echo "snapshot of the harness at $(git -C /verif rev-parse --short HEAD) in /tmp/verif_snapshot"; exit 0; fi
lane=$1; patch=$2; shift 2
W=/tmp/vlane_$lane
if [ "$patch" = "--remove" ]; then git -C /repo worktree remove --force $W/repo 2>/dev/null; rm -rf $W; git -C /repo worktree prune; exit 0; fi
tier=${TIER:-quick}
mkdir -p $W
[ -d $W/repo ] || git -C /repo worktree add --detach $W/repo HEAD >/dev/null 2>&1 || { echo "cannot create worktree"; exit 2; }
git -C $W/repo checkout -q --detach $(git -C /repo rev-parse HEAD) 2>/dev/null
git -C $W/repo checkout -q -- . ; git -C $W/repo clean -fdq -e target -e SEED
# HARNESS_SRC: where the harness is copied from (default: the working tree; long regressions use a frozen snapshot made by
# `tools/seedlane.sh snapshot` so that edits in progress never reach a lane)
SRC=${HARNESS_SRC:-/verif}
rsync -a --delete --exclude target $SRC/harness/ $W/harness/ && rsync -a $SRC/shims/ $W/shims/ && cp $SRC/known_findings.json $W/
sed -i "s#\"/repo/#\"$W/repo/#g" $W/harness/Cargo.toml
if [ "$patch" != "none" ]; then git -C $W/repo apply "$patch" || { echo "patch does not apply"; exit 2; }; fi
cd $W/harness || exit 2
export CARGO_NET_OFFLINE=true VERIF_ROOT=$W
if ! cargo build --release --offline > $W/build.log 2>&1; then echo "BUILD FAILED"; grep -E "^error" -A8 $W/build.log | head -40; exit 2; fi
ids="$*"; [ -z "$ids" ] && ids=$(seq -f "C%02g" 1 20)
caught=""; missed=""
for id in $ids; do
  s=$(date +%s)
  out=$(./target/release/wpv check $id --tier $tier 2>&1); code=$?
  e=$(( $(date +%s) - s ))
  line=$(echo "$out" | grep -m1 -E 'VIOLATION|MACHINERY' )
  det=$(echo "$out" | grep -m1 -E 'detail:' | cut -c1-400)
  echo "$id exit=$code ${e}s $line"
  [ -n "$det" ] && echo "     $det"
  if [ $code -eq 1 ]; then caught="$caught $id"; [ "${STOP_FIRST:-0}" = 1 ] && break; elif [ $code -eq 0 ]; then missed="$missed $id"; else missed="$missed $id(exit$code)"; fi
done
echo "CAUGHT:$caught"
echo "MISSED:$missed"
[ "${KEEP:-0}" = 1 ] || { git -C $W/repo checkout -q -- . ; }
