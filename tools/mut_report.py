#!/usr/bin/env python3
"""Summarises notes/mut/results_*.jsonl (tools/mutate.py): status counts, which check killed how many, survivors."""
import json, glob, collections, sys, os
root = os.path.dirname(os.path.dirname(os.path.abspath(__file__)))
rs = []
for f in sorted(glob.glob(os.path.join(root, "notes/mut/results_*.jsonl"))):
    for l in open(f):
        try:
            rs.append(json.loads(l))
        except Exception:
            pass
c = collections.Counter(r["status"] for r in rs)
print("mutants evaluated:", len(rs), dict(c))
first = collections.Counter()
anyk = collections.Counter()
for r in rs:
    for k in r.get("killed_by", [])[:1]:
        first[k] += 1
    for k in r.get("killed_by", []):
        anyk[k] += 1
print("first killer:", dict(sorted(first.items())))
crash = [r for r in rs if r["status"].startswith("survived") and r.get("other")]
print("survivors:", sum(1 for r in rs if r["status"] == "survived"), " of which with machinery exits (exit 2 / crash: broken happy path):", sum(1 for r in crash if r["status"] == "survived"))
print("survived but the repository's own tests fail:", c.get("survived_tests_fail", 0))
if "-v" in sys.argv:
    for r in rs:
        if r["status"].startswith("survived"):
            print(f"  {r['status']:20s} {r['file']}:{r['line']}  {r['op'][:28]:28s} other={list(r.get('other', {}).keys())}")
            print(f"       - {r['old'].strip()[:150]}")
            print(f"       + {r['new'].strip()[:150]}")
