#!/bin/bash
# Runs every claimed check (tier $1, default quick) on the current tree, then validates MANIFEST and evidence against the schemas.
cd "$(dirname "$0")/.." || exit 2
tier=${1:-quick}
ids=$(python3 -c "import json;print(' '.join(c['property_id'] for c in json.load(open('MANIFEST.json'))['checks']))")
rc=0
for id in $ids; do
  s=$(date +%s)
  out=$(./check $id $tier 2>&1); code=$?
  e=$(( $(date +%s) - s ))
  echo "$id $tier exit=$code ${e}s $(echo "$out" | grep -m1 -E 'VIOLATION|KNOWN-FINDING|MACHINERY' )"
  [ $code -ne 0 ] && rc=1
done
python3-vt - <<'PY'
import json,jsonschema,glob
jsonschema.validate(json.load(open('MANIFEST.json')),json.load(open('/root/.vp/MANIFEST.schema.json')))
es=json.load(open('/root/.vp/EVIDENCE.schema.json'))
ids=[c['property_id'] for c in json.load(open('MANIFEST.json'))['checks']]
bad=0
for i in ids:
    f=f'evidence/{i}.json'
    try:
        e=json.load(open(f)); jsonschema.validate(e,es)
        lvl=[c for c in json.load(open('MANIFEST.json'))['checks'] if c['property_id']==i][0]['level_claimed']['category']
        if e['level']!=lvl: print(f,'LEVEL MISMATCH',e['level'],lvl); bad+=1
    except Exception as ex: print(f,'INVALID',str(ex)[:150]); bad+=1
print('evidence files valid' if not bad else f'{bad} evidence problems')
PY
exit $rc
