#!/usr/bin/env python3
"""Prompts for an AREA-based seeding wave: each sub-agent is assigned a part of the source tree (not a property), receives the
statements of all 20 properties, and is asked for a change inside its area that breaks any one of them.
usage: seed_prompts_area.py <wave-tag> <outdir>     worktrees: /tmp/<wave-tag>_A<nn>"""
import json, sys, os, glob
AREAS = [
 ("A01", ["programs/whirlpool/src/pinocchio/utils/"]),
 ("A02", ["programs/whirlpool/src/pinocchio/ported/util_token.rs", "programs/whirlpool/src/pinocchio/ported/util_shared.rs", "programs/whirlpool/src/pinocchio/ported/util_remaining_accounts_utils.rs"]),
 ("A03", ["programs/whirlpool/src/pinocchio/instructions/reposition_liquidity_v2.rs", "programs/whirlpool/src/pinocchio/instructions/increase_liquidity_by_token_amounts_v2.rs"]),
 ("A04", ["programs/whirlpool/src/pinocchio/instructions/decrease_liquidity.rs", "programs/whirlpool/src/pinocchio/instructions/decrease_liquidity_v2.rs", "programs/whirlpool/src/pinocchio/instructions/increase_liquidity.rs", "programs/whirlpool/src/pinocchio/instructions/increase_liquidity_v2.rs"]),
 ("A05", ["programs/whirlpool/src/pinocchio/state/whirlpool/whirlpool.rs", "programs/whirlpool/src/pinocchio/state/whirlpool/position.rs", "programs/whirlpool/src/pinocchio/state/whirlpool/tick_array/loader.rs"]),
 ("A06", ["programs/whirlpool/src/pinocchio/state/token/"]),
 ("A07", ["programs/whirlpool/src/util/v2/"]),
 ("A08", ["programs/whirlpool/src/util/shared.rs", "programs/whirlpool/src/util/token.rs", "programs/whirlpool/src/util/token_2022.rs", "programs/whirlpool/src/util/swap_utils.rs"]),
 ("A09", ["programs/whirlpool/src/instructions/collect_fees.rs", "programs/whirlpool/src/instructions/collect_reward.rs", "programs/whirlpool/src/instructions/collect_protocol_fees.rs", "programs/whirlpool/src/instructions/v2/collect_fees.rs", "programs/whirlpool/src/instructions/v2/collect_reward.rs", "programs/whirlpool/src/instructions/v2/collect_protocol_fees.rs", "programs/whirlpool/src/instructions/update_fees_and_rewards.rs"]),
 ("A10", ["programs/whirlpool/src/instructions/open_position.rs", "programs/whirlpool/src/instructions/open_position_with_metadata.rs", "programs/whirlpool/src/instructions/open_position_with_token_extensions.rs", "programs/whirlpool/src/instructions/close_position.rs", "programs/whirlpool/src/instructions/close_position_with_token_extensions.rs", "programs/whirlpool/src/instructions/reset_position_range.rs"]),
 ("A11", ["programs/whirlpool/src/instructions/initialize_position_bundle.rs", "programs/whirlpool/src/instructions/open_bundled_position.rs", "programs/whirlpool/src/instructions/close_bundled_position.rs", "programs/whirlpool/src/instructions/delete_position_bundle.rs", "programs/whirlpool/src/state/position_bundle.rs"]),
 ("A12", ["programs/whirlpool/src/instructions/lock_position.rs", "programs/whirlpool/src/instructions/transfer_locked_position.rs", "programs/whirlpool/src/state/lock_config.rs"]),
 ("A13", ["programs/whirlpool/src/instructions/adaptive_fee/", "programs/whirlpool/src/state/adaptive_fee_tier.rs"]),
 ("A14", ["programs/whirlpool/src/instructions/initialize_pool.rs", "programs/whirlpool/src/instructions/v2/initialize_pool.rs", "programs/whirlpool/src/instructions/initialize_reward.rs", "programs/whirlpool/src/instructions/v2/initialize_reward.rs", "programs/whirlpool/src/instructions/set_reward_emissions.rs", "programs/whirlpool/src/instructions/v2/set_reward_emissions.rs", "programs/whirlpool/src/instructions/initialize_fee_tier.rs", "programs/whirlpool/src/instructions/initialize_config.rs", "programs/whirlpool/src/state/config.rs", "programs/whirlpool/src/state/fee_tier.rs"]),
 ("A15", ["programs/whirlpool/src/manager/tick_array_manager.rs", "programs/whirlpool/src/pinocchio/ported/manager_tick_array_manager.rs", "programs/whirlpool/src/instructions/initialize_tick_array.rs", "programs/whirlpool/src/instructions/initialize_dynamic_tick_array.rs", "programs/whirlpool/src/state/zeroed_tick_array.rs", "programs/whirlpool/src/state/tick_array.rs"]),
 ("A16", ["programs/whirlpool/src/state/whirlpool.rs", "programs/whirlpool/src/state/position.rs", "programs/whirlpool/src/state/tick.rs", "programs/whirlpool/src/state/fixed_tick_array.rs"]),
 ("A17", ["programs/whirlpool/src/state/oracle.rs", "programs/whirlpool/src/manager/fee_rate_manager.rs"]),
 ("A18", ["rust-sdk/core/src/quote/"]),
 ("A19", ["rust-sdk/core/src/math/"]),
 ("A20", ["programs/whirlpool/src/manager/whirlpool_manager.rs", "programs/whirlpool/src/manager/position_manager.rs", "programs/whirlpool/src/manager/liquidity_manager.rs", "programs/whirlpool/src/instructions/swap.rs", "programs/whirlpool/src/instructions/v2/swap.rs", "programs/whirlpool/src/instructions/two_hop_swap.rs", "programs/whirlpool/src/instructions/v2/two_hop_swap.rs"]),
]

AREAS9 = [
 ("B01", ["programs/whirlpool/src/lib.rs", "programs/whirlpool/src/entrypoint.rs"]),
 ("B02", ["programs/whirlpool/src/pinocchio/cpi/", "programs/whirlpool/src/pinocchio/events.rs", "programs/whirlpool/src/events.rs"]),
 ("B03", ["programs/whirlpool/src/pinocchio/ported/manager_liquidity_manager.rs"]),
 ("B04", ["programs/whirlpool/src/pinocchio/ported/position.rs", "programs/whirlpool/src/pinocchio/ported/manager_tick_array_manager.rs", "programs/whirlpool/src/pinocchio/constants/"]),
 ("B05", ["programs/whirlpool/src/pinocchio/state/whirlpool/tick_array/"]),
 ("B06", ["programs/whirlpool/src/state/dynamic_tick_array.rs", "programs/whirlpool/src/state/fixed_tick_array.rs", "programs/whirlpool/src/state/tick_array.rs"]),
 ("B07", ["programs/whirlpool/src/util/sparse_swap.rs", "programs/whirlpool/src/util/swap_tick_sequence.rs"]),
 ("B08", ["programs/whirlpool/src/manager/swap_manager.rs", "programs/whirlpool/src/math/swap_math.rs"]),
 ("B09", ["programs/whirlpool/src/manager/tick_manager.rs", "programs/whirlpool/src/manager/position_manager.rs"]),
 ("B10", ["programs/whirlpool/src/math/token_math.rs", "programs/whirlpool/src/math/liquidity_math.rs", "programs/whirlpool/src/math/bit_math.rs", "programs/whirlpool/src/math/u256_math.rs"]),
 ("B11", ["programs/whirlpool/src/instructions/set_fee_rate.rs", "programs/whirlpool/src/instructions/set_protocol_fee_rate.rs", "programs/whirlpool/src/instructions/set_default_fee_rate.rs", "programs/whirlpool/src/instructions/set_default_protocol_fee_rate.rs", "programs/whirlpool/src/instructions/set_fee_authority.rs", "programs/whirlpool/src/instructions/set_collect_protocol_fees_authority.rs", "programs/whirlpool/src/instructions/set_reward_authority.rs", "programs/whirlpool/src/instructions/set_reward_authority_by_super_authority.rs", "programs/whirlpool/src/instructions/set_reward_emissions_super_authority.rs", "programs/whirlpool/src/instructions/set_config_feature_flag.rs", "programs/whirlpool/src/instructions/migrate_repurpose_reward_authority_space.rs"]),
 ("B12", ["programs/whirlpool/src/instructions/v2/initialize_token_badge.rs", "programs/whirlpool/src/instructions/v2/delete_token_badge.rs", "programs/whirlpool/src/instructions/v2/set_token_badge_attribute.rs", "programs/whirlpool/src/instructions/v2/set_token_badge_authority.rs", "programs/whirlpool/src/instructions/v2/initialize_config_extension.rs", "programs/whirlpool/src/instructions/v2/set_config_extension_authority.rs", "programs/whirlpool/src/state/token_badge.rs", "programs/whirlpool/src/state/config_extension.rs"]),
 ("B13", ["programs/whirlpool/src/instructions/swap.rs", "programs/whirlpool/src/instructions/v2/swap.rs"]),
 ("B14", ["programs/whirlpool/src/instructions/two_hop_swap.rs", "programs/whirlpool/src/instructions/v2/two_hop_swap.rs"]),
 ("B15", ["programs/whirlpool/src/instructions/open_bundled_position.rs", "programs/whirlpool/src/instructions/initialize_position_bundle.rs", "programs/whirlpool/src/instructions/delete_position_bundle.rs", "programs/whirlpool/src/util/token.rs"]),
 ("B16", ["programs/whirlpool/src/instructions/lock_position.rs", "programs/whirlpool/src/instructions/close_position_with_token_extensions.rs", "programs/whirlpool/src/util/token_2022.rs"]),
 ("B17", ["programs/whirlpool/src/manager/whirlpool_manager.rs", "programs/whirlpool/src/manager/liquidity_manager.rs", "programs/whirlpool/src/manager/tick_array_manager.rs"]),
 ("B18", ["programs/whirlpool/src/state/oracle.rs", "programs/whirlpool/src/state/adaptive_fee_tier.rs", "programs/whirlpool/src/instructions/adaptive_fee/set_adaptive_fee_constants.rs", "programs/whirlpool/src/instructions/adaptive_fee/set_fee_rate_by_delegated_fee_authority.rs"]),
 ("B19", ["rust-sdk/core/src/quote/liquidity.rs", "rust-sdk/core/src/math/token.rs", "rust-sdk/core/src/math/tick.rs"]),
 ("B20", ["rust-sdk/core/src/quote/swap.rs", "rust-sdk/core/src/math/tick_array.rs", "rust-sdk/core/src/math/adaptive_fee.rs"]),
]
# wave 11: by ENTRY POINT (instruction or SDK function) instead of by file
ENTRY11 = [
 ("D01", ["swap (legacy instruction)"]),
 ("D02", ["swap_v2"]),
 ("D03", ["two_hop_swap (legacy instruction)"]),
 ("D04", ["two_hop_swap_v2"]),
 ("D05", ["increase_liquidity", "increase_liquidity_v2"]),
 ("D06", ["increase_liquidity_by_token_amounts_v2"]),
 ("D07", ["decrease_liquidity", "decrease_liquidity_v2"]),
 ("D08", ["reposition_liquidity_v2"]),
 ("D09", ["collect_fees", "collect_fees_v2", "update_fees_and_rewards"]),
 ("D10", ["collect_reward", "collect_reward_v2", "initialize_reward", "initialize_reward_v2", "set_reward_emissions", "set_reward_emissions_v2"]),
 ("D11", ["collect_protocol_fees", "collect_protocol_fees_v2", "set_protocol_fee_rate", "set_fee_rate", "set_default_fee_rate", "set_default_protocol_fee_rate"]),
 ("D12", ["open_position", "open_position_with_metadata", "open_position_with_token_extensions", "close_position", "close_position_with_token_extensions"]),
 ("D13", ["initialize_position_bundle", "initialize_position_bundle_with_metadata", "open_bundled_position", "close_bundled_position", "delete_position_bundle"]),
 ("D14", ["lock_position", "transfer_locked_position", "reset_position_range"]),
 ("D15", ["initialize_pool", "initialize_pool_v2", "initialize_pool_with_adaptive_fee"]),
 ("D16", ["initialize_tick_array", "initialize_dynamic_tick_array (incl. its idempotent mode)"]),
 ("D17", ["initialize_adaptive_fee_tier", "set_adaptive_fee_constants", "set_fee_rate_by_delegated_fee_authority", "set_delegated_fee_authority", "set_initialize_pool_authority", "set_preset_adaptive_fee_constants", "set_default_base_fee_rate"]),
 ("D18", ["initialize_token_badge", "delete_token_badge", "set_token_badge_attribute", "set_token_badge_authority", "initialize_config_extension", "set_config_extension_authority", "set_config_feature_flag"]),
 ("D19", ["rust-sdk/core: swap_quote_by_input_token, swap_quote_by_output_token (and what they call)"]),
 ("D20", ["rust-sdk/core: increase_liquidity_quote*, decrease_liquidity_quote*, tick_index_to_sqrt_price, sqrt_price_to_tick_index, try_get_amount_delta_a/b (and what they call)"]),
]

def main11(tag, outdir):
    os.makedirs(outdir, exist_ok=True)
    root = os.path.dirname(os.path.dirname(os.path.abspath(__file__)))
    brief = open(os.path.join(root, "notes/SEED_BRIEF.md")).read().split("\n---\n", 1)[1]
    props = [json.loads(l) for l in open(os.path.join(root, "properties.jsonl"))]
    metas = []
    for d in sorted(glob.glob(os.path.join(root, "seeded", "[CAB]*"))):
        try:
            m = json.load(open(os.path.join(d, "meta.json")))
        except Exception:
            continue
        metas.append((os.path.basename(d), str(m.get("breaks", ""))[:260]))
    plist = "\n".join(f"* {p['id']} — {p['title']}. {p['statement']}" for p in props)
    for aid, entries in ENTRY11:
        keys = [e.split(" ")[0].split(":")[0] for e in entries]
        used = [f"* {b}" for n, b in metas if any(k.lower() in b.lower() for k in keys)]
        d = f"/tmp/{tag}_{aid}"
        text = ("This time you are not given one property but a set of ENTRY POINTS. The repository is expected to satisfy all of the "
                "following properties (each must hold for every input, history and configuration):\n\n" + plist +
                "\n\nYour assigned entry points:\n" + "\n".join(f"  - {e}" for e in entries) +
                "\n\nYour change may be made anywhere in the code these entry points execute (the dispatcher, the accounts struct and its "
                "constraints, the Anchor or Pinocchio handler, managers, state methods, math, utilities), but it must manifest THROUGH one of "
                "them: a user who only ever calls other entry points must not be able to notice it. Pick whichever of the properties above "
                "your change breaks, and say which one in meta.json (\"property\": \"Cxx\").")
        out = (brief.replace("{dir}", d).replace("{property}", text).replace("{used}", "\n".join(used[:40]) or "(none recorded for these entry points)")
               .replace("{steer}", "Strongly preferred: a change whose effect depends on HISTORY or CONFIGURATION - it shows only after a particular sequence of at least "
                        "three instructions, or only for an unusual but legal pool / mint / position configuration, or only for one of several account "
                        "encodings - and that a reviewer reading the diff would take for a harmless tidy-up.")
               .replace("{id}", "Cxx"))
        out = out.replace("Earlier changes written against this property are listed here", "Earlier changes that mention these entry points are listed here")
        open(os.path.join(outdir, aid + ".txt"), "w").write(out)
        print(aid, len(out), len(used))

# wave 12: by REFUSAL (error condition) - the checks that protect the properties
REFUSALS12 = [
 ("E01", ["InvalidStartTick", "TickArrayExistInPool", "TickArrayIndexOutofBounds", "InvalidTickSpacing"]),
 ("E02", ["ClosePositionNotEmpty", "SameTickRangeNotAllowed", "InvalidTickIndex"]),
 ("E03", ["SqrtPriceOutOfBounds", "InvalidSqrtPriceLimitDirection", "PartialFillError", "ZeroTradableAmount"]),
 ("E04", ["LiquidityZero", "LiquidityTooHigh", "LiquidityOverflow", "LiquidityUnderflow", "LiquidityNetError"]),
 ("E05", ["TokenMaxExceeded", "TokenMinSubceeded", "PriceSlippageOutOfBounds"]),
 ("E06", ["MissingOrInvalidDelegate", "InvalidPositionTokenAmount"]),
 ("E07", ["InvalidTimestamp", "InvalidTimestampConversion", "RewardNotInitialized", "InvalidRewardIndex", "RewardVaultAmountInsufficient"]),
 ("E08", ["FeeRateMaxExceeded", "ProtocolFeeRateMaxExceeded", "InvalidFeeTierIndex"]),
 ("E09", ["InvalidTickArraySequence", "TickArraySequenceInvalidIndex", "DifferentWhirlpoolTickArrayAccount", "TooManySupplementalTickArrays"]),
 ("E10", ["AmountOutBelowMinimum", "AmountInAboveMaximum", "IntermediateTokenAmountMismatch"]),
 ("E11", ["InvalidIntermediaryMint", "DuplicateTwoHopPool", "InvalidTokenMintOrder"]),
 ("E12", ["InvalidBundleIndex", "BundledPositionAlreadyOpened", "BundledPositionAlreadyClosed", "PositionBundleNotDeletable"]),
 ("E13", ["UnsupportedTokenMint", "FeatureIsNotEnabled", "PositionWithTokenExtensionsRequired"]),
 ("E14", ["RemainingAccountsInvalidSlice", "RemainingAccountsInsufficient", "RemainingAccountsDuplicatedAccountsType", "NoExtraAccountsForTransferHook"]),
 ("E15", ["TransferFeeCalculationError", "AmountCalcOverflow", "AmountRemainingOverflow"]),
 ("E16", ["MultiplicationShiftRightOverflow", "MulDivOverflow", "MulDivInvalidInput", "MultiplicationOverflow", "DivideByZero", "NumberCastError", "NumberDownCastError", "TickNotFound"]),
 ("E17", ["FullRangeOnlyPool", "PositionNotLockable", "OperationNotAllowedOnLockedPosition"]),
 ("E18", ["InvalidAdaptiveFeeConstants", "AdaptiveFeeConstantsUnchanged", "InvalidTradeEnableTimestamp", "TradeIsNotEnabled"]),
 ("E19", ["the Anchor framework refusals raised by `#[account(...)]` constraints (ConstraintSeeds, ConstraintHasOne, ConstraintAddress, ConstraintTokenMint, ConstraintRaw, ConstraintMut, AccountOwnedByWrongProgram, ...) in the accounts structs of the liquidity, collect, swap and position instructions, and their hand-written counterparts in the Pinocchio handlers"]),
 ("E20", ["the error results of rust-sdk/core (ARITHMETIC_OVERFLOW, AMOUNT_EXCEEDS_MAX_U64, SQRT_PRICE_OUT_OF_BOUNDS, TICK_SEQUENCE_EMPTY, INVALID_TICK_ARRAY_SEQUENCE, ZERO_TRADABLE_AMOUNT, INVALID_SQRT_PRICE_LIMIT_DIRECTION, TICK_ARRAY_NOT_EVENLY_SPACED, ... see rust-sdk/core/src/constants/error.rs)"]),
]

def main12(tag, outdir):
    os.makedirs(outdir, exist_ok=True)
    root = os.path.dirname(os.path.dirname(os.path.abspath(__file__)))
    brief = open(os.path.join(root, "notes/SEED_BRIEF.md")).read().split("\n---\n", 1)[1]
    props = [json.loads(l) for l in open(os.path.join(root, "properties.jsonl"))]
    metas = []
    for d in sorted(glob.glob(os.path.join(root, "seeded", "[CABD]*"))):
        try:
            m = json.load(open(os.path.join(d, "meta.json")))
        except Exception:
            continue
        metas.append((os.path.basename(d), str(m.get("breaks", ""))[:260]))
    plist = "\n".join(f"* {p['id']} — {p['title']}. {p['statement']}" for p in props)
    for aid, errs in REFUSALS12:
        keys = [e for e in errs if " " not in e]
        used = [f"* {b}" for n, b in metas if any(k.lower() in b.lower() for k in keys)]
        d = f"/tmp/{tag}_{aid}"
        text = ("This time you are not given one property but a set of REFUSALS - error conditions the program (or SDK) raises to protect its "
                "properties. The repository is expected to satisfy all of the following properties (each must hold for every input, history "
                "and configuration):\n\n" + plist +
                "\n\nYour assigned refusals (see programs/whirlpool/src/errors.rs for the program's error codes):\n" + "\n".join(f"  - {e}" for e in errs) +
                "\n\nFind where these refusals are raised (Anchor handlers and accounts structs, Pinocchio handlers, managers, state methods, "
                "math) and make a change after which ONE of them is, in some specific situation, no longer raised when it should be, raised "
                "only after state has already been changed, evaluated against the wrong or a stale value, or skipped on one of several code "
                "paths that should all raise it - so that one of the properties above breaks. Pick whichever property your change breaks, and "
                "say which one in meta.json (\"property\": \"Cxx\").")
        out = (brief.replace("{dir}", d).replace("{property}", text).replace("{used}", "\n".join(used[:40]) or "(none recorded for these refusals)")
               .replace("{steer}", "The situation in which the refusal goes missing must be narrow: the ordinary inputs that trigger it must still be refused "
                        "(a check that simply disappears is noticed at once). Good shapes: a refusal that still fires on the common path but not on the "
                        "v1/v2/Pinocchio twin, not for one account encoding, not at one boundary value, not after a particular history, or not when "
                        "another optional account is present.")
               .replace("{id}", "Cxx"))
        out = out.replace("Earlier changes written against this property are listed here", "Earlier changes that mention these refusals are listed here")
        open(os.path.join(outdir, aid + ".txt"), "w").write(out)
        print(aid, len(out), len(used))

# wave 13: by ACCOUNT TYPE / cross-cutting concern (how a kind of state is created, sized, read, written back, closed)
CONCERNS13 = [
 ("F01", "the Whirlpool account: how it is created and initialised (all three pool initialisers), its extension segments / control flags, the reward_infos array layout, and every place that writes it back (Anchor exit, Pinocchio memory-mapped view)"),
 ("F02", "the Position account: creation (all open_* instructions incl. bundled), its checkpoints and owed amounts, reset, close, and both its Anchor and Pinocchio memory-mapped views"),
 ("F03", "the FixedTickArray account: zero-copy layout, loaders (Anchor `load_tick_array_mut`, sparse-swap loading, Pinocchio view), initialisation, and the zeroed / uninitialised-array proxies used by swaps"),
 ("F04", "the DynamicTickArray account: variable-length encoding, bitmap, resize and rent top-up / hand-back, initialisation (incl. idempotent mode), Anchor and Pinocchio codecs"),
 ("F05", "the Oracle account: creation with the pool, PDA derivation, `OracleAccessor` (load / load_mut, the 'no oracle' case), constants vs variables, trade-enable timestamp"),
 ("F06", "the FeeTier and AdaptiveFeeTier accounts: creation, their fields' bounds, which pool parameters are copied from them at pool creation, and the authorities stored in AdaptiveFeeTier"),
 ("F07", "the WhirlpoolsConfig and WhirlpoolsConfigExtension accounts: creation, authorities, feature flags, and every `has_one` / `address =` that ties another account to a config"),
 ("F08", "token vaults and reward vaults: how they are created (PDA / keypair, authority = pool), which constraint ties each to its pool and mint / reward index, and how transfers out of them are signed"),
 ("F09", "position NFTs: the position mint, its token account and metadata (SPL and Token-2022 variants): supply, mint / freeze authority, extensions, burn and close at close_position*, and the bundle NFT"),
 ("F10", "PositionBundle and LockConfig accounts: creation, bitmap, deletion; lock records, their link to position and owner, transfer of locked positions"),
 ("F11", "TokenBadge accounts and the admission check of mints (`is_supported_token_mint`, token-badge attributes) at pool and reward creation"),
 ("F12", "events: the Anchor `emit!` events and the Pinocchio-encoded events of swaps and liquidity instructions - which values are put into which field, before/after amounts, transfer-fee fields"),
 ("F13", "lamports and rent: who funds account creation, where rent goes when accounts are closed or shrunk, rent-exemption checks on resize, position / tick-array rent hand-back"),
 ("F14", "clock and timestamps: every use of `Clock::get()` - reward clock, oracle timestamps, lock timestamp, trade-enable time - and conversions between i64 / u64 / u32 time values"),
 ("F15", "remaining accounts: supplemental tick arrays of swaps and two-hop swaps, transfer-hook account slices, their parsing and how they are handed on (Anchor side)"),
 ("F16", "token transfer plumbing: `transfer_from_owner_to_vault(_v2)`, `transfer_from_vault_to_owner(_v2)`, memo handling, transfer-fee lookup per epoch, Pinocchio CPI builders for Token / Token-2022 / Memo"),
 ("F17", "integer width and sign conversions across the program: u128/u64/i128/i32 casts, `as` conversions, checked vs wrapping arithmetic in managers and state methods (not in the math core files token_math.rs / swap_math.rs / tick_math.rs)"),
 ("F18", "the instruction dispatcher and argument decoding: lib.rs wrappers, entrypoint.rs Pinocchio routing, instruction-data parsing in the Pinocchio handlers (argument order, optional arguments, defaults)"),
 ("F19", "rust-sdk/core facades and conversions: TickArrayFacade / TickFacade / OracleFacade / WhirlpoolFacade fields, tick-array sequence construction, conversion of on-chain fields into the quote functions' inputs"),
 ("F20", "rust-sdk/core slippage, price-limit and bound helpers used by the quotes: try_get_min_amount_with_slippage_tolerance / max, sqrt-price slippage bounds, default limits, U128/u64 narrowing"),
]

def main13(tag, outdir):
    os.makedirs(outdir, exist_ok=True)
    root = os.path.dirname(os.path.dirname(os.path.abspath(__file__)))
    brief = open(os.path.join(root, "notes/SEED_BRIEF.md")).read().split("\n---\n", 1)[1]
    props = [json.loads(l) for l in open(os.path.join(root, "properties.jsonl"))]
    plist = "\n".join(f"* {p['id']} — {p['title']}. {p['statement']}" for p in props)
    for aid, concern in CONCERNS13:
        d = f"/tmp/{tag}_{aid}"
        text = ("This time you are not given one property but a KIND OF STATE or cross-cutting concern. The repository is expected to satisfy "
                "all of the following properties (each must hold for every input, history and configuration):\n\n" + plist +
                "\n\nYour assigned concern:\n  - " + concern +
                "\n\nRead how the code handles it everywhere (Anchor and Pinocchio sides, every instruction that touches it), then make a "
                "change in that handling after which one of the properties above breaks. Pick whichever property your change breaks, and "
                "say which one in meta.json (\"property\": \"Cxx\").")
        out = (brief.replace("{dir}", d).replace("{property}", text).replace("{used}", "(about two hundred earlier changes exist; most sit in the arithmetic core, the swap loop, the liquidity handlers' checks and the account constraints of the common instructions - prefer a place none of those would have touched)")
               .replace("{steer}", "Strongly preferred: a change in PLUMBING that a reviewer would wave through - a field written back from the wrong copy, a length or offset computed for the "
                        "other encoding, a value captured before instead of after an update, an account re-used across two roles - and whose effect needs a particular "
                        "history or configuration to be seen.")
               .replace("{id}", "Cxx"))
        out = out.replace("Earlier changes written against this property are listed here", "Earlier changes")
        open(os.path.join(outdir, aid + ".txt"), "w").write(out)
        print(aid, len(out))

# wave 14: by INTERACTION of two features (each is exercised alone by most tests and checks; their combination is where gaps hide)
PAIRS14 = [
 ("G01", "adaptive-fee pools (oracle account, fee-tier index different from the tick spacing) x the liquidity instructions (increase / decrease / reposition, Pinocchio handlers)"),
 ("G02", "adaptive-fee pools x Token-2022 transfer-fee mints (swap_v2 / two_hop_swap_v2 over such a pool)"),
 ("G03", "adaptive-fee pools x the fee setters (set_fee_rate, set_fee_rate_by_delegated_fee_authority, set_protocol_fee_rate, set_adaptive_fee_constants) applied in the middle of a trading history"),
 ("G04", "Token-2022 mints with a transfer fee used as REWARD mints (initialize_reward_v2, set_reward_emissions_v2 vault check, collect_reward_v2)"),
 ("G05", "Token-2022 transfer-fee mints x reposition_liquidity_v2 and increase_liquidity_by_token_amounts_v2 (netting of withdrawal and deposit, maxima / minima, events)"),
 ("G06", "full-range-only pools (tick spacing >= 32768) x the position lifecycle (open with sentinel bounds, reset_position_range, reposition, bundled positions, locking)"),
 ("G07", "dynamic tick arrays x swaps that cross ticks in the first / last slot of an array and in the arrays at the MIN / MAX end of the tick range"),
 ("G08", "locked positions x collecting fees and rewards x transfer_locked_position (who can collect what before and after the transfer)"),
 ("G09", "bundled positions x the liquidity and collect instructions (the authority is the bundle token's holder or its one-token delegate)"),
 ("G10", "Token-2022 position NFTs (open_position_with_token_extensions) x the Pinocchio liquidity handlers x close_position_with_token_extensions"),
 ("G11", "several rewards at once x tick crossings x positions opened before / after emissions started (growth-outside bookkeeping per reward index)"),
 ("G12", "owed rewards and fees x reset_position_range / reposition_liquidity_v2 / close_position* (what blocks, what survives)"),
 ("G13", "two-hop swaps x partial fills, per-leg price limits and exact-out mode"),
 ("G14", "two-hop swaps x supplemental tick arrays x un-initialised tick arrays"),
 ("G15", "protocol fees x collect_protocol_fees(_v2) x changes of the fee rate / protocol fee rate between swaps"),
 ("G16", "zero-liquidity gaps x swaps (price jumps across the gap, fee accounting while liquidity is zero) x the adaptive-fee tick-group skipping"),
 ("G17", "extreme tick spacings (1, odd values, >= 32768) x tick-array geometry x position bounds at the MIN / MAX usable ticks"),
 ("G18", "rust-sdk/core swap quotes x Token-2022 transfer fees on the input and / or output mint x exact-out mode"),
 ("G19", "rust-sdk/core swap quotes x adaptive fees x tick-array sequences containing un-initialised arrays or starting at the edge of the tick range"),
 ("G20", "rust-sdk/core liquidity quotes (by liquidity, by token A, by token B) x prices at or outside the range bounds x slippage"),
]

PAIRS15 = [
 ("H01", "increase_liquidity_by_token_amounts_v2 (liquidity estimated from token maxima and price bounds) x Token-2022 transfer-fee mints x a pool price at or next to a bound of the position's range"),
 ("H02", "first deposits that INITIALISE ticks in dynamic tick arrays (account grows, rent is topped up) x increase_liquidity_by_token_amounts_v2 / increase_liquidity_v2 x positions whose two bounds sit in different arrays"),
 ("H03", "reposition_liquidity_v2 x dynamic tick arrays (the old range's arrays may shrink, the new range's arrays may grow, rent moves between position and arrays in one instruction)"),
 ("H04", "reposition_liquidity_v2 / reset_position_range x bundled positions and Token-2022 position NFTs (authority, token account encoding, what the instruction may assume about the position)"),
 ("H05", "reset_position_range x positions with history (non-zero checkpoints, fees or rewards owed and then collected, liquidity withdrawn) x re-deposit into the new range"),
 ("H06", "two-hop swaps x adaptive-fee pools on BOTH legs (two oracles, one timestamp, per-leg fee state) x v1 / v2"),
 ("H07", "swaps x reward accrual (every swap advances the reward growth with the liquidity that was in range before it) x zero-liquidity gaps and price bounds"),
 ("H08", "the protocol fee share x adaptive fees (the protocol's cut of the adaptive part of the fee) x fee-rate changes"),
 ("H09", "the trade-enable timestamp of adaptive-fee pools x the instructions that are NOT swaps (liquidity, collects, fee setters) x the first swap after opening"),
 ("H10", "Token-2022 transfer-fee SCHEDULES (older / newer fee, epoch boundary) x swap_v2 and two_hop_swap_v2 x exact-out mode"),
 ("H11", "legacy (v1) instructions x pools or positions that need the v2 / token-extension variants (Token-2022 mints, Token-2022 position NFTs): what must be refused, and what must work alike"),
 ("H12", "rust-sdk/core swap quotes x full-range-only pools (two tick arrays span every price) x the protocol price bounds"),
 ("H13", "rust-sdk/core increase_liquidity_quote_a / _b (liquidity from one token amount) x Token-2022 transfer fees x slippage"),
 ("H14", "rust-sdk/core tick and price helpers (initializable tick index, full-range bounds, tick <-> price, is-tick-in-bounds) x extreme tick spacings"),
 ("H15", "reward authorities (per-reward authority, emissions super authority, changes of either) x running emissions x collects"),
 ("H16", "config feature flags and pool control flags (token-extensions positions required, non-transferable positions) x the open_position* variants"),
 ("H17", "lamports and rent x dynamic tick arrays x the position lifecycle (the position account carries rent for the ticks it initialised; open, deposit, withdraw, reset, close)"),
 ("H18", "swap_v2 supplemental tick arrays x dynamic / un-initialised arrays x adaptive-fee tick-group skipping over empty arrays"),
 ("H19", "adaptive fees x the MIN / MAX ends of the price range (core tick-group range clamped at the bounds, swaps that end on the price bound)"),
 ("H20", "liquidity instructions executed while the pool price sits EXACTLY on an initialised tick (both the normal and the shifted state after a downward crossing) x dynamic tick arrays"),
]

PAIRS16 = [
 ("I01", "rewards x adaptive-fee pools and full-range-only pools (reward growth advanced by swaps, positions and liquidity changes on such pools)"),
 ("I02", "collect_fees_v2 / collect_reward_v2 x Token-2022 transfer-fee mints (the payout leaves the vault in full, the holder receives it less the fee; owed amounts, events)"),
 ("I03", "collect_protocol_fees_v2 x Token-2022 transfer-fee mints x protocol-fee-rate changes"),
 ("I04", "two-hop swaps x transfer fees on the INPUT and / or OUTPUT mint (not the intermediate one) x thresholds in both modes"),
 ("I05", "two-hop swaps x token order (the intermediate mint is token A of one pool and token B of the other, or A / B of both) x direction flags"),
 ("I06", "fees and rewards owed to a position x transfer of the position NFT to another wallet (who may collect, into which accounts) x delegates"),
 ("I07", "initialize_reward / initialize_reward_v2 at indexes 0, 1, 2 (order of initialisation, re-initialisation, different authorities) x set_reward_emissions x collects"),
 ("I08", "decrease_liquidity down to zero x de-initialisation of boundary ticks x a later swap through that price x a later re-deposit on the same tick (fixed and dynamic arrays)"),
 ("I09", "rust-sdk/core swap quotes x the way tick arrays are handed over (order, duplicates, fewer than needed, un-initialised in between) x both directions"),
 ("I10", "rust-sdk/core exact-out quotes x partial fills (at the end of the supplied arrays, at an explicit-looking bound) x adaptive fees"),
 ("I11", "fee-growth and reward-growth accumulators close to wrap-around (they are u128 and wrap by design) x position checkpoints x reset_position_range / reposition_liquidity_v2"),
 ("I12", "the MAX end of the price range: swaps that end on the maximum price, positions bounded by the highest usable tick, tick arrays that reach beyond the last tick (mirror image of the MIN end)"),
]

def main14(tag, outdir):
    os.makedirs(outdir, exist_ok=True)
    root = os.path.dirname(os.path.dirname(os.path.abspath(__file__)))
    brief = open(os.path.join(root, "notes/SEED_BRIEF.md")).read().split("\n---\n", 1)[1]
    props = [json.loads(l) for l in open(os.path.join(root, "properties.jsonl"))]
    plist = "\n".join(f"* {p['id']} — {p['title']}. {p['statement']}" for p in props)
    for aid, pair in (PAIRS16 if tag.startswith('seed16') else PAIRS15 if tag.startswith('seed15') else PAIRS14):
        d = f"/tmp/{tag}_{aid}"
        text = ("This time you are not given one property but an INTERACTION of features. The repository is expected to satisfy all of the "
                "following properties (each must hold for every input, history and configuration):\n\n" + plist +
                "\n\nYour assigned interaction:\n  - " + pair +
                "\n\nEach of these features works on its own and is what tests and reviews usually exercise one at a time. Read the code "
                "where they MEET, and make a change that is invisible as long as only one of the features is in play but breaks one of the "
                "properties above when they are combined. Pick whichever property your change breaks, and say which one in meta.json "
                "(\"property\": \"Cxx\").")
        out = (brief.replace("{dir}", d).replace("{property}", text).replace("{used}", "(about 260 earlier changes exist, nearly all of them visible with a single feature in play - a change that needs the COMBINATION is what is wanted here)")
               .replace("{steer}", "The change must leave every single-feature scenario exactly as before: plain SPL static-fee pools with ordinary positions, and each of the two features "
                        "used without the other, must behave bit for bit the same. Say in demo.md how you checked that.")
               .replace("{id}", "Cxx"))
        out = out.replace("Earlier changes written against this property are listed here", "Earlier changes")
        open(os.path.join(outdir, aid + ".txt"), "w").write(out)
        print(aid, len(out))

# wave 17: changes that need a HISTORY (several state-changing instructions in a particular order) before they show
HIST17 = [
 ("J01", "the swap loop, tick crossings and the tick-array sequence (fixed and dynamic arrays)"),
 ("J02", "increase / decrease liquidity: position, tick and pool liquidity bookkeeping"),
 ("J03", "fee growth, fees owed to positions, collect_fees, protocol fees and collect_protocol_fees"),
 ("J04", "rewards: initialisation, emissions, growth, amounts owed, collect_reward"),
 ("J05", "adaptive-fee pools: the oracle's variables (reference, accumulator, timestamps) over a series of swaps and pauses"),
 ("J06", "position lifecycle: open / close, bundles, lock, transfer-lock, reset_position_range, reposition_liquidity_v2"),
 ("J07", "Token-2022 transfer-fee mints (swap_v2, liquidity v2, two_hop_swap_v2) incl. fee-schedule changes over epochs"),
 ("J08", "administration: config, fee tiers and adaptive fee tiers, authorities, default rates, fee-rate setters, several pools of one config"),
 ("J09", "the Rust core SDK quotes (rust-sdk/core: swap, increase / decrease liquidity, fees and rewards quotes) fed with the state the program leaves after a history"),
 ("J10", "dynamic tick arrays: the variable-length encoding as ticks are initialised and de-initialised over time"),
]

def main17(tag, outdir):
    os.makedirs(outdir, exist_ok=True)
    root = os.path.dirname(os.path.dirname(os.path.abspath(__file__)))
    brief = open(os.path.join(root, "notes/SEED_BRIEF.md")).read().split("\n---\n", 1)[1]
    props = [json.loads(l) for l in open(os.path.join(root, "properties.jsonl"))]
    plist = "\n".join(f"* {p['id']} — {p['title']}. {p['statement']}" for p in props)
    for aid, area in HIST17:
        d = f"/tmp/{tag}_{aid}"
        text = ("This time you are not given one property but a SUBJECT and a CONSTRAINT ON WHEN THE BREAK SHOWS. The repository is expected to satisfy all of the "
                "following properties (each must hold for every input, history and configuration):\n\n" + plist +
                "\n\nYour subject:\n  - " + area +
                "\n\nMake a change that stays invisible until a particular HISTORY has happened: at least five state-changing instructions on the same pool "
                "(after the pool, its tick arrays and its positions exist), in a particular order, are needed before any property above is broken - for instance state "
                "that only a certain sequence of swaps, liquidity changes, clock advances, collections or administrative calls can produce. Pick whichever property your "
                "change breaks, and say which one in meta.json (\"property\": \"Cxx\"), and list the shortest history you found that shows it.")
        out = (brief.replace("{dir}", d).replace("{property}", text).replace("{used}", "(about 270 earlier changes exist, nearly all of them visible after one or two instructions - a change that needs a LONG, SPECIFIC history is what is wanted here)")
               .replace("{steer}", "Every history of four or fewer state-changing instructions on a freshly created and funded pool must behave bit for bit as before. Say in demo.md how you checked that, and why no shorter history shows the break.")
               .replace("{id}", "Cxx"))
        out = out.replace("Earlier changes written against this property are listed here", "Earlier changes")
        open(os.path.join(outdir, aid + ".txt"), "w").write(out)
        print(aid, len(out))

# wave 18: changes that show only in an EXTREME BUT REACHABLE configuration (the kind a harness may wrongly take for unreachable)
EXTREME18 = [
 ("K01", "reward emission rates, reward vault sizes and the time between reward updates"),
 ("K02", "liquidity magnitudes: position / pool liquidity near the top of u128, liquidity_net / liquidity_gross of ticks at their limits, token amounts next to u64::MAX"),
 ("K03", "fee rates at their limits: fee tiers at 0 and at the maximum, protocol fee rate at 0 and at its maximum, adaptive total rates at the hard limit"),
 ("K04", "tick spacings at the ends of the allowed range (1, odd values, 32767, 32768 and above) and tick arrays at the ends of the tick range"),
 ("K05", "the ends of the price range: pools at or next to MIN_SQRT_PRICE / MAX_SQRT_PRICE, price limits equal to the bounds, positions bounded by the outermost usable ticks"),
 ("K06", "adaptive-fee constants at the ends of what initialize_adaptive_fee_tier / set_adaptive_fee_constants accept (periods, reduction factor, control factor, max accumulator, group size, major-swap threshold)"),
 ("K07", "Token-2022 transfer-fee configurations at their limits (10000 bps, maximum fee 0 or u64::MAX, schedule switches at an epoch boundary)"),
 ("K08", "time: very long gaps between instructions, equal timestamps, timestamps next to the ends of their types (reward updates, position locks, trade-enable time, adaptive-fee periods)"),
 ("K09", "the Rust core SDK (rust-sdk/core) called with extreme but valid inputs: amounts next to u64::MAX, slippage 0 and 10000 bps, ticks at the ends of the range, maximal fee rates"),
 ("K10", "counts at their limits: bundle indexes 0 and 255, the maximum number of supplemental tick arrays and of remaining accounts, all three rewards in use, first and last slot of a tick array"),
]

def main18(tag, outdir):
    os.makedirs(outdir, exist_ok=True)
    root = os.path.dirname(os.path.dirname(os.path.abspath(__file__)))
    brief = open(os.path.join(root, "notes/SEED_BRIEF.md")).read().split("\n---\n", 1)[1]
    props = [json.loads(l) for l in open(os.path.join(root, "properties.jsonl"))]
    plist = "\n".join(f"* {p['id']} — {p['title']}. {p['statement']}" for p in props)
    for aid, area in EXTREME18:
        d = f"/tmp/{tag}_{aid}"
        text = ("This time you are not given one property but a KIND OF EXTREME. The repository is expected to satisfy all of the "
                "following properties (each must hold for every input, history and configuration):\n\n" + plist +
                "\n\nYour subject:\n  - " + area +
                "\n\nTests and verification harnesses usually work with ordinary magnitudes and often take the extremes for unreachable. Find a configuration of "
                "your subject that is EXTREME BUT REACHABLE - show in demo.md which instructions, with which arguments, bring a pool there and why each of them is "
                "accepted - and make a change that behaves exactly as before for ordinary magnitudes and breaks one of the properties above in that configuration. "
                "Pick whichever property your change breaks, and say which one in meta.json (\"property\": \"Cxx\").")
        out = (brief.replace("{dir}", d).replace("{property}", text).replace("{used}", "(about 290 earlier changes exist, nearly all of them visible at ordinary magnitudes - a change that needs an EXTREME BUT REACHABLE configuration is what is wanted here)")
               .replace("{steer}", "For every ordinary configuration (amounts and liquidity below 2^40, standard tick spacings, fee rates of a few percent at most, timestamps minutes or hours apart, a handful of accounts) the behaviour must be bit for bit as before. Say in demo.md how you checked that.")
               .replace("{id}", "Cxx"))
        out = out.replace("Earlier changes written against this property are listed here", "Earlier changes")
        open(os.path.join(outdir, aid + ".txt"), "w").write(out)
        print(aid, len(out))

# wave 19: compute-unit optimisations (fast paths, early exits, cached values, skipped recomputation) that are wrong in a corner
OPT19 = [
 ("L01", "the swap loop (swap_manager, swap_math compute_swap, update_after_swap)"),
 ("L02", "the tick-array sequence and the search for the next initialised tick (fixed, dynamic and zeroed arrays, SwapTickSequence, sparse swap loading)"),
 ("L03", "the Pinocchio liquidity path (increase / decrease / reposition handlers and pinocchio/ported/*)"),
 ("L04", "fee and reward growth computation (tick_manager, position_manager, whirlpool_manager, update_fees_and_rewards, collect_*)"),
 ("L05", "the adaptive-fee manager and oracle (fee_rate_manager, state/oracle.rs)"),
 ("L06", "token helpers: transfer-fee calculation, transfers to / from vaults, memo, token-badge and extension checks (util/v2, util/token.rs)"),
 ("L07", "position lifecycle handlers and their validation (open / close, bundles, lock, transfer-lock, reset range): account and authority checks"),
 ("L08", "the two-hop swap handlers and their shared helpers (v1 and v2)"),
 ("L09", "the Rust core SDK quote and math code (rust-sdk/core)"),
 ("L10", "the dynamic tick-array codec and the Pinocchio memory-mapped accessors"),
]

def main19(tag, outdir):
    os.makedirs(outdir, exist_ok=True)
    root = os.path.dirname(os.path.dirname(os.path.abspath(__file__)))
    brief = open(os.path.join(root, "notes/SEED_BRIEF.md")).read().split("\n---\n", 1)[1]
    props = [json.loads(l) for l in open(os.path.join(root, "properties.jsonl"))]
    plist = "\n".join(f"* {p['id']} — {p['title']}. {p['statement']}" for p in props)
    for aid, area in OPT19:
        d = f"/tmp/{tag}_{aid}"
        text = ("This time you are not given one property but a KIND OF CHANGE and a place. The repository is expected to satisfy all of the "
                "following properties (each must hold for every input, history and configuration):\n\n" + plist +
                "\n\nYour place:\n  - " + area +
                "\n\nOn Solana every instruction has a compute budget, and programs are routinely optimised: fast paths for the common case, early exits, "
                "values cached or passed along instead of being recomputed, a loop that stops sooner, an update skipped when 'nothing can have changed', two passes "
                "merged into one. Write such an OPTIMISATION of your place - one a reviewer would take for a sound saving - that is wrong in a corner: it gives exactly "
                "the old result in the common case and breaks one of the properties above in a case the author of the optimisation did not think of. "
                "Pick whichever property your change breaks, and say which one in meta.json (\"property\": \"Cxx\").")
        out = (brief.replace("{dir}", d).replace("{property}", text).replace("{used}", "(about 300 earlier changes exist; many are one-token slips - a plausible OPTIMISATION with a wrong corner is what is wanted here)")
               .replace("{steer}", "The change should read as a genuine saving (fewer account reads, fewer multiplications, a shorter loop, an early return), with a comment a reviewer would accept. Say in demo.md which corner it gets wrong and why the common case is unchanged.")
               .replace("{id}", "Cxx"))
        out = out.replace("Earlier changes written against this property are listed here", "Earlier changes")
        open(os.path.join(outdir, aid + ".txt"), "w").write(out)
        print(aid, len(out))

# wave 20: degenerate and aliased inputs (zero amounts, equal bounds, the same account in two places)
DEGEN20 = [
 ("N01", "swap / swap_v2: amount 0, a price limit equal to the current price or on the wrong side, the same token account given for both tokens, the trader's account equal to a vault, repeated tick arrays"),
 ("N02", "two_hop_swap / two_hop_swap_v2: the same pool twice, pools that share both mints, intermediate accounts that coincide with input or output accounts, amount 0, limits on one leg only"),
 ("N03", "increase / decrease liquidity (all variants incl. by token amounts and reposition): liquidity 0, token maxima / minima 0, the same token account for both tokens, a position token account holding 0 or 2 tokens, lower and upper tick array the same account or swapped"),
 ("N04", "open / close position (all variants): equal or swapped bounds, bounds off the spacing, the one-sided sentinels, the receiver of the rent equal to the position or the pool, closing twice"),
 ("N05", "collect_fees / collect_reward / collect_protocol_fees (v1 and v2): nothing owed, destination equal to the vault, reward index 3, the same destination for both tokens, collecting twice in a row"),
 ("N06", "initialisation and administration: tick spacing 0 or duplicates of an existing fee tier, initialize_pool with equal or unordered mints, a reward whose mint or vault is one of the pool's own, authorities set to the same key or to the default key, rates exactly at and one above their maxima"),
 ("N07", "position bundles, lock_position, transfer_locked_position: bundle index 255 and 256, a bundled position opened twice, destination equal to source, locking twice, a lock config of another position"),
 ("N08", "the Rust core SDK (rust-sdk/core): zero amounts, zero liquidity, equal ticks or prices, slippage 0 and above 10000 bps, empty or repeated tick arrays, fee rate 0"),
]

def main20(tag, outdir):
    os.makedirs(outdir, exist_ok=True)
    root = os.path.dirname(os.path.dirname(os.path.abspath(__file__)))
    brief = open(os.path.join(root, "notes/SEED_BRIEF.md")).read().split("\n---\n", 1)[1]
    props = [json.loads(l) for l in open(os.path.join(root, "properties.jsonl"))]
    plist = "\n".join(f"* {p['id']} — {p['title']}. {p['statement']}" for p in props)
    for aid, area in DEGEN20:
        d = f"/tmp/{tag}_{aid}"
        text = ("This time you are not given one property but a family of DEGENERATE OR ALIASED INPUTS. The repository is expected to satisfy all of the "
                "following properties (each must hold for every input, history and configuration):\n\n" + plist +
                "\n\nYour family:\n  - " + area +
                "\n\nCallers do send such inputs - by mistake or on purpose - and the program either refuses them or handles them as a harmless special case. "
                "Read how each member of your family is dealt with today, and make a change after which ONE of them is mishandled in a way that breaks a property above "
                "(accepted where it must be refused, or handled with a wrong result), while every well-formed input behaves exactly as before. "
                "Pick whichever property your change breaks, and say which one in meta.json (\"property\": \"Cxx\").")
        out = (brief.replace("{dir}", d).replace("{property}", text).replace("{used}", "(about 310 earlier changes exist, nearly all of them visible with well-formed inputs - a change that needs a DEGENERATE OR ALIASED input is what is wanted here)")
               .replace("{steer}", "Every well-formed call (distinct accounts in distinct roles, non-zero amounts, lower < upper on the spacing) must behave bit for bit as before. Say in demo.md how the degenerate input was handled before and what happens to it now.")
               .replace("{id}", "Cxx"))
        out = out.replace("Earlier changes written against this property are listed here", "Earlier changes")
        open(os.path.join(outdir, aid + ".txt"), "w").write(out)
        print(aid, len(out))

# wave 21: the handler layer of the six Pinocchio instructions (validation and plumbing, not the ported math)
PINO21 = [
 ("P01", "programs/whirlpool/src/pinocchio/instructions/increase_liquidity.rs"),
 ("P02", "programs/whirlpool/src/pinocchio/instructions/increase_liquidity_v2.rs"),
 ("P03", "programs/whirlpool/src/pinocchio/instructions/increase_liquidity_by_token_amounts_v2.rs"),
 ("P04", "programs/whirlpool/src/pinocchio/instructions/decrease_liquidity.rs"),
 ("P05", "programs/whirlpool/src/pinocchio/instructions/decrease_liquidity_v2.rs"),
 ("P06", "programs/whirlpool/src/pinocchio/instructions/reposition_liquidity_v2.rs"),
]

def main21(tag, outdir):
    os.makedirs(outdir, exist_ok=True)
    root = os.path.dirname(os.path.dirname(os.path.abspath(__file__)))
    brief = open(os.path.join(root, "notes/SEED_BRIEF.md")).read().split("\n---\n", 1)[1]
    props = [json.loads(l) for l in open(os.path.join(root, "properties.jsonl"))]
    plist = "\n".join(f"* {p['id']} — {p['title']}. {p['statement']}" for p in props)
    for aid, path in PINO21:
        d = f"/tmp/{tag}_{aid}"
        text = ("This time you are not given one property but ONE HANDLER. The repository is expected to satisfy all of the "
                "following properties (each must hold for every input, history and configuration):\n\n" + plist +
                "\n\nYour handler - the change must be made in this file, or in a helper under programs/whirlpool/src/pinocchio/ that it calls for account "
                "loading, validation, transfers or write-back (NOT in pinocchio/ported/manager_* - the ported arithmetic has been covered):\n  - " + path +
                "\n\nThese six handlers are the live implementation of the liquidity instructions and have no unit tests of their own. Read the handler from the "
                "first account it loads to the last byte it writes - which account is checked against which, who must sign, which amount goes into which transfer in "
                "which direction, what is written back where and in which order, how remaining accounts and token programs are picked - and make a change there that "
                "breaks one of the properties above. Pick whichever property your change breaks, and say which one in meta.json (\"property\": \"Cxx\").")
        out = (brief.replace("{dir}", d).replace("{property}", text).replace("{used}", "(about 320 earlier changes exist; few of them touch the handler layer of this file)")
               .replace("{steer}", "Prefer a change that an ordinary call (the owner adding or removing liquidity on a plain SPL pool, in range) does not notice: it should need a particular account arrangement, token program, position state or argument.")
               .replace("{id}", "Cxx"))
        out = out.replace("Earlier changes written against this property are listed here", "Earlier changes")
        open(os.path.join(outdir, aid + ".txt"), "w").write(out)
        print(aid, len(out))

# wave 22: arithmetic refactors (types, widths, order of operations, overflow checks) that are exact except at an extreme
ARITH22 = [
 ("Q01", "programs/whirlpool/src/math/swap_math.rs (compute_swap and its helpers)"),
 ("Q02", "programs/whirlpool/src/math/token_math.rs (get_amount_delta_a/b, get_next_sqrt_price_*, the fee helpers)"),
 ("Q03", "programs/whirlpool/src/math/tick_math.rs (sqrt_price_from_tick_index, tick_index_from_sqrt_price)"),
 ("Q04", "programs/whirlpool/src/math/u256_math.rs and bit_math.rs (U256Muldiv, checked_mul_div, checked_mul_shift_right and friends)"),
 ("Q05", "programs/whirlpool/src/math/liquidity_math.rs and the liquidity / growth arithmetic in manager/tick_manager.rs, manager/position_manager.rs, manager/whirlpool_manager.rs"),
 ("Q06", "programs/whirlpool/src/manager/fee_rate_manager.rs and state/oracle.rs (adaptive-fee arithmetic)"),
 ("Q07", "programs/whirlpool/src/util/v2/token.rs and util/v2/swap_utils.rs (transfer-fee arithmetic: included / excluded amounts, caps)"),
 ("Q08", "rust-sdk/core/src/math/token.rs and math/bundle.rs, math/position.rs (SDK amount and position arithmetic)"),
 ("Q09", "rust-sdk/core/src/math/tick.rs, math/tick_array.rs, math/price.rs (SDK tick and price arithmetic)"),
 ("Q10", "rust-sdk/core/src/quote/liquidity.rs and quote/swap.rs, math/adaptive_fee.rs (SDK quote arithmetic)"),
]

def main22(tag, outdir):
    os.makedirs(outdir, exist_ok=True)
    root = os.path.dirname(os.path.dirname(os.path.abspath(__file__)))
    brief = open(os.path.join(root, "notes/SEED_BRIEF.md")).read().split("\n---\n", 1)[1]
    props = [json.loads(l) for l in open(os.path.join(root, "properties.jsonl"))]
    plist = "\n".join(f"* {p['id']} — {p['title']}. {p['statement']}" for p in props)
    for aid, area in ARITH22:
        d = f"/tmp/{tag}_{aid}"
        text = ("This time you are not given one property but a PIECE OF ARITHMETIC. The repository is expected to satisfy all of the "
                "following properties (each must hold for every input, history and configuration):\n\n" + plist +
                "\n\nYour piece:\n  - " + area +
                "\n\nWrite an ARITHMETIC REFACTOR of it - a different integer type or width for an intermediate value, a cast moved before or after an operation, a "
                "checked operation replaced by a cheaper test plus an unchecked one, two operations reordered or fused, a division replaced by a shift or a multiplication "
                "by a reciprocal, a clamp moved - that a reviewer would wave through and that gives EXACTLY the old result except on a thin set of inputs (a boundary of an "
                "intermediate value, a particular bit length, a remainder of exactly zero, an operand at the end of its range), where it breaks one of the properties above. "
                "Pick whichever property your change breaks, and say which one in meta.json (\"property\": \"Cxx\"). The wrong inputs must be REACHABLE: say in demo.md "
                "which instruction arguments or pool state produce them.")
        out = (brief.replace("{dir}", d).replace("{property}", text).replace("{used}", "(about 330 earlier changes exist; several move an overflow test or narrow a product - find a DIFFERENT intermediate value or boundary than the obvious ones: 2^64, 2^128, 2^192 of the main products have been used)")
               .replace("{steer}", "Characterise the set of inputs on which old and new code differ as precisely as you can (ideally with an exhaustive or randomised differential run of old against new, kept out of the repository), and put that characterisation in demo.md.")
               .replace("{id}", "Cxx"))
        out = out.replace("Earlier changes written against this property are listed here", "Earlier changes")
        open(os.path.join(outdir, aid + ".txt"), "w").write(out)
        print(aid, len(out))

def main():
    tag, outdir = sys.argv[1], sys.argv[2]
    if tag.startswith("seed17"):
        return main17(tag, outdir)
    if tag.startswith("seed18"):
        return main18(tag, outdir)
    if tag.startswith("seed19"):
        return main19(tag, outdir)
    if tag.startswith("seed20"):
        return main20(tag, outdir)
    if tag.startswith("seed21"):
        return main21(tag, outdir)
    if tag.startswith("seed22"):
        return main22(tag, outdir)
    if tag.startswith("seed14") or tag.startswith("seed15") or tag.startswith("seed16"):
        return main14(tag, outdir)
    if tag.startswith("seed13"):
        return main13(tag, outdir)
    if tag.startswith("seed11"):
        return main11(tag, outdir)
    if tag.startswith("seed12"):
        return main12(tag, outdir)
    os.makedirs(outdir, exist_ok=True)
    root = os.path.dirname(os.path.dirname(os.path.abspath(__file__)))
    brief = open(os.path.join(root, "notes/SEED_BRIEF.md")).read().split("\n---\n", 1)[1]
    props = [json.loads(l) for l in open(os.path.join(root, "properties.jsonl"))]
    metas = []
    for d in sorted(glob.glob(os.path.join(root, "seeded", "[CA]*"))):
        try:
            m = json.load(open(os.path.join(d, "meta.json")))
        except Exception:
            continue
        fs = m.get("files", [])
        if isinstance(fs, str):
            fs = [fs]
        metas.append((fs, str(m.get("breaks", ""))[:300]))
    plist = "\n".join(f"* {p['id']} — {p['title']}. {p['statement']}" for p in props)
    areas = AREAS9 if tag.startswith('seed9') else AREAS
    for aid, paths in areas:
        used = [f"* [{', '.join(fs)}] {b}" for fs, b in metas if any(any(str(f).startswith(p) or p.startswith(str(f)) for p in paths) for f in fs)]
        d = f"/tmp/{tag}_{aid}"
        text = ("This time you are not given one property but a PART OF THE SOURCE TREE. The repository is expected to satisfy all of the "
                "following properties (each must hold for every input, history and configuration):\n\n" + plist +
                "\n\nYour assigned area — your change must be made INSIDE these files / directories (you may read everything else):\n" +
                "\n".join(f"  - {p}" for p in paths) +
                "\n\nPick whichever of the properties above a change in your area can break, and say which one in meta.json (\"property\": \"Cxx\").")
        out = (brief.replace("{dir}", d).replace("{property}", text).replace("{used}", "\n".join(used) or "(none in this area)")
               .replace("{steer}", "Prefer the least obvious place in your area: code that looks like plumbing (account loading, argument forwarding, write-back, ordering of updates, helper predicates) rather than the arithmetic core.")
               .replace("{id}", "Cxx"))
        out = out.replace("Earlier changes written against this property are listed here", "Earlier changes made in this area are listed here")
        open(os.path.join(outdir, aid + ".txt"), "w").write(out)
        print(aid, len(out), len(used))
if __name__ == "__main__":
    main()
