#!/usr/bin/env python3
"""Mechanical mutation campaign against the quick tier (a test of the machinery, not a check).

Enumerates single-token mutants of the program / SDK sources (comparison boundaries, ==/!=, &&/||, +/-, min/max, boolean
literals, +1/-1 offsets, negation removal), and for each one, in a private lane (copy of the harness + own git worktree of
/repo under /tmp; /repo itself is never touched):
  build the harness against the mutated tree, run every quick check (hard cap per check), record which checks report a
  VIOLATION; for mutants no check reports, run the repository's own test suite on the mutated tree to see whether the
  pinned tests notice it.  Results: one JSON line per mutant.

usage: mutate.py list [--stride K] > mutants.jsonl
       mutate.py run --lane N --lanes M --mutants mutants.jsonl --out results.jsonl [--checks C01,C02,...]
"""
import argparse, json, os, re, subprocess, sys, time, shutil

REPO = "/repo"
FILES = """
programs/whirlpool/src/manager/swap_manager.rs
programs/whirlpool/src/manager/liquidity_manager.rs
programs/whirlpool/src/manager/tick_manager.rs
programs/whirlpool/src/manager/position_manager.rs
programs/whirlpool/src/manager/whirlpool_manager.rs
programs/whirlpool/src/manager/fee_rate_manager.rs
programs/whirlpool/src/manager/tick_array_manager.rs
programs/whirlpool/src/math/swap_math.rs
programs/whirlpool/src/math/token_math.rs
programs/whirlpool/src/math/tick_math.rs
programs/whirlpool/src/math/liquidity_math.rs
programs/whirlpool/src/math/u256_math.rs
programs/whirlpool/src/state/whirlpool.rs
programs/whirlpool/src/state/position.rs
programs/whirlpool/src/state/tick.rs
programs/whirlpool/src/state/dynamic_tick_array.rs
programs/whirlpool/src/state/fixed_tick_array.rs
programs/whirlpool/src/state/oracle.rs
programs/whirlpool/src/state/position_bundle.rs
programs/whirlpool/src/state/lock_config.rs
programs/whirlpool/src/state/fee_tier.rs
programs/whirlpool/src/state/adaptive_fee_tier.rs
programs/whirlpool/src/state/config.rs
programs/whirlpool/src/util/shared.rs
programs/whirlpool/src/util/swap_tick_sequence.rs
programs/whirlpool/src/util/sparse_swap.rs
programs/whirlpool/src/util/swap_utils.rs
programs/whirlpool/src/util/token.rs
programs/whirlpool/src/util/v2/token.rs
programs/whirlpool/src/util/v2/swap_utils.rs
""".split()
DIRS = ["programs/whirlpool/src/instructions", "programs/whirlpool/src/pinocchio", "rust-sdk/core/src/math", "rust-sdk/core/src/quote"]

OPS = [
    (r"(?<![<=>\-!])<=(?![=>])", "<"), (r"(?<![<=>\-!])>=(?![=>])", ">"),
    (r"(?<=\s)<(?=\s)", "<="), (r"(?<=\s)>(?=\s)", ">="),
    (r"==", "!="), (r"!=", "=="), (r"&&", "||"), (r"\|\|", "&&"),
    (r"(?<=\s)\+(?=\s)", "-"), (r"(?<=[\w\)])\s-\s(?=[\w\(])", " + "),
    (r"\.min\(", ".max("), (r"\.max\(", ".min("),
    (r"\btrue\b", "false"), (r"\bfalse\b", "true"),
    (r"\bchecked_add\b", "checked_sub"), (r"\bchecked_sub\b", "checked_add"),
    (r"\bwrapping_add\b", "wrapping_sub"), (r"\bwrapping_sub\b", "wrapping_add"),
    (r"(?<=[\s\(])!(?=[a-z_\(])", ""),
    (r"\+ 1\b", "+ 0"), (r"- 1\b", "- 0"),
    (r"\bshift_right\b", "shift_right_round_up_if"), (r"\bdiv_round_up_if\b", "div_floor_if"),
    (r"\bround_up: true\b", "round_up: false"),
]

def source_files():
    out = [f for f in FILES if os.path.exists(os.path.join(REPO, f))]
    for d in DIRS:
        for root, _, fs in os.walk(os.path.join(REPO, d)):
            for f in sorted(fs):
                if f.endswith(".rs") and "test" not in f and f != "verif_hooks.rs":
                    out.append(os.path.relpath(os.path.join(root, f), REPO))
    return sorted(set(out))

def candidates():
    for f in source_files():
        lines = open(os.path.join(REPO, f)).read().split("\n")
        in_attr = False
        for i, line in enumerate(lines):
            s = line.strip()
            if s.startswith("#[cfg(test)]") or s.startswith("#[cfg(all(test"):
                break  # unit tests live at the bottom
            if not s or s.startswith("//") or s.startswith("#[") or s.startswith("use ") or s.startswith("pub use ") or s.startswith("msg!") or s.startswith("pino_msg") or "verif" in s:
                continue
            code = line.split("//")[0]
            for (pat, rep) in OPS:
                for m in re.finditer(pat, code):
                    new = code[: m.start()] + rep + code[m.end():]
                    if new != code:
                        yield {"file": f, "line": i + 1, "col": m.start(), "old": line, "new": new + line[len(code):], "op": f"{pat} -> {rep}"}

def sh(cmd, cwd=None, timeout=None, env=None):
    try:
        p = subprocess.run(cmd, shell=True, cwd=cwd, timeout=timeout, env=env, stdout=subprocess.PIPE, stderr=subprocess.STDOUT, text=True)
        return p.returncode, p.stdout
    except subprocess.TimeoutExpired as e:
        return 124, (e.stdout or "") if isinstance(e.stdout, str) else ""

def lane_dir(n):
    return f"/tmp/mut_lane_{n}"

def setup_lane(n):
    W = lane_dir(n)
    if not os.path.exists(W + "/repo"):
        os.makedirs(W, exist_ok=True)
        sh(f"git -C {REPO} worktree add --detach {W}/repo HEAD")
    sh(f"rsync -a --exclude target /verif/harness/ {W}/harness/ && rsync -a /verif/shims/ {W}/shims/ && cp /verif/known_findings.json {W}/")
    sh(f"sed -i 's#\"/repo/#\"{W}/repo/#g' {W}/harness/Cargo.toml")
    return W

def run(args):
    W = setup_lane(args.lane)
    muts = [json.loads(l) for l in open(args.mutants)]
    mine = [m for k, m in enumerate(muts) if k % args.lanes == args.lane]
    done = set()
    if os.path.exists(args.out):
        for l in open(args.out):
            try:
                r = json.loads(l); done.add((r["file"], r["line"], r["col"], r["op"]))
            except Exception:
                pass
    checks = args.checks.split(",")
    env = dict(os.environ, CARGO_NET_OFFLINE="true", VERIF_ROOT=W, WPV_HARD_CAP_S="150")
    for m in mine:
        key = (m["file"], m["line"], m["col"], m["op"])
        if key in done:
            continue
        sh("git checkout -q -- .", cwd=W + "/repo")
        p = os.path.join(W, "repo", m["file"])
        lines = open(p).read().split("\n")
        if lines[m["line"] - 1] != m["old"]:
            continue
        lines[m["line"] - 1] = m["new"]
        open(p, "w").write("\n".join(lines))
        t0 = time.time()
        rc, out = sh("nice -n 10 cargo build --release --offline 2>&1 | tail -30", cwd=W + "/harness", env=env, timeout=1200)
        res = dict(m, lane=args.lane)
        if "error" in out and ("could not compile" in out or "error[" in out or "error:" in out):
            res["status"] = "compile_error"
        else:
            killed, other = [], {}
            for c in checks:
                rc, o = sh(f"nice -n 10 ./target/release/wpv check {c} --tier quick 2>&1 | grep -E 'VIOLATION|MACHINERY|exit=' | head -3", cwd=W + "/harness", env=env, timeout=400)
                if "VIOLATION" in o:
                    killed.append(c)
                    d = re.search(r"detail: (.*)", o)
                elif "exit=0" not in o:
                    other[c] = o.strip()[-200:]
                if len(killed) >= args.stop_after:
                    break
            res["killed_by"] = killed
            res["other"] = other
            if killed:
                res["status"] = "killed"
            else:
                rc, o = sh("nice -n 10 cargo test --offline -p whirlpool --lib 2>&1 | grep -E '^test result|FAILED|panicked' | head -5", cwd=W + "/repo", env=dict(env, CARGO_TARGET_DIR=W + "/rt"), timeout=1500)
                res["repo_tests"] = o.strip()[-300:]
                res["status"] = "survived_tests_fail" if ("FAILED" in o or "failed;" in o and " 0 failed" not in o) else "survived"
        res["secs"] = round(time.time() - t0)
        with open(args.out, "a") as f:
            f.write(json.dumps(res) + "\n")
        sh("git checkout -q -- .", cwd=W + "/repo")

def main():
    ap = argparse.ArgumentParser()
    sub = ap.add_subparsers(dest="cmd")
    l = sub.add_parser("list"); l.add_argument("--stride", type=int, default=1); l.add_argument("--offset", type=int, default=0)
    r = sub.add_parser("run"); r.add_argument("--lane", type=int, required=True); r.add_argument("--lanes", type=int, required=True)
    r.add_argument("--mutants", required=True); r.add_argument("--out", required=True)
    r.add_argument("--checks", default=",".join(f"C{i:02d}" for i in range(1, 21))); r.add_argument("--stop-after", type=int, default=2)
    a = ap.parse_args()
    if a.cmd == "list":
        for k, c in enumerate(candidates()):
            if k % a.stride == a.offset:
                print(json.dumps(c))
    elif a.cmd == "run":
        run(a)

if __name__ == "__main__":
    main()
