#!/bin/bash
# Regression over all kept seeded changes: each seeded/<ID>[-n]/patch.diff is applied in a private lane (never /repo) and the quick check
# of ITS OWN property must report a violation (exit 1).   usage: seed_regress.sh <lane> <k> <n>   (this process handles seeds k mod n)
# Output: one line per seed "<seed> <own check> exit=<code>"; summary at the end. Lane is left in place (remove with seedlane.sh <lane> --remove).
lane=$1; k=${2:-0}; n=${3:-1}
cd "$(dirname "$0")/.." || exit 2
i=0; bad=0; tot=0
for d in $(ls -d seeded/C* | sort); do
  s=$(basename $d); id=${s%%-*}
  if [ $((i % n)) -eq $k ]; then
    out=$(tools/seedlane.sh $lane $PWD/$d/patch.diff $id 2>&1)
    code=$(echo "$out" | grep -m1 -E "^$id exit=" | sed -E 's/.*exit=([0-9]+).*/\1/')
    echo "$s $id exit=${code:-?} $(echo "$out" | grep -m1 -E 'detail:|MACHINERY|BUILD FAILED|patch does not apply' | cut -c1-200)"
    tot=$((tot+1)); [ "$code" = 1 ] || bad=$((bad+1))
  fi
  i=$((i+1))
done
echo "SUMMARY lane=$lane seeds=$tot not_caught=$bad"
