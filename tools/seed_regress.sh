#!/bin/bash
# Regression over all kept seeded changes: each seeded/<ID>[-n]/patch.diff is applied in a private lane (never /repo) and the quick check
# of ITS OWN property must report a violation (exit 1).   usage: seed_regress.sh <lane> <k> <n>   (this process handles seeds k mod n)
# env SEEDS="C01-2 B08-9" restricts the run to these seeds; HARNESS_SRC=/tmp/verif_snapshot (see seedlane.sh snapshot) freezes the harness.
# env ONLY=C01 restricts the run to the seeds whose owning check is C01.
# Output: one line per seed "<seed> <own check> exit=<code>"; summary at the end. Lane is left in place (remove with seedlane.sh <lane> --remove).
lane=$1; k=${2:-0}; n=${3:-1}
cd "$(dirname "$0")/.." || exit 2
i=0; bad=0; tot=0
for d in $(ls -d seeded/C* seeded/A* seeded/B* seeded/D* seeded/E* seeded/F* seeded/G* seeded/H* seeded/I* seeded/J* seeded/K* seeded/L* seeded/N* seeded/P* seeded/Q* 2>/dev/null | sort); do
  s=$(basename $d); id=${s%%-*}
  if [ -n "${SEEDS:-}" ] && ! echo " $SEEDS " | grep -q " $s "; then continue; fi
  if [ $((i % n)) -eq $k ]; then
    # the check expected to catch it: the seed's own property, unless meta.json records another owner (e.g. an SDK change written
    # against C09 is C20's); a signature-preserving port (patch_compat.diff) is used where the original stops the harness building
    own=$id
    id=$(python3 -c "
import json,sys,re
m=json.load(open('$d/meta.json')).get('verified_by_main_agent',{})
c=[re.match(r'C\d\d',x).group(0) for x in m.get('caught_by',[]) if re.match(r'C\d\d',x)]
print('SKIP' if (m.get('own_check_before_strengthening')=='other' and not c) else ('$own' if ('$own' in c or not c) else c[0]))" 2>/dev/null || echo $own)
    if [ "$id" = SKIP ]; then echo "$s - skipped (recorded as outside the twenty statements)"; i=$((i+1)); continue; fi
    if [ -n "${ONLY:-}" ] && [ "$id" != "$ONLY" ]; then i=$((i+1)); continue; fi
    pf=$PWD/$d/patch.diff; [ -f $d/patch_compat.diff ] && pf=$PWD/$d/patch_compat.diff
    out=$(tools/seedlane.sh $lane $pf $id 2>&1)
    code=$(echo "$out" | grep -m1 -E "^$id exit=" | sed -E 's/.*exit=([0-9]+).*/\1/')
    echo "$s $id exit=${code:-?} $(echo "$out" | grep -m1 -E 'detail:|MACHINERY|BUILD FAILED|patch does not apply' | cut -c1-200)"
    tot=$((tot+1)); [ "$code" = 1 ] || bad=$((bad+1))
  fi
  i=$((i+1))
done
echo "SUMMARY lane=$lane seeds=$tot not_caught=$bad"
