//! VERIF SHIM: host-side syscall table used when pinocchio is built for a non-SBF target.
//! Upstream pinocchio turns every syscall into a no-op on the host; this table lets a native
//! harness provide CPI, sysvars and logging exactly where the SBF build would trap into the VM.
use crate::instruction::{Account, Instruction, Signer};
use core::sync::atomic::{AtomicUsize, Ordering};

pub type InvokeFn = unsafe fn(&Instruction, &[Account], &[Signer]);
pub type SysvarFn = fn(*mut u8) -> u64;
pub type LogFn = fn(&str);
pub type LogDataFn = fn(&[&[u8]]);

static INVOKE: AtomicUsize = AtomicUsize::new(0);
static CLOCK: AtomicUsize = AtomicUsize::new(0);
static RENT: AtomicUsize = AtomicUsize::new(0);
static LOG: AtomicUsize = AtomicUsize::new(0);
static LOG_DATA: AtomicUsize = AtomicUsize::new(0);

pub fn set_host(invoke: InvokeFn, clock: SysvarFn, rent: SysvarFn, log: LogFn, log_data: LogDataFn) {
    INVOKE.store(invoke as usize, Ordering::SeqCst);
    CLOCK.store(clock as usize, Ordering::SeqCst);
    RENT.store(rent as usize, Ordering::SeqCst);
    LOG.store(log as usize, Ordering::SeqCst);
    LOG_DATA.store(log_data as usize, Ordering::SeqCst);
}

pub unsafe fn invoke_signed(i: &Instruction, a: &[Account], s: &[Signer]) {
    let p = INVOKE.load(Ordering::SeqCst);
    if p != 0 { let f: InvokeFn = core::mem::transmute(p); f(i, a, s) }
}
pub fn sol_get_clock_sysvar(addr: *mut u8) -> u64 {
    let p = CLOCK.load(Ordering::SeqCst);
    if p == 0 { return 1 } let f: SysvarFn = unsafe { core::mem::transmute(p) }; f(addr)
}
pub fn sol_get_rent_sysvar(addr: *mut u8) -> u64 {
    let p = RENT.load(Ordering::SeqCst);
    if p == 0 { return 1 } let f: SysvarFn = unsafe { core::mem::transmute(p) }; f(addr)
}
pub fn log(m: &str) { let p = LOG.load(Ordering::SeqCst); if p != 0 { let f: LogFn = unsafe { core::mem::transmute(p) }; f(m) } }
pub fn log_data(d: &[&[u8]]) { let p = LOG_DATA.load(Ordering::SeqCst); if p != 0 { let f: LogDataFn = unsafe { core::mem::transmute(p) }; f(d) } }
pub fn sol_get_fees_sysvar(_addr: *mut u8) -> u64 { 1 }
