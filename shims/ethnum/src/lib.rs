//! VERIF SHIM for `ethnum` (absent from the offline cargo cache): only the `U256` surface that
//! rust-sdk/core uses, implemented on top of `uint::construct_uint!`.
#![allow(clippy::all)]
mod inner { uint::construct_uint! { pub struct U(4); } }
use inner::U;
use core::ops::*;

#[allow(non_camel_case_types)]
pub type u256 = U256;

#[derive(Clone, Copy, PartialEq, Eq, PartialOrd, Ord, Hash, Default, Debug)]
pub struct U256(U);

impl U256 {
    pub const ZERO: U256 = U256(U([0, 0, 0, 0]));
    pub const ONE: U256 = U256(U([1, 0, 0, 0]));
    pub const MIN: U256 = U256(U([0, 0, 0, 0]));
    pub const MAX: U256 = U256(U([u64::MAX; 4]));
    pub fn new(v: u128) -> Self { U256(U::from(v)) }
    pub fn checked_mul(self, o: U256) -> Option<U256> { self.0.checked_mul(o.0).map(U256) }
    pub fn checked_add(self, o: U256) -> Option<U256> { self.0.checked_add(o.0).map(U256) }
    pub fn checked_sub(self, o: U256) -> Option<U256> { self.0.checked_sub(o.0).map(U256) }
    pub fn checked_div(self, o: U256) -> Option<U256> { self.0.checked_div(o.0).map(U256) }
    pub fn checked_shl(self, n: u32) -> Option<U256> { if n >= 256 { None } else { Some(U256(self.0 << (n as usize))) } }
    pub fn checked_shr(self, n: u32) -> Option<U256> { if n >= 256 { None } else { Some(U256(self.0 >> (n as usize))) } }
    pub fn as_u128(self) -> u128 { self.0.low_u128() }
    pub fn as_u64(self) -> u64 { self.0.low_u64() }
    pub fn as_u32(self) -> u32 { self.0.low_u64() as u32 }
    pub fn as_u16(self) -> u16 { self.0.low_u64() as u16 }
    pub fn as_u8(self) -> u8 { self.0.low_u64() as u8 }
    pub fn leading_zeros(self) -> u32 { self.0.leading_zeros() }
}
macro_rules! from_prim { ($($t:ty),*) => { $( impl From<$t> for U256 { fn from(v: $t) -> Self { U256(U::from(v as u128)) } } )* } }
from_prim!(u8, u16, u32, u64, u128, usize, bool);
macro_rules! try_into_prim { ($($t:ty),*) => { $( impl TryFrom<U256> for $t { type Error = core::num::TryFromIntError; fn try_from(v: U256) -> Result<$t, Self::Error> {
    if v.0.bits() > 128 { return <$t>::try_from(u128::MAX).map_err(|e| e).and_then(|_| <u8>::try_from(256u32).map(|_| 0 as $t)); }
    <$t>::try_from(v.0.low_u128()) } } )* } }
try_into_prim!(u8, u16, u32, u64);
impl TryFrom<U256> for u128 { type Error = core::num::TryFromIntError; fn try_from(v: U256) -> Result<u128, Self::Error> {
    if v.0.bits() > 128 { return u8::try_from(256u32).map(|_| 0u128); } Ok(v.0.low_u128()) } }
// arithmetic: ethnum follows primitive semantics (panic on overflow with overflow-checks, wrap otherwise)
macro_rules! binop { ($tr:ident, $f:ident, $atr:ident, $af:ident, $body:expr) => {
    impl $tr for U256 { type Output = U256; fn $f(self, o: U256) -> U256 { let f: fn(U, U) -> U = $body; U256(f(self.0, o.0)) } }
    impl $atr for U256 { fn $af(&mut self, o: U256) { *self = $tr::$f(*self, o); } }
} }
#[cfg(debug_assertions)] binop!(Add, add, AddAssign, add_assign, |a, b| a.checked_add(b).expect("attempt to add with overflow"));
#[cfg(not(debug_assertions))] binop!(Add, add, AddAssign, add_assign, |a, b| a.overflowing_add(b).0);
#[cfg(debug_assertions)] binop!(Sub, sub, SubAssign, sub_assign, |a, b| a.checked_sub(b).expect("attempt to subtract with overflow"));
#[cfg(not(debug_assertions))] binop!(Sub, sub, SubAssign, sub_assign, |a, b| a.overflowing_sub(b).0);
#[cfg(debug_assertions)] binop!(Mul, mul, MulAssign, mul_assign, |a, b| a.checked_mul(b).expect("attempt to multiply with overflow"));
#[cfg(not(debug_assertions))] binop!(Mul, mul, MulAssign, mul_assign, |a, b| a.overflowing_mul(b).0);
binop!(Div, div, DivAssign, div_assign, |a, b| a / b);
binop!(Rem, rem, RemAssign, rem_assign, |a, b| a % b);
binop!(BitAnd, bitand, BitAndAssign, bitand_assign, |a, b| a & b);
binop!(BitOr, bitor, BitOrAssign, bitor_assign, |a, b| a | b);
binop!(BitXor, bitxor, BitXorAssign, bitxor_assign, |a, b| a ^ b);
impl Not for U256 { type Output = U256; fn not(self) -> U256 { U256(!self.0) } }
macro_rules! shifts { ($($t:ty),*) => { $(
    impl Shl<$t> for U256 { type Output = U256; fn shl(self, n: $t) -> U256 { U256(self.0 << (n as usize)) } }
    impl Shr<$t> for U256 { type Output = U256; fn shr(self, n: $t) -> U256 { U256(self.0 >> (n as usize)) } }
    impl ShlAssign<$t> for U256 { fn shl_assign(&mut self, n: $t) { *self = *self << n; } }
    impl ShrAssign<$t> for U256 { fn shr_assign(&mut self, n: $t) { *self = *self >> n; } }
)* } }
shifts!(u8, u16, u32, u64, usize, i8, i16, i32, i64, isize);
impl core::fmt::Display for U256 { fn fmt(&self, f: &mut core::fmt::Formatter) -> core::fmt::Result { write!(f, "{}", self.0) } }
// mixed ops with u128 only (as ethnum does), so that integer literals infer `u128`
macro_rules! mixed { ($tr:ident, $f:ident, $atr:ident, $af:ident) => {
    impl $tr<u128> for U256 { type Output = U256; fn $f(self, o: u128) -> U256 { $tr::$f(self, U256::from(o)) } }
    impl $atr<u128> for U256 { fn $af(&mut self, o: u128) { *self = $tr::$f(*self, U256::from(o)); } }
} }
mixed!(Add, add, AddAssign, add_assign); mixed!(Sub, sub, SubAssign, sub_assign); mixed!(Mul, mul, MulAssign, mul_assign);
mixed!(Div, div, DivAssign, div_assign); mixed!(Rem, rem, RemAssign, rem_assign); mixed!(BitAnd, bitand, BitAndAssign, bitand_assign);
mixed!(BitOr, bitor, BitOrAssign, bitor_assign);
impl PartialEq<u128> for U256 { fn eq(&self, o: &u128) -> bool { *self == U256::from(*o) } }
impl PartialOrd<u128> for U256 { fn partial_cmp(&self, o: &u128) -> Option<core::cmp::Ordering> { self.partial_cmp(&U256::from(*o)) } }
impl PartialEq<U256> for u128 { fn eq(&self, o: &U256) -> bool { U256::from(*self) == *o } }
impl PartialOrd<U256> for u128 { fn partial_cmp(&self, o: &U256) -> Option<core::cmp::Ordering> { U256::from(*self).partial_cmp(o) } }
