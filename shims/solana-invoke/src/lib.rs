#![doc = include_str!("../README.md")]
#![allow(unexpected_cfgs)]

use solana_account_info::AccountInfo;
use solana_instruction::Instruction;
use solana_program_entrypoint::ProgramResult;

mod stable_instruction_borrowed;

pub fn invoke(instruction: &Instruction, account_infos: &[AccountInfo]) -> ProgramResult {
    invoke_signed(instruction, account_infos, &[])
}

pub fn invoke_unchecked(instruction: &Instruction, account_infos: &[AccountInfo]) -> ProgramResult {
    invoke_signed_unchecked(instruction, account_infos, &[])
}

pub fn invoke_signed(
    instruction: &Instruction,
    account_infos: &[AccountInfo],
    signers_seeds: &[&[&[u8]]],
) -> ProgramResult {
    // Check that the account RefCells are consistent with the request
    for account_meta in instruction.accounts.iter() {
        for account_info in account_infos.iter() {
            if account_meta.pubkey == *account_info.key {
                if account_meta.is_writable {
                    let _ = account_info.try_borrow_mut_lamports()?;
                    let _ = account_info.try_borrow_mut_data()?;
                } else {
                    let _ = account_info.try_borrow_lamports()?;
                    let _ = account_info.try_borrow_data()?;
                }
                break;
            }
        }
    }

    invoke_signed_unchecked(instruction, account_infos, signers_seeds)
}

#[cfg(target_os = "solana")]
use solana_define_syscall::definitions::sol_invoke_signed_rust;

#[cfg(not(target_os = "solana"))]
unsafe fn sol_invoke_signed_rust(_: *const u8, _: *const u8, _: u64, _: *const u8, _: u64) -> u64 {
    unimplemented!("only supported with `target_os = \"solana\"")
}

// VERIF SHIM: on the host, forward CPI to a harness-registered function instead of `unimplemented!()`.
#[cfg(not(target_os = "solana"))]
pub mod host {
    use super::*;
    use std::sync::atomic::{AtomicUsize, Ordering};
    pub type InvokeFn = fn(&Instruction, &[AccountInfo], &[&[&[u8]]]) -> ProgramResult;
    static INVOKE: AtomicUsize = AtomicUsize::new(0);
    pub fn set_invoke(f: InvokeFn) { INVOKE.store(f as usize, Ordering::SeqCst); }
    pub(crate) fn call(i: &Instruction, a: &[AccountInfo], s: &[&[&[u8]]]) -> ProgramResult {
        let p = INVOKE.load(Ordering::SeqCst);
        assert!(p != 0, "solana-invoke shim: no host invoke registered");
        let f: InvokeFn = unsafe { std::mem::transmute(p) };
        f(i, a, s)
    }
}

#[cfg(not(target_os = "solana"))]
pub fn invoke_signed_unchecked(
    instruction: &Instruction,
    account_infos: &[AccountInfo],
    signers_seeds: &[&[&[u8]]],
) -> ProgramResult {
    host::call(instruction, account_infos, signers_seeds)
}

#[cfg(target_os = "solana")]
pub fn invoke_signed_unchecked(
    instruction: &Instruction,
    account_infos: &[AccountInfo],
    signers_seeds: &[&[&[u8]]],
) -> ProgramResult {
    use stable_instruction_borrowed::StableInstructionBorrowed;
    let stable = StableInstructionBorrowed::new(instruction);
    let instruction_addr = stable.instruction_addr();

    let result = unsafe {
        sol_invoke_signed_rust(
            instruction_addr,
            account_infos as *const _ as *const u8,
            account_infos.len() as u64,
            signers_seeds as *const _ as *const u8,
            signers_seeds.len() as u64,
        )
    };

    match result {
        solana_program_entrypoint::SUCCESS => Ok(()),
        _ => Err(result.into()),
    }
}
